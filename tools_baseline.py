#!/usr/bin/env python3
"""Regenerates baseline/obligations.json from the evidence files of a run on the UNCHANGED tree (developer tool;
never invoked by a check).  The baseline lists, per property, the obligation ids that are discharged there: a check
on a changed tree reports a missing baseline obligation as undecided and may report a refuted one without concrete
input as `no-failing-input-found` only if it is in this list."""
import glob, json, os
here = os.path.dirname(os.path.abspath(__file__))
out = {}
for p in sorted(glob.glob(os.path.join(here, "evidence", "C*.json"))):
    ev = json.load(open(p))
    proved = [s["obligation"] for s in ev["coverage"]["samples"] if s["status"] == "discharged"]
    out[ev["property_id"]] = {"proved": proved, "count": len(proved)}
os.makedirs(os.path.join(here, "baseline"), exist_ok=True)
json.dump(out, open(os.path.join(here, "baseline", "obligations.json"), "w"), indent=1)
print({k: v["count"] for k, v in out.items()})
