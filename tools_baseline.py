#!/usr/bin/env python3
"""Regenerates baseline/obligations.json from the evidence files of a run on the UNCHANGED tree (developer tool;
never invoked by a check).  The baseline lists, per property, the obligation ids that are discharged there: a check
on a changed tree reports a missing baseline obligation as undecided and may report a refuted one without concrete
input as `no-failing-input-found` only if it is in this list."""
import glob, json, os
here = os.path.dirname(os.path.abspath(__file__))
bp = os.path.join(here, "baseline", "obligations.json")
out = json.load(open(bp)) if os.path.exists(bp) else {}
for p in sorted(glob.glob(os.path.join(here, "evidence", "C*.json"))):
    ev = json.load(open(p))
    proved = [s["obligation"] for s in ev["coverage"]["samples"] if s["status"] == "discharged"]
    # one list per tier; only the list of the tier the evidence file was written in is replaced
    e = out.setdefault(ev["property_id"], {})
    if ev.get("tier") == "thorough":
        e["proved_thorough"] = proved
    else:
        e["proved"] = proved
        e["count"] = len(proved)
os.makedirs(os.path.join(here, "baseline"), exist_ok=True)
json.dump(out, open(bp, "w"), indent=1)
print({k: (v.get("count"), len(v.get("proved_thorough", []))) for k, v in out.items()})
