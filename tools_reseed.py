#!/usr/bin/env python3
"""Regression over the kept seeded changes: for every /verif/seeded/<id>/patch.diff export /repo HEAD to a scratch dir, apply the patch,
run the property's quick check against the scratch tree and report whether it is detected (exit 1 + VIOLATION line).
Nothing is written to /repo; scratch trees live under /tmp/reseed and are removed.   usage: python3 tools_reseed.py [--jobs N] [id ...]"""
import concurrent.futures
import json
import os
import shutil
import subprocess
import sys
import time

args = sys.argv[1:]
jobs = 4
if args and args[0] == "--jobs":
    jobs = int(args[1])
    args = args[2:]
ids = args or sorted(os.listdir("/verif/seeded"))
os.makedirs("/tmp/reseed", exist_ok=True)


def one(sid):
    d = "/verif/seeded/" + sid
    meta = json.load(open(d + "/meta.json"))
    if meta.get("superseded") or str(meta.get("status", "")).startswith("superseded"):
        return sid, "superseded", 0, ""
    prop = sid.split("-")[0]
    scratch = "/tmp/reseed/" + sid
    shutil.rmtree(scratch, ignore_errors=True)
    os.makedirs(scratch)
    subprocess.run("git -C /repo archive --format=tar HEAD | tar -x -C %s" % scratch, shell=True, check=True)
    p = subprocess.run(["patch", "-p1", "-s", "-d", scratch, "-i", d + "/patch.diff"], stdout=subprocess.PIPE, stderr=subprocess.STDOUT, text=True)
    if p.returncode != 0:
        shutil.rmtree(scratch, ignore_errors=True)
        return sid, "PATCH-FAILS", 0, p.stdout[-300:]
    t = time.time()
    p = subprocess.run(["/verif/bin/vcheck", prop, "--repo", scratch], stdout=subprocess.PIPE, stderr=subprocess.STDOUT, text=True)
    dt = time.time() - t
    shutil.rmtree(scratch, ignore_errors=True)
    viol = [l for l in p.stdout.splitlines() if l.startswith("VIOLATION")]
    st = "detected" if p.returncode == 1 and viol else "MISSED(rc=%d)" % p.returncode
    return sid, st, dt, "; ".join(v.split("replay=")[-1].split("/")[-1][:90] for v in viol[:3])


bad = 0
with concurrent.futures.ThreadPoolExecutor(jobs) as ex:
    for sid, st, dt, info in ex.map(one, ids):
        print("%-8s %-14s %4.0fs  %s" % (sid, st, dt, info), flush=True)
        bad += st not in ("detected", "superseded")
sys.exit(1 if bad else 0)
