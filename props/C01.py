"""C01 -- Composeinfo survives a write/read cycle unchanged."""
from pyvc import verify
from bounded import roundtrip
from .common import ctx, std

SECTIONS = ["composeinfo.Compose", "composeinfo.BaseProduct", "composeinfo.Release"]


def check(run):
    c = ctx(run)
    std(run)
    for n in SECTIONS:
        # layout.* : the writer emits exactly the documented key set
        verify.verify(run, c.E, c.contracts["ser:" + n], only=("documented_layout", "other_keys_unchanged", "object_unchanged"))
        # rt.flat.* : reader(writer(x)) == norm(x)
        verify.verify(run, c.E, c.contracts["rt:" + n])
        # reader maps the document by the documented function (incl. type default and case-fold)
        verify.verify(run, c.E, c.contracts["de:" + n], only=("fields_are_documented_function_of_document",
                                                             "returns_only_with_required_keys", "rejects_only_invalid_documents"))
    # rt.variant / rt.variants: the forest writer/reader recursion on a fixed small forest with symbolic values
    for k in ["rt:composeinfo.Variants:0"] + (["rt:composeinfo.Variants:1"] if run.tier == "thorough" else []):
        verify.verify(run, c.E, c.contracts[k], crosscheck=False)
    verify.verify(run, c.E, c.contracts["canon:composeinfo.Variant"], crosscheck=False)
    # the top-level writer with ANY number of variants: each is written through its own writer into the fresh section (witness rule)
    verify.verify(run, c.E, c.contracts["ser:composeinfo.Variants:any"], crosscheck=False)
    for k in ("ser:common.Header", "de:common.Header", "meth:composeinfo.ComposeInfo.serialize",
              "meth:composeinfo.ComposeInfo.deserialize", "fn:common.MetadataBase.build_file.json_args",
              "ser:composeinfo.VariantPaths", "rt:composeinfo.VariantPaths"):
        if k in c.contracts:
            verify.verify(run, c.E, c.contracts[k])
    n = 150 if run.tier == "quick" else 4000
    roundtrip.roundtrip(run, c.mods, "composeinfo", n,
                        "random forests of 0-7 variants, depth <= 3, all variant types incl. layered-product, dashed top-level UIDs, "
                        "child arches subset of parent's, 0-4 of the 14 path categories, all compose/release types, labels; %d seeds" % n)
    run.assume("A1: json.dump(indent=4, sort_keys=True) is a function of the JSON value and json.load inverts it on str-keyed JSON values")
    run.note("proved: flat sections (layout, reader mapping, round trip) for all values; the forest writer/reader recursion on the forest "
             "T -> C plus a second top-level variant U with symbolic ids/names/types/arch/paths incl. the path normalisations (bounded in SHAPE); "
             "larger forests, depth 3, dashed top-level UIDs: bounded stand-in")
