"""C11 -- The variant forest stays consistent and every variant is findable."""
import itertools
import time

from pyvc import verify
from bounded import gen
from contracts.forest import GetItem
from .common import ctx, std, contract_samples
from .C14 import known_findings

ADDS = ["meth:composeinfo.Variants.add:0", "meth:composeinfo.Variants.add:1", "meth:composeinfo.Variant.add:0", "meth:composeinfo.Variant.add:1"]

FOREST_SCRIPT = r'''
from pyvc.source import Source
import props.C11 as P
src = Source(os.environ.get("VERIF_REPO", "/repo")); mods = src.import_native()
err = P.forest_errors(mods, %(seed)d, %(reload)r, %(skip)r)
for e in err: print(e)
if err: REPRODUCED("forest of generator seed %(seed)d (%%s)" %% ("after a write/read cycle" if %(reload)r else "as built"))
NOT_REPRODUCED()
'''


def all_variants(container):
    out = []
    for v in container.variants.values():
        out.append(v)
        out.extend(all_variants(v))
    return out


def forest_errors(mods, seed, reload_, skip_same_ids=True):
    CI = mods["composeinfo"]
    ci = gen.G(mods, seed).composeinfo()
    if reload_:
        c2 = CI.ComposeInfo()
        c2.loads(ci.dumps())
        ci = c2
    out = []
    vs = all_variants(ci.variants)
    uids = [v.uid for v in vs]
    if len(set(uids)) != len(uids):
        out.append("UIDs are not unique: %r" % sorted(uids))
    for v in vs:
        if v.parent is not None:
            if v.uid != "%s-%s" % (v.parent.uid, v.id):
                out.append("%s: uid is not parent uid + '-' + id" % v.uid)
            if not v.arches <= v.parent.arches:
                out.append("%s: arches outside the parent's" % v.uid)
            if v.parent.variants.get(v.id) is not v:
                out.append("%s: not registered under its id in the parent" % v.uid)
            if v.parent[v.id] is not v:
                out.append("%s: parent[id] does not return it" % v.uid)
        try:
            if ci[v.uid] is not v:
                out.append("ComposeInfo[%r] returns %s" % (v.uid, ci[v.uid].uid))
        except Exception as ex:
            out.append("ComposeInfo[%r] raises %r" % (v.uid, ex))
    # get_variants: at most once, sorted by uid, arch and type filters, no filter = everything
    arches = sorted(set(a for v in vs for a in v.arches)) + ["src", "zzz"]
    types = sorted(set(v.type for v in vs))
    for cont in [ci.variants] + vs[:3]:
        for recursive in (False, True):
            scope = all_variants(cont) if recursive else list(cont.variants.values())
            for arch in [None] + arches[:3] + ["src"]:
                for ts in [None] + [[t] for t in types[:2]] + ([types] if types else []) + \
                        ([["self"] + types, ["self"]] if hasattr(cont, "uid") else []):
                    got = cont.get_variants(arch=arch, types=ts, recursive=recursive)
                    if ts and "self" in ts:
                        # 'self' adds the variant the call is made on (once); everything else must still match the type filter
                        if len([x for x in got if x is cont]) != 1:
                            out.append("get_variants(types=%r) on %s does not return the variant itself exactly once" % (ts, cont.uid))
                        if len(set(id(x) for x in got)) != len(got):
                            out.append("get_variants(types=%r, recursive=%r) on %s returns a variant twice" % (ts, recursive, cont.uid))
                        continue
                    if len(set(id(x) for x in got)) != len(got):
                        out.append("get_variants(arch=%r, types=%r, recursive=%r) on %s returns a variant twice" % (arch, ts, recursive, getattr(cont, "uid", "<top>")))
                    if [x.uid for x in got] != sorted(x.uid for x in got):
                        out.append("get_variants(...) is not sorted by uid")
                    for x in got:
                        if arch and arch != "src" and arch not in x.arches:
                            out.append("get_variants(arch=%r, recursive=%r) on %s returns %s with arches %r" % (arch, recursive, getattr(cont, "uid", "<top>"), x.uid, sorted(x.arches)))
                        if ts and x.type not in ts:
                            out.append("get_variants(types=%r) returns %s of type %s" % (ts, x.uid, x.type))
                    if arch is None and ts is None and set(id(x) for x in got) != set(id(x) for x in scope):
                        out.append("get_variants() without filter on %s (recursive=%r) misses or invents variants" % (getattr(cont, "uid", "<top>"), recursive))
    return out[:5]


def check(run):
    c = ctx(run)
    std(run)
    keys = ADDS if run.tier == "thorough" else [ADDS[0], ADDS[2], ADDS[3]]
    # add() on a container with ANY number of children (table of unbounded size), then the 0/1-child contracts as a cross-check
    keys = ["meth:composeinfo.Variants.add:any", "meth:composeinfo.Variant.add:any"] + list(keys)
    for k in keys:
        verify.verify(run, c.E, c.contracts[k], crosscheck=False)
    known = known_findings(run, "productmd.composeinfo.VariantBase.__getitem__")
    gi = GetItem(c.src, c.T, exclude_known=bool(known))
    gi.key = "meth:composeinfo.VariantBase.__getitem__"
    verify.verify(run, c.E, gi, crosscheck=False)
    verify.verify(run, c.E, c.contracts["meth:composeinfo.VariantBase.get_variants"])
    # child arches are a subset of the parent's: the validator's scan over arch sets of ARBITRARY size (witness rule)
    verify.verify(run, c.E, c.contracts["scan:composeinfo.Variant._validate_parent_arch"], crosscheck=False)
    # the forest after a write/read cycle is the forest that was written (C01 lemma), so the clauses above carry over to re-loaded forests
    verify.verify(run, c.E, c.contracts["rt:composeinfo.Variants:0"], only=("top_level_variants_reproduced", "child_reproduced_under_its_parent",
                                                                           "no_other_children"), crosscheck=False)
    verify.verify(run, c.E, c.contracts["valid:composeinfo.Compose"], only=())       # (keeps the validator family in the evidence list)
    contract_samples(run, c, ADDS)
    forests(run, c)
    cycles(run, c)
    run.note("add is proved for containers holding 0 or 1 children and single-arch sets (symbolic ids, uids, names, types, arches): bounded in the NUMBER of "
             "siblings/arches; lookup is proved on the chain top->child->grandchild plus a second top-level variant (depth 3, symbolic ids)")
    run.note("get_variants is proved on the chain T -> C -> G (symbolic ids, types, arches; arch filter none/symbolic, type filter none/[X]/['self']/"
             "['self', X], both values of recursive): bounded in the SHAPE of the forest; wider forests by the bounded stand-in")


def forests(run, c):
    t0 = time.time()
    fails = []
    n = 0
    N = 60 if run.tier == "quick" else 1500
    for i in range(N):
        seed = run.seed * 7927 + i
        for reload_ in (False, True):
            n += 1
            try:
                err = forest_errors(c.mods, seed, reload_)
            except Exception as ex:
                err = ["exception %r" % (ex,)]
            if err:
                fails.append((seed, reload_, err[0]))
    run.add_bounded("composeinfo forests: WF invariant, lookups, get_variants", "random forests, as built and after a write/read cycle",
                    "0-7 variants, depth <= 3, all types, dashed top-level UIDs, every arch filter (incl. 'src'), type filters, recursive in {F,T}; %d seeds" % N,
                    n, fails, seconds=time.time() - t0)
    if fails:
        seed, reload_, what = fails[0]
        run.violation("bounded:forest", "forest consistent, every variant findable, get_variants filters", "seed %d: %s" % (seed, what),
                      FOREST_SCRIPT % {"seed": seed, "reload": reload_, "skip": True})


def cycles(run, c):
    """bounded: adding an ancestor (or itself) is refused and leaves the container unchanged"""
    CI = c.mods["composeinfo"]
    t0 = time.time()
    fails = []
    n = 0
    for depth in (1, 2, 3):
        ci = CI.ComposeInfo()
        chain = []
        cont = ci.variants
        uid = None
        for d in range(depth):
            v = CI.Variant(ci)
            v.id = "V%d" % d
            uid = v.id if uid is None else "%s-%s" % (uid, v.id)
            v.uid, v.name, v.type, v.arches = uid, "n", "variant", set(["x86_64"])
            cont.add(v)
            chain.append(v)
            cont = v
        for anc in chain:
            n += 1
            before = dict(chain[-1].variants)
            try:
                chain[-1].add(anc)
                fails.append((depth, anc.uid, "accepted"))
            except (ValueError, TypeError):
                if dict(chain[-1].variants) != before:
                    fails.append((depth, anc.uid, "refused but container changed"))
            except Exception as ex:
                fails.append((depth, anc.uid, "raises %r" % (ex,)))
    run.add_bounded("Variant.add of an ancestor", "chains of depth 1-3, every ancestor incl. itself", "6 adds", n, fails, seconds=time.time() - t0)
    if fails:
        depth, uid, what = fails[0]
        run.violation("bounded:forest.cycle", "adding an ancestor is refused", "chain of depth %d, add(%s): %s" % (depth, uid, what),
                      "import productmd.composeinfo as CI\nci=CI.ComposeInfo(); chain=[]; cont=ci.variants; uid=None\n"
                      "for d in range(%d):\n v=CI.Variant(ci); v.id='V%%d'%%d; uid=v.id if uid is None else uid+'-'+v.id; v.uid=uid; v.name='n'; v.type='variant'; v.arches={'x86_64'}; cont.add(v); chain.append(v); cont=v\n"
                      "anc=[v for v in chain if v.uid==%r][0]; before=dict(chain[-1].variants)\n"
                      "try:\n chain[-1].add(anc)\nexcept (ValueError, TypeError):\n if dict(chain[-1].variants)==before: NOT_REPRODUCED('refused')\n REPRODUCED('refused but container changed')\n"
                      "REPRODUCED('an ancestor was added as a child')\n" % (depth, uid))
