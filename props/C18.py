"""C18 -- A dump that fails validation leaves the destination file untouched."""
import time

from pyvc import verify
from contracts import io as IO
from .common import ctx, std


def check(run):
    c = ctx(run)
    std(run)
    IO.ast_clauses(run, c.src)
    for k in ("io:common.MetadataBase.dump", "io:treeinfo.TreeInfo.dump", "io:treeinfo.TreeInfo.dump:mv"):
        verify.verify(run, c.E, c.contracts[k])
    # the callee contracts the effect-order proof relies on: serialize/validate raise only TypeError/ValueError (C06) -- witness that
    # a nested writer CAN fail after the top-level validation passed (the raises clause is satisfiable, not vacuous)
    verify.verify(run, c.E, c.contracts["ser:composeinfo.Release"], only=("raises_only_TypeError_ValueError", "raises_only_if_invalid"))
    with run.obligation("open_file_obj#opens_path_for_writing_at_entry", "pyvc", ["productmd.common.open_file_obj"]) as ob:
        # symbolic run of the real context manager: a str path with mode 'w' is opened (truncated) exactly once, before the body
        E = c.E
        from pyvc.engine import FuncRef
        import z3
        from pyvc import sym

        def thunk():
            path = sym.SV(sym.Val.VStr(z3.Const("p", sym.S)))
            E.assume(sym.Not(sym.Or(sym.startswith(path, "http://"), sym.startswith(path, "https://"), sym.startswith(path, "ftp://"))))
            cm = E.call(FuncRef("common", c.src.funcs[("common", "open_file_obj")]), [path, "w"])
            seen = []
            import ast
            body = ast.parse("marker = 1").body
            env = {"__mod__": "common", "__owner__": None}
            mark = len(E.path.effects)
            E.models.with_stmt(cm, ast.Name(id="fo", ctx=ast.Store()), body, env)
            eff = E.path.effects[mark:]
            return ("done", [e[0] for e in eff] + [e[2] for e in eff if e[0] == "open"])
        res = E.explore(thunk)
        ok = all(r.value == ["open", "close", "w"] for r in res)
        if ok:
            ob.discharged(paths=len(res))
        else:
            ob.undecided("unexpected effect sequence %r" % ([r.value for r in res],))
    # bounded: every format x every nested validation failure (real invalid values), destination compared byte for byte
    import random
    for k in ("io:common.MetadataBase.dump", "io:treeinfo.TreeInfo.dump", "io:treeinfo.TreeInfo.dump:mv"):
        con = c.contracts[k]
        t0 = time.time()
        n = 0
        checked = 0
        fails = []
        lim = 700 if run.tier == "quick" else None
        samples = list(con.sample_inputs(random.Random(run.seed)))
        if lim and len(samples) > lim:
            samples = random.Random(run.seed).sample(samples, lim)
        for inputs in samples:
            n += 1
            nat, cl = con.native_eval(inputs)
            if cl:
                checked += 1
            if cl.get("destination_not_opened_before_validation_failure") is False:
                fails.append(inputs)
        run.add_bounded(con.name, "every nested validation failure, file compared before/after",
                        "formats %s x 3 valid objects x every field position x out-of-domain values (%d dumps raised TypeError/ValueError)"
                        % (con.KINDS[con.cls], checked), n, fails, nontrivial=checked, seconds=time.time() - t0)
        if fails:
            run.violation("bounded:%s" % con.name, "destination untouched", con.describe(fails[0]),
                          con.replay_script(fails[0], "destination_not_opened_before_validation_failure"))
    run.assume("A4: open(path, 'w') truncates at open; a file that is never opened for writing keeps its bytes")
    run.assume("A1/A2: json.dump / ConfigParser.write raise no TypeError/ValueError on the output of serialize (representable values)")
    run.note("the proof is over the effect log: on every path of dump() that ends in a validation error no open-for-write precedes the error; "
             "validate/serialize are used through their contracts (raise only TypeError/ValueError, touch no file)")
