"""C03 -- RPM, module and extra-file manifests survive a write/read cycle unchanged."""
from pyvc import verify
from bounded import roundtrip
from .common import ctx, std, json_args_obligation, history_samples

KINDS = [("rpms", "Rpms"), ("modules", "Modules"), ("extra_files", "ExtraFiles")]


def check(run):
    c = ctx(run)
    std(run)
    for mod, cls in KINDS:
        verify.verify(run, c.E, c.contracts["rt:%s.%s" % (mod, cls)])
        # the same cycle on a payload of fixed shape (2 variants, 2 arches, 2 records, a null leaf) with symbolic keys and leaves:
        # structural equality, so a reader/writer that REBUILDS the payload is still decided (the verbatim clause above is then undecided)
        verify.verify(run, c.E, c.contracts["rt:%s.%s:shape" % (mod, cls)])
    verify.verify(run, c.E, c.contracts["ser:composeinfo.Compose"], only=("documented_layout", "other_keys_unchanged", "object_unchanged"))
    verify.verify(run, c.E, c.contracts["rt:composeinfo.Compose"])
    # payload.json_stable: what `add` files is JSON-representable (str keys, str/None/caller leaves): postconditions of the adds
    for k in ("meth:rpms.Rpms.add", "meth:modules.Modules.add", "meth:extra_files.ExtraFiles.add"):
        verify.verify(run, c.E, c.contracts[k], only=("entry_filed_under_canonical_keys", "metadata_filed_under_canonical_uid",
                                                      "modulemd_path_of_category_recorded", "rpm_list_extended",
                                                      "entry_appended_at_end_of_addressed_list", "every_other_entry_unchanged"))
    json_args_obligation(run, c, "bytes.json_args")
    # the file layer: load(path) parses the file given to THIS call and hands that document to the reader
    verify.verify(run, c.E, c.contracts["io:common.MetadataBase.load"], crosscheck=False)
    n = 150 if run.tier == "quick" else 3000
    for mod, cls in KINDS:
        roundtrip.roundtrip(run, c.mods, mod, n, "manifests built by 0-8 random valid add calls (several variants/arches, epochs != 0, dashed names, "
                            "null and mixed-case sigkeys, 2/3/4-part module UIDs in several categories, several checksum types); %d seeds" % n)
    history_samples(run, c, ["io:common.MetadataBase.load"])
    run.assume("A1: json.dump(indent=4, sort_keys=True) is a function of the JSON value and json.load inverts it on str-keyed JSON values")
    run.note("history quantifier: the payload is stored and read back VERBATIM (same object), so the round trip of any manifest reduces to A1 "
             "on the entries filed by add, whose shape is the add postcondition")
