"""C19 -- Validation and parsing time grows polynomially with input length."""
import ast
import json
import os
import re
import subprocess
import sys
import time

from pyvc import rx, rxob
from .common import ctx, std

# documented cost class per site that matches a pattern: ambiguity degree d means O(n^(d+1)) matching steps.  Every validator / parser is
# linear or quadratic except the NVRA parser, whose pattern the property itself lists as the most ambiguous one.
DEFAULT_SITE_DEGREE = 1
SITE_DEGREE_CEILING = {"productmd.common.RPM_NVRA_RE": 4}
DEGREE_CEILING = 4      # ambiguity degree of RPM_NVRA_RE, the most ambiguous pattern the property lists (cost O(n^5))

EDA_REPLAY = r'''
import re, time, signal
pattern = %(pattern)r
prefix, pump, where = %(prefix)r, %(pump)r, %(where)r
rx_obj = None
try:
    import importlib
    mod, _, name = where.rpartition(".")
    obj = getattr(importlib.import_module(mod), name, None)
    if isinstance(obj, re.Pattern) and obj.pattern == pattern: rx_obj = obj
except Exception:
    pass
rx_obj = rx_obj or re.compile(pattern)
suffix = None
import itertools
cands = ["!", "\x00!", "\n\n", " !"] + ["".join(t) for n in (1, 2) for t in itertools.product(%(reps)r, repeat=n)]
for s in cands:
    if rx_obj.match(prefix + pump * 3 + s) is None:
        suffix = s; break
if suffix is None: NOT_REPRODUCED("no failing suffix found")
class TO(Exception): pass
def h(*a): raise TO()
signal.signal(signal.SIGALRM, h)
times = []
for n in %(ns)r:
    w = prefix + pump * n + suffix
    signal.alarm(20); t = time.perf_counter()
    try:
        rx_obj.match(w); dt = time.perf_counter() - t
    except TO:
        dt = 20.0
    signal.alarm(0)
    times.append((len(w), round(dt, 4)))
    print("len %%d: %%.4fs" %% (len(w), dt))
    if dt >= 20.0: break
ratios = [b[1] / max(a[1], 1e-6) for a, b in zip(times, times[1:])]
print("growth ratios per +%(step)d pumps:", [round(r, 1) for r in ratios])
if times[-1][1] >= 20.0 or (len(ratios) >= 2 and min(ratios[-2:]) > 1.8 and times[-1][1] > 0.2):
    REPRODUCED("matching time grows exponentially with input length (pattern %%r)" %% pattern)
NOT_REPRODUCED()
'''

LINEAR_BUILTINS = {
    "len", "isinstance", "getattr", "hasattr", "int", "str", "bool", "float", "list", "dict", "tuple", "set", "sorted", "type",
    "callable", "dir", "ValueError", "TypeError", "KeyError", "RuntimeError", "super", "cmp", "setattr", "zip", "any", "all",
    "startswith", "endswith", "split", "rsplit", "strip", "rstrip", "lstrip", "lower", "upper", "replace", "join", "count",
    "find", "format", "get", "items", "keys", "values", "append", "extend", "sort", "add", "union", "update", "setdefault",
    "groupdict", "match", "compile", "warn", "index", "itervalues", "iteritems", "pop", "lookup", "has_option", "has_section",
    "sections", "option_lookup", "getint", "getfloat", "getboolean", "add_section", "set", "copy", "normpath", "isdigit",
}

COST_FUNCS = [("common", None, n) for n in ("parse_nvra", "is_valid_release_short", "is_valid_release_version",
                                            "is_valid_release_type", "split_version", "get_major_version", "get_minor_version",
                                            "create_release_id", "parse_release_id", "_parse_release_id_part")] + \
    [("rpms", "Rpms", "_check_nevra"), ("modules", "Modules", "parse_uid"), ("modules", "Modules", "_check_uid"),
     ("composeinfo", None, "verify_label"), ("composeinfo", None, "get_date_type_respin"), ("extra_files", None, "_relative_to"),
     ("common", "MetadataBase", "_assert_type"), ("common", "MetadataBase", "_assert_value"),
     ("common", "MetadataBase", "_assert_not_blank"), ("common", "MetadataBase", "_assert_matches_re"),
     ("common", "MetadataBase", "validate")]


def dynamic_inventory(repo, thorough):
    """patterns requested from `re` by frames inside productmd while importing it and driving its public parsers"""
    code = r'''
import sys, re, json, os
sys.path.insert(0, %r)
seen = {}
orig = re._compile
def spy(pattern, flags):
    f = sys._getframe(1)
    for _ in range(6):
        if f is None: break
        fn = f.f_code.co_filename
        if os.sep + "productmd" + os.sep in fn and fn.startswith(%r):
            if isinstance(pattern, str): seen.setdefault(pattern, fn.rsplit(os.sep, 1)[-1] + ":" + str(f.f_lineno))
            break
        f = f.f_back
    return orig(pattern, flags)
re._compile = spy
import productmd.common as C, productmd.composeinfo as CI, productmd.images as I, productmd.rpms as R
import productmd.modules as M, productmd.treeinfo as T, productmd.discinfo as D, productmd.extra_files as X
re.purge()
def tryc(f, *a):
    try: f(*a)
    except Exception: pass
tryc(C.parse_nvra, "a-1:2-3.x86_64.rpm"); tryc(C.is_valid_release_short, "f"); tryc(C.is_valid_release_version, "1")
tryc(C.is_valid_release_type, "ga"); tryc(C.split_version, "1.0"); tryc(C.create_release_id, "f", "1", "ga")
tryc(C.parse_release_id, "f-1"); tryc(CI.get_date_type_respin, "F-1-20200101.n.0"); tryc(CI.verify_label, "RC-1.0")
tryc(M.Modules.parse_uid, "a:b:c:d"); tryc(R.Rpms()._check_nevra, "a-1:2-3.x86_64")
ci = CI.ComposeInfo(); tryc(ci.compose.validate); ci.compose.id = "F-1-20200101.0"; ci.compose.date = "20200101"; ci.compose.label = "RC-1.0"
tryc(ci.compose.validate); ci.release.version = "1"; tryc(ci.release.validate); tryc(ci.header.validate)
v = CI.Variant(ci); v.id = "A"; v.uid = "A"; tryc(v.validate)
im = I.Image(None); im.implant_md5 = "0" * 32; tryc(im._validate_implant_md5)
ti = T.TreeInfo(); ti.release.version = "1.0"; tryc(ti.release.validate); ti.base_product.version = "1"; tryc(ti.base_product.validate)
tryc(ti.header.validate)
rel = T.Release(ti); 
import glob
for f in sorted(glob.glob(os.path.join(%r, "tests", "treeinfo", "*")))[:%d]:
    t = T.TreeInfo(); tryc(t.load, f)
print(json.dumps(seen))
''' % (repo, repo, repo, 80 if thorough else 12)
    p = subprocess.run([sys.executable, "-c", code], capture_output=True, text=True, timeout=120)
    if p.returncode != 0:
        return None, p.stderr[-500:]
    return json.loads(p.stdout.strip().splitlines()[-1]), None



def _interpolates_unescaped_data(call_text):
    """the first argument of an re.* call is a string built (%, +, format, f-string, join) from a non-constant operand that is not the
    result of re.escape(...)"""
    import ast
    try:
        call = ast.parse(call_text, mode="eval").body
    except SyntaxError:
        return False
    if not isinstance(call, ast.Call) or not call.args:
        return False
    pat = call.args[0]

    def data_operands(e):
        if isinstance(e, ast.Constant):
            return []
        if isinstance(e, ast.Call) and ast.unparse(e.func) == "re.escape":
            return []
        if isinstance(e, ast.BinOp) and isinstance(e.op, (ast.Mod, ast.Add)):
            return data_operands(e.left) + data_operands(e.right)
        if isinstance(e, (ast.Tuple, ast.List)):
            return [x for el in e.elts for x in data_operands(el)]
        if isinstance(e, ast.JoinedStr):
            return [x for v in e.values if isinstance(v, ast.FormattedValue) for x in data_operands(v.value)]
        if isinstance(e, ast.Call) and isinstance(e.func, ast.Attribute) and e.func.attr in ("format", "join"):
            return data_operands(e.func.value) + [x for a in e.args for x in data_operands(a)] + [x for k in e.keywords for x in data_operands(k.value)]
        if isinstance(e, (ast.Name, ast.Attribute, ast.Subscript, ast.Call)):
            return [e]
        return [e]
    built = isinstance(pat, (ast.BinOp, ast.JoinedStr)) or (isinstance(pat, ast.Call) and isinstance(pat.func, ast.Attribute) and
                                                            pat.func.attr in ("format", "join"))
    return built and bool(data_operands(pat))


def check(run):
    c = ctx(run)
    std(run)
    inv, unresolved = c.src.regex_inventory()
    dyn, err = dynamic_inventory(run.repo, run.tier == "thorough")
    with run.obligation("re.inventory#complete", "conc", ["productmd.* (every re.compile/match/split and _assert_matches_re site)"]) as ob:
        data_built = [(w, t) for w, t in unresolved if _interpolates_unescaped_data(t)]
        if data_built:
            # a pattern assembled from a run-time value that is not passed through re.escape(): whoever controls that value (a field
            # of the document being loaded, an argument) chooses the expression the matcher runs -- its cost has no bound at all
            w, t = data_built[0]
            ob.refuted("%s builds a regular expression from run-time data without re.escape(): %s -- the cost of matching is then whatever "
                       "expression the data spells (e.g. '(x+x+)+y'), no polynomial bounds it" % (w, t), clause="inventory", replay_script=None)
        elif unresolved:
            ob.undecided("pattern expressions not statically resolvable: %r" % (unresolved[:3],))
        elif dyn is None:
            ob.undecided("dynamic inventory failed: %s" % err)
        else:
            extra = [p for p in dyn if p not in inv]
            for p in extra:
                inv[p] = [("dynamic:" + dyn[p], "observed at run time")]
            ob.discharged(note="%d static patterns, %d observed at run time, %d only dynamic" % (len(inv) - len(extra), len(dyn), len(extra)))
    run.say("    %d patterns" % len(inv))
    for pat in sorted(inv):
        where = inv[pat][0][0]
        short = _short(pat)
        fns = sorted(set(w for w, _ in inv[pat]))
        with run.obligation("re.noEDA[%s]" % short, "rx", fns) as ob:
            ob.detail["note"] = where
            w = rx.eda(pat)
            if w is None:
                ob.discharged()
            else:
                ns = [10, 12, 14, 16, 18, 20, 22, 24]
                ob.refuted("exponentially ambiguous: prefix %r + pump %r * n + non-matching suffix (pattern %r at %s)"
                           % (w["prefix"], w["pump"], pat, where), clause="noEDA",
                           replay_script=EDA_REPLAY % {"pattern": pat, "prefix": w["prefix"], "pump": w["pump"], "where": where,
                                                       "ns": ns, "step": 2, "reps": _reps(pat)})
                continue
        with run.obligation("re.degree[%s]" % short, "rx", fns) as ob:
            d, pairs = rx.degree(pat)
            ob.detail["note"] = "ambiguity degree %d (%d IDA pairs), cost O(n^%d) under A7" % (d, pairs, d + 1)
            if d <= DEGREE_CEILING:
                ob.discharged()
            else:
                ob.refuted("polynomial ambiguity degree %d exceeds the ceiling %d (pattern %r at %s)" % (d, DEGREE_CEILING, pat, where),
                           clause="degree", replay_script=None)
    # per-site cost class: the obligations above are keyed by pattern TEXT (a changed pattern is a new obligation, the old one goes
    # missing); these are keyed by the SITE that uses a pattern, with the documented ceiling of that site, so that replacing a
    # validator's pattern by a costlier one is decided (refuted), not merely undecided
    sites = {}
    for pat in inv:
        for w, how in inv[pat]:
            if w.endswith(".<module>"):
                continue            # module-level re.compile calls: the constants they define are sites of their own
            sites.setdefault(w, []).append(pat)
    for site in sorted(sites):
        ceil = SITE_DEGREE_CEILING.get(site, DEFAULT_SITE_DEGREE)
        with run.obligation("re.site_degree[%s]" % site, "rx", [site]) as ob:
            worst = max((rx.degree(p)[0], p) for p in sites[site])
            ob.detail["note"] = "costliest pattern at this site has ambiguity degree %d (ceiling %d)" % (worst[0], ceil)
            if worst[0] <= ceil:
                ob.discharged()
            else:
                w = "a" * 300 + "!"
                ob.refuted("pattern %r used at %s has ambiguity degree %d (cost O(n^%d) under A7); the documented ceiling of this site is %d"
                           % (worst[1], site, worst[0], worst[0] + 1, ceil), clause="site_degree", replay_script=None)
    linear_code(run, c)
    rxob.differential_check(run, [(_short(p), p) for p in sorted(inv)], 4 if run.tier == "quick" else 6)
    timing(run, c, inv)
    run.assume("A7: a backtracking matcher on a pNFA without exponential ambiguity and with ambiguity degree d takes O(n^(d+1)) steps; "
               "the whitelisted str/dict/list builtins are O(n)")
    run.note("wall-clock time itself is not proved; the obligations bound the ambiguity of every pattern and the loop structure of the parsers")


def _reps(pat):
    A = rx.build(pat, fullmatch=True)
    return [chr(min(m)) if min(m) < 128 else "\u0100" for m in rx.minterms(rx.charsets(A))][:16]


def _short(pat):
    s = pat if len(pat) <= 48 else pat[:30] + "..." + pat[-12:]
    return s.replace(" ", "_")


def linear_code(run, c):
    """syntactic cost contract: loops only over program constants or ONCE over the input (no nesting of input loops),
    calls only to whitelisted O(n) builtins, to regex matching (bounded by the re.* obligations) or to repository
    functions that are themselves under this contract."""
    under = set()
    items = list(COST_FUNCS)
    for key, ci in c.src.classes.items():
        for n in ci.methods:
            if n.startswith("_validate"):
                items.append((key[0], key[1], n))
    names = set(n for _, _, n in items)
    for mod, cls, fn in items:
        node = c.src.classes[(mod, cls)].methods.get(fn) if cls else c.src.funcs.get((mod, fn))
        qn = "productmd.%s.%s%s" % (mod, (cls + ".") if cls else "", fn)
        with run.obligation("code.linear[%s]" % qn, "ast", [qn]) as ob:
            if node is None:
                ob.undecided("function not found")
                continue
            bad = []
            depth = [0]

            def visit(n, d):
                if isinstance(n, (ast.For, ast.While, ast.ListComp, ast.SetComp, ast.DictComp, ast.GeneratorExp)):
                    it = n.iter if isinstance(n, ast.For) else None
                    const_iter = False
                    if isinstance(n, ast.For):
                        src_ = ast.unparse(n.iter)
                        const_iter = bool(re.match(r"^(expected_\w+|RELEASE_TYPES|LABEL_RE_LIST|method_names|self\._fields|sections|lookup|"
                                                   r"\[[^\]]*\]|\([^)]*\))$", src_))
                    nd = d if const_iter else d + 1
                    if nd > 2:
                        bad.append("loop nesting over non-constant iterables deeper than 2 at line %d" % n.lineno)
                    for ch in ast.iter_child_nodes(n):
                        visit(ch, nd)
                    return
                if isinstance(n, ast.Call):
                    f = n.func
                    nm = f.attr if isinstance(f, ast.Attribute) else (f.id if isinstance(f, ast.Name) else None)
                    if nm is not None and nm not in LINEAR_BUILTINS and nm not in names and not nm.startswith("_assert") \
                            and nm not in ("verify_label", "validate", "method", "parse_uid", "_check_uid", "warn"):
                        bad.append("call to %s (no cost contract) at line %d" % (nm, n.lineno))
                for ch in ast.iter_child_nodes(n):
                    visit(ch, d)
            visit(node, 0)
            if bad:
                ob.undecided("syntactic cost contract not met: %s" % "; ".join(bad[:3]))
            else:
                ob.discharged()


def timing(run, c, inv):
    """bounded/informational: pumped inputs through every pattern under a time-out"""
    t0 = time.time()
    import signal

    class TO(Exception):
        pass

    def h(*a):
        raise TO()
    old = signal.signal(signal.SIGVTALRM, h)
    limit = 4.0 if run.tier == "quick" else 8.0
    fails = []
    n = 0
    try:
        for pat in sorted(inv):
            rxo = re.compile(pat)
            A = rx.build(pat, fullmatch=True)
            mts = rx.minterms(rx.charsets(A))
            reps = [chr(min(m)) if min(m) < 128 else "Ā" for m in mts][:12]
            # fixed lengths with a wide margin on the unchanged tree: the costliest pattern (RPM_NVRA_RE, cubic in practice) needs 0.05 s
            # of CPU at 300 and 0.4 s at 600 repetitions; the limits are 4 s / 8 s of CPU TIME (ITIMER_VIRTUAL: a loaded machine does not
            # trip them).  1500 repetitions, tried first in the thorough tier, legitimately take 5 s for that polynomial pattern.
            nrep = 300 if run.tier == "quick" else 600
            for ch in reps:
                for suf in ("!", "\n\n"):
                    w = ch * nrep + suf
                    n += 1
                    signal.setitimer(signal.ITIMER_VIRTUAL, limit)
                    t = time.perf_counter()
                    try:
                        rxo.match(w)
                    except TO:
                        fails.append((pat, ch, suf, nrep))
                    finally:
                        signal.setitimer(signal.ITIMER_VIRTUAL, 0)
    finally:
        signal.signal(signal.SIGVTALRM, old)
    run.add_bounded("every inventoried pattern", "pumped single-class inputs under a CPU-time limit of %d s" % limit,
                    "each minterm representative x %d repetitions x 2 failing suffixes" % (300 if run.tier == "quick" else 600),
                    n, fails, seconds=time.time() - t0)
    for pat, ch, suf, nrep in fails[:1]:
        w = ch * nrep + suf
        run.violation("bounded:timing[%s]" % _short(pat), "polynomial matching time", "pattern %r stalls on %r*%d+%r" % (pat, ch, nrep, suf),
                      "import re, signal\nclass TO(Exception): pass\ndef h(*a): raise TO()\nsignal.signal(signal.SIGVTALRM, h)\n"
                      "signal.setitimer(signal.ITIMER_VIRTUAL, %r)\ntry:\n re.compile(%r).match(%r)\nexcept TO: REPRODUCED('no answer within %d s of CPU time on %d characters')\n"
                      "signal.setitimer(signal.ITIMER_VIRTUAL, 0)\nNOT_REPRODUCED()\n" % (limit, pat, w, int(limit), len(w)))
