"""C12 -- Manifest builders file each entry exactly where the arguments say."""
import time

from pyvc import verify, rxob
from spec import languages as L
from .common import ctx, std, contract_samples

ADDS = ["meth:rpms.Rpms.add", "meth:modules.Modules.add", "meth:extra_files.ExtraFiles.add"]


def check(run):
    c = ctx(run)
    std(run)
    # canonical keys: the NEVRA / UID parsers
    verify.verify(run, c.E, c.contracts["meth:rpms.Rpms._check_nevra"])
    verify.verify(run, c.E, c.contracts["meth:modules.Modules._check_uid"])
    uidc = c.contracts["meth:modules.Modules._check_uid"]
    rxob.parse_obligation(run, "modules.Modules.parse_uid#uid.parse", uidc.pat, L.I_UID, L.UID_GROUPS,
                          ["productmd.modules.Modules.parse_uid"])
    # functional postcondition + frame + refusal of each add (arbitrary manifest, unbounded size)
    for k in ADDS:
        verify.verify(run, c.E, c.contracts[k])
    verify.verify(run, c.E, c.contracts["fn:extra_files._relative_to"])
    for k in ("meth:extra_files.ExtraFiles.dump_for_tree",):
        if k in c.contracts:
            verify.verify(run, c.E, c.contracts[k])
    contract_samples(run, c, ADDS + ["meth:modules.Modules._check_uid"], limit=1500 if run.tier == "quick" else None)
    histories(run, c)
    run.assume("manifests are tree-shaped (no sub-dict is shared between two cells); the nested dict/list shape of a manifest is the "
               "data-structure invariant every add re-establishes")
    run.note("history quantifier: induction over add calls with the frame clause (each add is verified on an ARBITRARY manifest)")
    run.note("Rpms.add does not refuse an EMPTY path (only an absolute one); the statement's 'absolute or empty path' is read per builder "
             "(ExtraFiles/Modules refuse empty paths)")


def histories(run, c):
    """bounded: call sequences compared step by step with a reference model of the documented layout"""
    import copy
    import itertools
    t0 = time.time()
    R = c.mods["rpms"].Rpms
    con = c.contracts["meth:rpms.Rpms.add"]
    pool = list(itertools.islice(con.sample_inputs(c.rng), 14))
    pool += [dict(zip(con.PARAMS, ("S", "x86_64", "a-0:1-1.x86_64", "p/a.rpm", "AA", "binary", "s-0:1-1.src"))),
             dict(zip(con.PARAMS, ("S", "x86_64", "s-0:1-1.src", "p/s.rpm", None, "source", None))),
             dict(zip(con.PARAMS, ("S", "i386", "a-0:1-1.x86_64.rpm", "p/a.rpm", "bb", "debug", "dir/s-0:1-1.src.rpm"))),
             # several DIFFERENT source packages filed without an explicit srpm_nevra (each under its own name), also across cells
             dict(zip(con.PARAMS, ("S", "x86_64", "t-0:2-1.src", "p/t.rpm", None, "source", None))),
             dict(zip(con.PARAMS, ("C", "s390x", "u-1:3-2.nosrc", "p/u.rpm", "cc", "source", None))),
             dict(zip(con.PARAMS, ("S", "x86_64", "b-0:2-1.noarch", "p/b.rpm", None, "binary", "t-0:2-1.src.rpm")))]
    n = 0
    fails = []
    L_ = 2 if run.tier == "quick" else 3
    pat = c.mods["common"].RPM_NVRA_RE

    def canon(s):
        s = s[:-4] if s.endswith(".rpm") else s
        d = pat.match(s).groupdict()
        return "%s-%d:%s-%s.%s" % (d["name"], int(d["epoch"] or 0), d["version"], d["release"], d["arch"])
    for seq in itertools.product(pool, repeat=L_):
        m = R()
        model = {}
        n += 1
        for a in seq:
            before = copy.deepcopy(m.rpms)
            try:
                m.add(*[a[p] for p in con.PARAMS])
                K = canon(a["srpm_nevra"]) if a["srpm_nevra"] else canon(a["nevra"])
                model.setdefault(a["variant"], {}).setdefault(a["arch"], {}).setdefault(K, {})[canon(a["nevra"])] = {
                    "sigkey": None if a["sigkey"] is None else a["sigkey"].lower(), "path": a["path"], "category": a["category"]}
            except (ValueError, TypeError):
                if m.rpms != before:
                    fails.append((seq, "refused add changed the manifest"))
            except Exception as ex:
                fails.append((seq, "raises %r" % (ex,)))
            if m.rpms != model:
                fails.append((seq, "manifest differs from the reference model"))
                break
    run.add_bounded("Rpms.add histories", "reference-model differential", "all call sequences of length %d from a pool of %d argument tuples"
                    % (L_, len(pool)), n, fails, seconds=time.time() - t0)
    if fails:
        seq, what = fails[0]
        run.violation("bounded:rpms.add.history", "manifest equals reference model after every call", "%s after %r" % (what, seq),
                      "import productmd.rpms as R\nm=R.Rpms()\nfor a in %r:\n try: m.add(**a)\n except (ValueError, TypeError): pass\n"
                      "print(m.rpms)\nREPRODUCED('%s')\n" % (list(seq), what))
