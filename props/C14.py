"""C14 -- Release IDs round-trip; validators accept exactly the documented names."""
import itertools
import time

from pyvc import rx, rxob, verify
from pyvc.report import run_replay_file
from spec import languages as L
from .common import ctx, std

PRED_REPLAY = r'''
import re
import productmd.common as C
fn = %(fn)r
spec = %(spec)r
w = %(w)r
a = bool(getattr(C, fn)(w))
b = re.compile("(?:" + spec + r")\Z").match(w) is not None
print("%%s(%%r) = %%s ; documented: %%s" %% (fn, w, a, b))
if a != b: REPRODUCED("%%s(%%r) is %%s but the documented rule says %%s" %% (fn, w, a, b))
NOT_REPRODUCED()
'''


def known_findings(run, prefix):
    """native reproducers of the listed findings: prints KNOWN-FINDING while they still fail"""
    out = []
    for k in run._known.get("findings", []):
        if k.get("property") != run.prop or not k.get("obligation", "").startswith(prefix) or k.get("status") != "known":
            continue
        path = run.write_replay("known_" + k["obligation"], k["obligation"], k.get("witness_class"), k["what"], k["reproducer"])
        ok, txt = run_replay_file(path, run.repo)
        if ok:
            run.known_finding(k["what"])
            out.append(k)
        elif ok is None:
            run.faults.append("reproducer of known finding crashed: %s" % txt[-300:])
    return out


def check(run):
    c = ctx(run)
    std(run)
    C = c.mods["common"]
    preds = [("short", "is_valid_release_short", "RELEASE_SHORT_RE", L.L_SHORT),
             ("type", "is_valid_release_type", "RELEASE_TYPE_RE", L.L_TYPE),
             ("version", "is_valid_release_version", "RELEASE_VERSION_RE", L.L_VERSION)]
    for tag, fn, pname, spec in preds:
        pat = getattr(C, pname)
        rxob.language_obligation(run, "common.%s#pred.%s.accepts_exactly_documented" % (pname, tag), pat, spec,
                                 ["productmd.common." + fn, "productmd.common." + pname],
                                 fn_replay=PRED_REPLAY.replace("%(fn)r", repr(fn)))
        verify.verify(run, c.E, c.contracts["fn:common." + fn])
    verify.verify(run, c.E, c.contracts["fn:common.create_release_id"])

    # the table of known types must contain every documented type (needed to split off dashed types)
    with run.obligation("common.RELEASE_TYPES#documented_types_present", "conc", ["productmd.common.RELEASE_TYPES"]) as ob:
        from spec.fields import DOCUMENTED_ENUMS
        missing = [t for t in DOCUMENTED_ENUMS["RELEASE_TYPES"] if t not in c.T.RELEASE_TYPES]
        if missing:
            ob.refuted("documented release types missing from RELEASE_TYPES: %r" % missing,
                       replay_script="import productmd.common as C\nm=[t for t in %r if t not in C.RELEASE_TYPES]\n"
                                     "if m: REPRODUCED('missing %%r' %% m)\nNOT_REPRODUCED()\n" % DOCUMENTED_ENUMS["RELEASE_TYPES"])
        else:
            ob.discharged()

    known = known_findings(run, "lemma:rid.roundtrip")
    excl = 1 if known else 0
    types = list(c.T.RELEASE_TYPES)
    from contracts.strings import RidRoundTrip
    for t in types:
        combos = [(t, None), (t, "ga" if t != "ga" else "updates"), ("updates-testing" if t != "updates-testing" else "eus", t)]
        for rt, bt in combos:
            con = RidRoundTrip(c.src, c.T, rt, bt, bool(excl))
            con.key = "lemma:rid.roundtrip:%s:%s:%d" % (rt, bt or "", excl)
            c.contracts[con.key] = con
            verify.verify(run, c.E, con, prefix="lemma:rid.roundtrip[%s%s]" % (rt, ("@" + bt) if bt else ""))
    if known:
        run.note("rid.roundtrip is proved on the complement of the known finding's witness class "
                 "(type == 'ga' and '-' in short; likewise for the base product)")
    rxob.differential_check(run, [(p[2], getattr(C, p[2]).pattern) for p in preds], 6 if run.tier == "quick" else 8)
    bounded(run, c, bool(known))
    run.note("every pattern ends in `$`, which tolerates ONE trailing newline: 'a\\n' is accepted by the three predicates; "
             "the documented languages are compared over newline-free strings (the property's alphabet has no newline class)")


def bounded(run, c, known):
    C = c.mods["common"]
    import re
    t0 = time.time()
    alpha = "aA1-.@!"
    maxlen = 5 if run.tier == "quick" else 7
    oracles = [("is_valid_release_short", L.L_SHORT), ("is_valid_release_type", L.L_TYPE), ("is_valid_release_version", L.L_VERSION)]
    comp = [(getattr(C, fn), re.compile("(?:%s)\\Z" % sp), fn) for fn, sp in oracles]
    n = 0
    fails = []
    for ln in range(0, maxlen + 1):
        for tup in itertools.product(alpha, repeat=ln):
            w = "".join(tup)
            # the exponential patterns make some short inputs slow: skip words with > 14 pumpable chars (none here)
            for f, orc, fn in comp:
                n += 1
                if bool(f(w)) != (orc.match(w) is not None):
                    fails.append((fn, w))
    run.add_bounded("is_valid_release_short/type/version", "exhaustive strings vs documented language",
                    "all strings of length <= %d over {a,A,1,-,.,@,!}" % maxlen, n, fails, seconds=time.time() - t0)
    if fails:
        fn, w = fails[0]
        run.violation("bounded:" + fn, "accepts exactly documented", "%s(%r)" % (fn, w),
                      PRED_REPLAY % {"fn": fn, "spec": dict(oracles)[fn], "w": w})
    # round trip, enumerated
    t0 = time.time()
    shorts = [s for s in ("".join(t) for ln in range(1, 5) for t in itertools.product("a1-", repeat=ln)) if C.is_valid_release_short(s)]
    versions = [v for v in ("".join(t) for ln in range(1, 4) for t in itertools.product("a1.", repeat=ln))
                if C.is_valid_release_version(v)]
    n = 0
    fails = []
    for s in shorts:
        for v in versions:
            for t in c.T.RELEASE_TYPES:
                if known and t == "ga" and "-" in s:
                    continue
                n += 1
                try:
                    got = C.parse_release_id(C.create_release_id(s, v, t))
                except Exception as ex:
                    got = repr(ex)
                if got != {"short": s, "version": v, "type": t}:
                    fails.append((s, v, t, got))
    run.add_bounded("parse_release_id(create_release_id(...))", "exhaustive small parts",
                    "shorts <= 4 chars over {a,1,-}, versions <= 3 chars over {a,1,.}, all %d types%s"
                    % (len(c.T.RELEASE_TYPES), " (known-finding class excluded)" if known else ""), n, fails,
                    seconds=time.time() - t0)
    if fails:
        s, v, t, got = fails[0]
        run.violation("bounded:rid.roundtrip", "parse(create(parts)) == parts", "(%r, %r, %r) -> %r" % (s, v, t, got),
                      "import productmd.common as C\nr = C.parse_release_id(C.create_release_id(%r, %r, %r))\nprint(r)\n"
                      "if r != {'short': %r, 'version': %r, 'type': %r}: REPRODUCED(r)\nNOT_REPRODUCED()\n" % (s, v, t, s, v, t))
