"""C02 -- Image manifests survive a write/read cycle unchanged."""
from pyvc import verify
from bounded import roundtrip
from .common import ctx, std


def check(run):
    c = ctx(run)
    std(run)
    verify.verify(run, c.E, c.contracts["ser:images.Image"], only=("documented_layout", "object_unchanged"))
    verify.verify(run, c.E, c.contracts["rt:images.Image"])
    verify.verify(run, c.E, c.contracts["ser:composeinfo.Compose"], only=("documented_layout", "other_keys_unchanged", "object_unchanged"))
    verify.verify(run, c.E, c.contracts["rt:composeinfo.Compose"])
    for k in ("ser:common.Header", "de:common.Header", "rt:images.Images", "ser:images.Images:emptycell"):
        if k in c.contracts:
            verify.verify(run, c.E, c.contracts[k])
    n = 150 if run.tier == "quick" else 4000
    roundtrip.roundtrip(run, c.mods, "images", n,
                        "0-3 variants x 1-2 arches x 1-3 images, every type/format pair, null/non-null volume id and implanted md5, sizes > 2^32, "
                        "unified images with additional variants, the same Image object under several cells; %d seeds" % n)
    run.assume("A1: json.dump(indent=4, sort_keys=True) is a function of the JSON value and json.load inverts it on str-keyed JSON values")
    run.note("proved: the per-image writer/reader (all 15 attributes), the compose section, and the manifest-level cycle Images.serialize -> "
             "Images.deserialize (through the real add() with its identity scan) on the shapes {V1:{A:{I1,I2}}, V2:{A:{I1}}} (same object under "
             "two cells) and {V1:{A:{I1}}, V2:{A:{I3}}} (paths may coincide across cells), every value symbolic, both iteration orders; more "
             "cells / images per cell and the JSON text layer (byte-identical second dump) are covered by the bounded stand-in")
