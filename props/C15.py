"""C15 -- Compose IDs encode date, type and respin recoverably."""
import itertools
import re
import time

from pyvc import rx, rxob, verify
from spec import languages as L
from contracts import composeid as CID
from .common import ctx, std
from .C14 import known_findings

DECODE_REPLAY = r'''
import re
from pyvc import rx
import productmd.composeinfo as CI
spec = %(spec)r
groups = %(groups)r
w = %(w)r
A = rx.build(spec, fullmatch=True)
intended = rx.all_parses(A, w, groups)
print("compose id:", repr(w)); print("intended spans:", intended)
if not intended: NOT_REPRODUCED("string is not a created compose id")
table = %(table)r
try:
    got = CI.get_date_type_respin(w)
except Exception as ex:
    REPRODUCED("get_date_type_respin(%%r) raises %%r" %% (w, ex))
for p in intended:
    date = w[p["date"][0]:p["date"][1]]
    ty = w[p["type"][0]:p["type"][1]][1:] if p["type"] else ""
    exp = (date, table[ty], int(w[p["respin"][0]:p["respin"][1]]))
    print("get_date_type_respin(%%r) = %%r ; created from %%r" %% (w, got, exp))
    if got != exp: REPRODUCED("decoded %%r, created from %%r" %% (got, exp))
NOT_REPRODUCED()
'''


def check(run):
    c = ctx(run)
    std(run)
    CI = c.mods["composeinfo"]
    fns = ["productmd.composeinfo.get_date_type_respin"]

    # encoder and decoder tables are inverse on the five compose types; decoder knows exactly the documented spellings
    with run.obligation("composeinfo.COMPOSE_TYPE_SUFFIXES#cid.tables", "conc",
                        ["productmd.composeinfo.COMPOSE_TYPE_SUFFIXES", "productmd.composeinfo.Compose.type_suffix"]) as ob:
        dec = dict(CI.COMPOSE_TYPE_SUFFIXES)
        exp = dict((k, v) for k, v in CID.DECODE_TABLE.items() if k)
        bad = None
        if dec != exp:
            bad = "decoder table is %r, documented %r" % (dec, exp)
        for t in c.T.COMPOSE_TYPES:
            comp = object.__new__(CI.Compose)
            comp.type = t
            suf = comp.type_suffix
            back = "production" if suf == "" else dec.get(suf[1:])
            if back != t:
                bad = "type %r encodes to suffix %r which decodes to %r" % (t, suf, back)
        if bad:
            ob.refuted(bad, replay_script="import productmd.composeinfo as CI\nexp=%r\n"
                       "if dict(CI.COMPOSE_TYPE_SUFFIXES) != exp: REPRODUCED(dict(CI.COMPOSE_TYPE_SUFFIXES))\n"
                       "for t in CI.COMPOSE_TYPES:\n c=object.__new__(CI.Compose); c.type=t; s=c.type_suffix\n"
                       " b='production' if s=='' else CI.COMPOSE_TYPE_SUFFIXES.get(s[1:])\n"
                       " if b!=t: REPRODUCED((t,s,b))\nNOT_REPRODUCED()\n" % exp)
        else:
            ob.discharged()

    pats = CID.gdtr_pattern(c.src)
    known = known_findings(run, "composeinfo.get_date_type_respin#cid.decode")
    digits = "7" if known else ""
    spec = (L.I_CID % 7) if known else L.I_CID.replace(r"\d{1,%d}", r"\d+")
    with run.obligation("composeinfo.get_date_type_respin#cid.decode", "rx", fns) as ob:
        if not pats:
            ob.undecided("no literal pattern found in get_date_type_respin")
        else:
            cex, stats = rx.check_parse(pats[0], spec, L.CID_GROUPS)
            ob.detail["nodes"] = stats["nodes"]
            if cex is None:
                ob.discharged(note="respin of any length" if not known else "respin < 10^7 (complement of the known finding)")
            else:
                ob.refuted("shortest counterexample id %r" % cex, clause="cid.decode",
                           replay_script=DECODE_REPLAY % {"spec": spec, "groups": L.CID_GROUPS, "w": cex, "table": CID.DECODE_TABLE})

    # every created id passes the library's own compose-id validation (language inclusion)
    with run.obligation("composeinfo.Compose._validate_id#cid.valid", "rx", ["productmd.composeinfo.Compose._validate_id"]) as ob:
        import ast
        vp = None
        cls = c.src.classes[("composeinfo", "Compose")]
        for n in ast.walk(cls.methods["_validate_id"]):
            if isinstance(n, ast.Call) and ast.unparse(n.func).endswith("_assert_matches_re"):
                vp = [e.value for e in n.args[1].elts if isinstance(e, ast.Constant)]
        if not vp or len(vp) != 1:
            ob.undecided("compose id validator pattern not found as a single literal")
        else:
            created = re.sub(r"\(\?P<\w+>", "(", L.I_CID.replace(r"\d{1,%d}", r"\d+"))
            r = rx.lang_compare(created, vp[0], fullmatch_a=True, fullmatch_b=False)
            if r["only_a"] is None:
                ob.discharged(states=r["states"])
            else:
                w = r["only_a"]
                ob.refuted("created id %r is refused by the id validator" % w, clause="cid.valid",
                           replay_script="import productmd.composeinfo as CI\nc=CI.ComposeInfo().compose\nc.id=%r\n"
                           "try:\n c._validate_id()\nexcept ValueError as e: REPRODUCED(e)\nNOT_REPRODUCED()\n" % w)

    for k in ("prop:composeinfo.Compose.type_suffix", "prop:composeinfo.BaseProduct.type_suffix",
              "prop:composeinfo.Release.type_suffix", "fn:composeinfo.get_date_type_respin",
              "meth:composeinfo.ComposeInfo.create_compose_id"):
        verify.verify(run, c.E, c.contracts[k])
    # the one reader that DECODES an id while loading: a pre-0.3 compose section takes date/type/respin from its id
    verify.verify(run, c.E, c.contracts["gate:composeinfo.Compose.deserialize.fields"], crosscheck=False)

    rxob.differential_check(run, [("get_date_type_respin", p) for p in pats], 5 if run.tier == "quick" else 7)
    bounded(run, c, bool(known))
    run.note("release short names/versions containing a newline are outside the claim (the id validator's '.*' does not cross lines)")
    run.note("the RHEL-5 special case of create_compose_id (variant name appended) is outside the contract (release short 'RHEL' excluded)")


def bounded(run, c, known):
    CI = c.mods["composeinfo"]
    t0 = time.time()
    rng = c.rng
    fails = []
    n = 0
    shorts = ["F", "Fedora", "a-b", "x1"]
    versions = ["23", "7.1", "Rawhide", "20240101", "1.123456789", "9-20200101"]
    respins = [0, 1, 12, 9999999] + ([] if known else [10 ** 7, 12345678, 99999999, 10 ** 9])
    for short, ver, rt, lay, ct, rs in itertools.product(shorts, versions, c.T.RELEASE_TYPES, [False, True], c.T.COMPOSE_TYPES, respins):
        ci = CI.ComposeInfo()
        ci.release.short, ci.release.version, ci.release.type, ci.release.is_layered = short, ver, rt, lay
        ci.release.name = "N"
        if lay:
            ci.base_product.short, ci.base_product.version, ci.base_product.type, ci.base_product.name = "bp", "8", "eus", "B"
        date = "%08d" % rng.randrange(0, 10 ** 8)
        ci.compose.date, ci.compose.type, ci.compose.respin = date, ct, rs
        n += 1
        try:
            cid = ci.create_compose_id()
            got = CI.get_date_type_respin(cid)
            ci.compose.id = cid
            ci.compose._validate_id()
            pre = "%s-%s%s" % (short, ver, "" if rt == "ga" else "-" + rt)
            if got != (date, ct, rs) or not cid.startswith(pre):
                fails.append((cid, got, (date, ct, rs)))
        except Exception as ex:
            fails.append((repr((short, ver, rt, lay, ct, rs)), repr(ex), None))
    run.add_bounded("create_compose_id / get_date_type_respin / Compose._validate_id", "enumerated create->decode",
                    "4 shorts x 6 versions (incl. long digit runs, dashed) x all release types x layered x all compose types x %d respins, random dates"
                    % len(respins), n, fails, seconds=time.time() - t0)
    if fails:
        cid, got, exp = fails[0]
        run.violation("bounded:cid.roundtrip", "decode(create(...)) == parts", "%r -> %r, created from %r" % (cid, got, exp),
                      "import productmd.composeinfo as CI\ngot = CI.get_date_type_respin(%r)\nprint(got)\n"
                      "if got != %r: REPRODUCED(got)\nNOT_REPRODUCED()\n" % (cid, exp))
    # documented spellings
    t0 = time.time()
    fails = []
    n = 0
    for suf, ty in CID.DECODE_TABLE.items():
        for rs, rexp in ((".3", 3), ("", 0)):
            cid = "Foo-1.0-20170217%s%s" % (("." + suf) if suf else "", rs)
            n += 1
            try:
                got = CI.get_date_type_respin(cid)
            except Exception as ex:
                got = repr(ex)
            if got != ("20170217", ty, rexp):
                fails.append((cid, got, ("20170217", ty, rexp)))
    for bad in ("foo", "c", "production", "nightlyx", "x"):
        n += 1
        try:
            got = CI.get_date_type_respin("Foo-1.0-20170217.%s.2" % bad)
            fails.append(("Foo-1.0-20170217.%s.2" % bad, got, "ValueError"))
        except ValueError:
            pass
    run.add_bounded("get_date_type_respin", "documented spellings and unknown suffixes", "7 spellings x {respin, none} + 5 unknown", n, fails,
                    seconds=time.time() - t0)
    if fails:
        cid, got, exp = fails[0]
        run.violation("bounded:cid.spellings", "documented suffix spellings", "%r -> %r, expected %r" % (cid, got, exp),
                      "import productmd.composeinfo as CI\ntry:\n got = CI.get_date_type_respin(%r)\nexcept ValueError: got='ValueError'\n"
                      "print(got)\nif got != %r: REPRODUCED(got)\nNOT_REPRODUCED()\n" % (cid, exp))
