"""C09 -- Image identity is unique within a manifest."""
import itertools
import json
import time

from pyvc import verify
from contracts import imagesadd as IA
from .common import ctx, std, contract_samples

KEYS = ["meth:images.Images.add:any", "meth:images.Images.add:0", "meth:images.Images.add:1", "lemma:images.identify_image"]

HIST_SCRIPT = r'''
import productmd.images as I
pool = %(pool)r
seq = %(seq)r
m = I.Images(); m.header.version = %(version)r
def mk(a, cs):
    im = I.Image(m); im.subvariant, im.type, im.format, im.arch, im.disc_number, im.unified = a; im.checksums = {"sha256": cs}; im.path = "p/%%s" %% cs
    return im
placed = []
for idx, var, arch in seq:
    a, cs = pool[idx]
    im = mk(tuple(a), cs)
    clash = any(tuple(pa) == tuple(a) and pcs != cs for pa, pcs in placed)
    try:
        m.add(var, arch, im); ok = True
    except ValueError:
        ok = False
    print("add(%%s, %%s, identity %%r checksums %%s) -> %%s" %% (var, arch, a, cs, "accepted" if ok else "refused"))
    if ok and clash: REPRODUCED("an image agreeing on all identity attributes with a present one but with different checksums was accepted")
    if not ok and not clash: REPRODUCED("an add without identity clash under a binary arch was refused")
    if ok: placed.append((a, cs))
NOT_REPRODUCED()
'''


def check(run):
    c = ctx(run)
    std(run)
    keys = KEYS + (["meth:images.Images.add:2"] if run.tier == "thorough" else [])
    for k in keys:
        verify.verify(run, c.E, c.contracts[k], crosscheck=False)
    IA.ast_only_writer(run, c.src, "images", "Images", "images", ["add"])
    # every record of a loaded document of ARBITRARY size is filed through add() (directly or via _add_1_1): witness rule over the loader's loops
    verify.verify(run, c.E, c.contracts["gate:images.Images.deserialize:any"], crosscheck=False)
    with run.obligation("images.Images.__init__#fresh_manifest_is_current_format", "conc", ["productmd.images.Images.__init__"]) as ob:
        # a manifest that has only been built by add calls is written as a current-format file, so identity uniqueness must already be
        # enforced while it is being built: Images() starts with a header version >= 1.1
        m = c.mods["images"].Images()
        vt = m.header.version_tuple
        if vt >= (1, 1):
            ob.discharged(note="fresh header version %s" % m.header.version)
        else:
            ob.refuted("fresh Images() has header version %r: add() does not enforce identity uniqueness, yet dumps() writes a %s file"
                       % (m.header.version, ".".join(map(str, c.T.VERSION))), clause="fresh.version",
                       replay_script="import productmd.images as I\nm=I.Images()\nm.compose.id='F-1-20200101.0'; m.compose.type='production'; "
                       "m.compose.date='20200101'; m.compose.respin=0\n"
                       "def mk(cs):\n im=I.Image(m); im.path='p/'+cs; im.mtime=1; im.size=1; im.volume_id=None; im.type='dvd'; im.format='iso'; im.arch='x86_64'\n"
                       " im.disc_number=1; im.disc_count=1; im.checksums={'sha256':cs}; im.implant_md5=None; im.bootable=False; im.subvariant='S'; return im\n"
                       "try:\n m.add('Server','x86_64',mk('a')); m.add('Server','x86_64',mk('b'))\nexcept ValueError: NOT_REPRODUCED('refused')\n"
                       "s=m.dumps()\ntry:\n I.Images().loads(s)\nexcept ValueError as e: REPRODUCED('two images with equal identity and different checksums were "
                       "accepted by add(); the written manifest is rejected on load: %s' % e)\nREPRODUCED('identity clash accepted')\n")
    contract_samples(run, c, ["meth:images.Images.add:1", "meth:images.Images.add:any"], limit=2500 if run.tier == "quick" else None)
    histories(run, c)
    loads(run, c)
    run.note("Images.add is proved on a manifest of ARBITRARY size (any number of variants, arches and images per cell; witness rule of "
             "pyvc/anycoll.py for the three nested scan loops, every iteration order) and, as a cross-check of that rule, on manifests holding "
             "0, 1 (quick) and 2 (thorough) concrete cells with symbolic attributes")
    run.note("history quantifier: induction over add/load with Uniq as invariant (identity_uniqueness_preserved + every_other_cell_unchanged); "
             "load routes every entry through add (AST clause)")


def histories(run, c):
    I = c.mods["images"]
    t0 = time.time()
    base = ("S", "dvd", "iso", "x86_64", 1, False)
    pool = [(base, "a"), (base, "b"), (("K",) + base[1:], "a"), (base[:4] + (2, False), "b"), (base[:2] + ("qcow2",) + base[3:], "c"),
            (base[:3] + ("src", 1, False), "d")]
    cells = [("Server", "x86_64"), ("Server", "s390x"), ("Client", "x86_64")]
    L = 2 if run.tier == "quick" else 3
    n = 0
    fails = []
    for version in ("1.0", "1.1", "1.2"):
        for seq in itertools.product(range(len(pool)), repeat=L):
            for cellseq in itertools.product(range(len(cells)), repeat=L):
                n += 1
                m = I.Images()
                m.header.version = version
                placed = []
                for idx, ci in zip(seq, cellseq):
                    a, cs = pool[idx]
                    im = I.Image(m)
                    im.subvariant, im.type, im.format, im.arch, im.disc_number, im.unified = a
                    im.checksums = {"sha256": cs}
                    im.path = "p/" + cs
                    clash = version != "1.0" and any(pa == a and pcs != cs for pa, pcs in placed)
                    try:
                        m.add(cells[ci][0], cells[ci][1], im)
                        ok = True
                    except ValueError:
                        ok = False
                    if ok == clash:
                        fails.append((version, [(i, cells[j][0], cells[j][1]) for i, j in zip(seq, cellseq)]))
                        break
                    if ok:
                        placed.append((a, cs))
    run.add_bounded("Images.add histories", "reference-model differential (accept iff no identity clash from 1.1 on)",
                    "all add sequences of length %d over a pool of 6 images x 3 cells x header versions 1.0/1.1/1.2" % L, n, fails,
                    seconds=time.time() - t0)
    if fails:
        version, seq = fails[0]
        run.violation("bounded:images.add.history", "identity uniqueness enforced by add", "version %s, sequence %r" % (version, seq),
                      HIST_SCRIPT % {"pool": [(list(a), cs) for a, cs in pool], "seq": seq, "version": version})


def loads(run, c):
    from bounded import gen
    I = c.mods["images"]
    t0 = time.time()
    n = 0
    fails = []
    for seed in range(40 if run.tier == "quick" else 400):
        m = gen.G(c.mods, run.seed * 31 + seed).images()
        doc = json.loads(m.dumps())
        cells = [(v, a) for v in doc["payload"]["images"] for a in doc["payload"]["images"][v] if doc["payload"]["images"][v][a]]
        if not cells:
            continue
        v, a = cells[0]
        img = dict(doc["payload"]["images"][v][a][0])
        img["checksums"] = {"sha256": "f" * 64}
        img["path"] = img["path"] + ".clash"
        tv = sorted(doc["payload"]["images"])[-1]
        doc["payload"]["images"][tv].setdefault(a, []).append(img)
        for version, must in (("1.2", True), ("1.1", True), ("1.0", False)):
            d = json.loads(json.dumps(doc))
            d["header"]["version"] = version
            n += 1
            try:
                I.Images().loads(json.dumps(d))
                rejected = False
            except ValueError:
                rejected = True
            except Exception:
                rejected = True
            if must and not rejected:
                fails.append((seed, version))
    run.add_bounded("Images.loads of documents with an identity clash", "clash injected into random manifests",
                    "random manifests + one copied image with different checksums in another cell; versions 1.0/1.1/1.2", n, fails,
                    seconds=time.time() - t0)
    if fails:
        seed, version = fails[0]
        run.violation("bounded:images.load.clash", "document with identity clash rejected from 1.1 on", "seed %d version %s" % (seed, version),
                      "import json\nfrom pyvc.source import Source\nfrom bounded import gen\nsrc=Source(os.environ.get('VERIF_REPO','/repo')); mods=src.import_native()\n"
                      "m=gen.G(mods,%d).images(); doc=json.loads(m.dumps())\ncells=[(v,a) for v in doc['payload']['images'] for a in doc['payload']['images'][v] if doc['payload']['images'][v][a]]\n"
                      "v,a=cells[0]; img=dict(doc['payload']['images'][v][a][0]); img['checksums']={'sha256':'f'*64}; img['path']+='.clash'\n"
                      "tv=sorted(doc['payload']['images'])[-1]; doc['payload']['images'][tv].setdefault(a,[]).append(img); doc['header']['version']=%r\n"
                      "try:\n mods['images'].Images().loads(json.dumps(doc))\nexcept Exception as e: NOT_REPRODUCED(e)\n"
                      "REPRODUCED('a document with two images of equal identity and different checksums was loaded')\n" % (run.seed * 31 + seed, version))
