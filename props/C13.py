"""C13 -- RPM name-epoch:version-release.arch strings are parsed back to their parts."""
import re
import time

from pyvc import rx, rxob, verify
from spec import languages as L
from .common import ctx, std

NVRA_FN_REPLAY = r'''
import re
from pyvc import rx
import productmd.common as C
spec = %(spec)r
groups = %(groups)r
w = %(w)r
A = rx.build(spec, fullmatch=True)
intended = rx.all_parses(A, w, groups)
print("string:", repr(w)); print("intended spans:", intended)
if not intended: NOT_REPRODUCED("string is not in the intended language")
for suffix in ("", ".rpm"):
    try:
        got = C.parse_nvra(w + suffix)
    except Exception as ex:
        REPRODUCED("parse_nvra(%%r) raises %%r on a legal name" %% (w + suffix, ex))
    for p in intended:
        exp = {g: (w[p[g][0]:p[g][1]] if p[g] else None) for g in groups}
        exp["epoch"] = int(exp["epoch"]) if exp["epoch"] else 0
        print("parse_nvra(%%r) = %%r ; intended %%r" %% (w + suffix, got, exp))
        if got != exp: REPRODUCED("parse_nvra(%%r) returns %%r, intended %%r" %% (w + suffix, got, exp))
NOT_REPRODUCED()
'''


def check(run):
    c = ctx(run)
    std(run)
    common = c.mods["common"]
    pat = common.RPM_NVRA_RE
    arches = c.T.RPM_ARCHES
    spec = L.I_nvra(arches)
    fns = ["productmd.common.parse_nvra", "productmd.common.RPM_NVRA_RE"]

    # the pattern text must be the one in the AST (not only the imported object)
    with run.obligation("common.RPM_NVRA_RE#source_is_imported_pattern", "conc", fns[1:]) as ob:
        inv, _ = c.src.regex_inventory()
        if pat.pattern in inv:
            ob.discharged()
        else:
            ob.undecided("RPM_NVRA_RE.pattern not found among the AST literals")

    rxob.parse_obligation(run, "common.RPM_NVRA_RE#nvra.parse", pat, spec, L.NVRA_GROUPS, fns,
                          fn_replay=NVRA_FN_REPLAY)

    with run.obligation("common.parse_nvra#nvra.rpm_suffix_never_legal", "rx", fns) as ob:
        w = rx.lang_common_word(re.sub(r"\(\?P<\w+>", "(", spec), r"(.|\n)*\.rpm")
        if w is None:
            ob.discharged(note="no legal NVRA ends in '.rpm', so stripping never truncates an un-suffixed name")
        else:
            ob.refuted("legal NVRA %r ends in .rpm and is truncated by parse_nvra" % w,
                       replay_script=NVRA_FN_REPLAY % {"spec": spec, "groups": L.NVRA_GROUPS, "w": w}, clause="rpm_suffix")

    # canonical re-formatting is again legal with the same parts (fixed point): the canonical language is the
    # sub-language "no directory, epoch present"; it is covered by nvra.parse iff it is included in L(I_nvra)
    with run.obligation("rpms.Rpms._check_nevra#nvra.canonical_in_legal_language", "rx", ["productmd.rpms.Rpms._check_nevra"]) as ob:
        canon = re.sub(r"\(\?P<\w+>", "(", L.I_nvra(arches, with_dir=False, epoch="required"))
        r = rx.lang_compare(canon, re.sub(r"\(\?P<\w+>", "(", spec), fullmatch_a=True, fullmatch_b=True)
        if r["only_a"] is None:
            ob.discharged(states=r["states"])
        else:
            ob.refuted("canonical form %r is not a legal NVRA" % r["only_a"], clause="canonical")

    verify.verify(run, c.E, c.contracts["fn:common.parse_nvra"])
    # the exception CLASS of a refusal is a C12 clause (manifest builders), not part of this property
    verify.verify(run, c.E, c.contracts["meth:rpms.Rpms._check_nevra"], skip=("refuses_with_ValueError",))

    rxob.differential_check(run, [("RPM_NVRA_RE", pat.pattern)], 6 if run.tier == "quick" else 7)
    bounded(run, c, spec)
    run.assume("A5: str(int)/int(str) are inverse on canonical decimals (used for the epoch in the fixed-point clause)")
    run.note("RPM_NVRA_RE accepts far more than legal NVRAs (any text around the last two dashes and the last dot); "
             "the property quantifies over legal names only")
    return run


def bounded(run, c, spec):
    """bounded stand-in: random legal NVRAs through the real parse_nvra and Rpms._check_nevra (fixed point)"""
    import productmd.common as C
    import productmd.rpms as R
    rng = c.rng
    t0 = time.time()
    n = 3000 if run.tier == "quick" else 40000
    name_ch = "abzAZ09._+"
    ver_ch = "azAZ09._+~^"
    fails = []
    seen = set()
    for i in range(n):
        segs = ["".join(rng.choice(name_ch) for _ in range(rng.randint(1, 4))) for _ in range(rng.randint(1, 4))]
        if rng.random() < 0.3:
            segs[rng.randrange(len(segs))] = str(rng.randint(0, 999))
        name = "-".join(segs)
        epoch = rng.choice([None, 0, 1, 7, 10 ** 12, "007"])
        ver = "".join(rng.choice(ver_ch) for _ in range(rng.randint(1, 5)))
        rel = "".join(rng.choice(ver_ch) for _ in range(rng.randint(1, 5)))
        arch = rng.choice(c.T.RPM_ARCHES)
        d = rng.choice(["", "/", "a/b-1-2.x/", "Packages/n/"])
        s = "%s%s-%s%s-%s.%s" % (d, name, ("%s:" % epoch) if epoch is not None else "", ver, rel, arch)
        exp = {"name": name, "epoch": int(epoch) if epoch is not None else 0, "version": ver, "release": rel, "arch": arch}
        seen.add(s)
        for suf in ("", ".rpm"):
            try:
                got = C.parse_nvra(s + suf)
            except Exception as ex:
                got = repr(ex)
            if got != exp:
                fails.append((s + suf, got, exp))
        if epoch is not None:
            try:
                canon, dct = R.Rpms()._check_nevra(s)
                again = C.parse_nvra(canon)
                if again != exp or canon != "%(name)s-%(epoch)s:%(version)s-%(release)s.%(arch)s" % exp:
                    fails.append((s, canon, again))
            except Exception as ex:
                fails.append((s, repr(ex), exp))
    run.add_bounded("productmd.common.parse_nvra / Rpms._check_nevra", "random legal NVRAs vs intended parts",
                    "names 1-4 segments x 1-4 chars, epochs {none,0,1,7,1e12,'007'}, every arch, 4 dir prefixes, +-.rpm",
                    2 * n, fails, nontrivial=len(seen), seconds=time.time() - t0)
    if fails:
        s, got, exp = fails[0]
        run.violation("bounded:parse_nvra", "legal NVRA parsed to intended parts", "%r -> %r, intended %r" % (s, got, exp),
                      "import productmd.common as C\ntry:\n got = C.parse_nvra(%r)\nexcept Exception as ex:\n got = 'raises %%s' %% type(ex).__name__\nprint(got)\n"
                      "if got != %r: REPRODUCED('parse_nvra returns %%r' %% (got,))\nNOT_REPRODUCED()\n" % (s, exp))
