"""Registry of claimed checks; tools_manifest.py turns it into MANIFEST.json."""
ENGINES = [
    {"name": "pyvc", "path": "pyvc/", "serves_properties": [],
     "kind_free_text": "own verification-condition generator over the real productmd AST (symbolic execution path by path, "
                       "sidecar contracts, z3/cvc5 portfolio) + rx automata back end for regular-expression obligations + "
                       "native replay of counter-models; bounded stand-ins labelled as such"},
]
NOTES = ("Contract-based deductive verification of the real productmd sources; see DESIGN.md. "
         "Exit codes: 0 held, 1 VIOLATION, 2 undecided, 3 checker fault.")
CHECKS = []
_PENDING = "check not built yet in this round (planned, DESIGN.md section 8); listed here only so that the manifest stays valid while the framework is being built"
NOT_APPLICABLE = [{"property_id": "C%02d" % i, "reason": _PENDING} for i in range(1, 21)]
