"""Registry of claimed checks; tools_manifest.py turns it into MANIFEST.json."""
ENGINES = [
    {"name": "pyvc", "path": "pyvc/", "serves_properties": [],
     "kind_free_text": "own verification-condition generator over the real productmd AST (symbolic execution path by path, "
                       "sidecar contracts, z3/cvc5 portfolio) + rx automata back end for regular-expression obligations + "
                       "native replay of counter-models; bounded stand-ins labelled as such"},
]
NOTES = ("Contract-based deductive verification of the real productmd sources; see DESIGN.md. "
         "Exit codes: 0 held, 1 VIOLATION, 2 undecided, 3 checker fault.")
_NOTE = ("trusted: pyvc's encoding of Python (cross-checked against CPython on a witness of every path, every run), the SMT solvers, "
         "rx's pNFA model of CPython's sre (differentially tested against re.match every run), CPython/stdlib; assumptions S1 (ASCII "
         "meaning of \\d/lower/strip), M1 (exception message text not executed); termination not proved; bounded stand-ins are "
         "reported separately in evidence.coverage.bounded and never counted as proved")
_RT_NOTE = "; A1 (json.dump with sort_keys/indent is a function of the JSON value, json.load inverts it); the variant forest / per-cell container loops are covered by bounded stand-ins only (not counted as proved)"
CHECKS = [
    {"id": "C01", "technique": "contract-based deductive verification: pyvc VCs/SMT on the real section writers/readers (layout, reader mapping, round-trip lemma) and on the real forest recursion Variants.serialize -> Variants.deserialize for a forest of stated shape with symbolic values + bounded stand-in for larger forests and the byte layer",
     "text": "For Compose, BaseProduct and Release sections the real serialize/deserialize are verified path by path: the writer emits exactly the documented key set "
             "(label+final only together, is_layered only when true), the reader computes the documented function of the document (type default, case-fold, bool coercions), and "
             "reader(writer(x)) == norm(x) for every valid x. The forest recursion is exercised by random forests through the real dumps/loads (bounded). Build round: the forest cycle itself is now proved on the forest T->C plus a second top-level U (child plain or layered-product with embedded release; every id, name, type, arch and path symbolic; both registration orders; foreign-arch and empty paths normalised away) by executing the real recursion, add and validate symbolically.",
     "note": _NOTE + "; A1 (json.dump with sort_keys/indent is a function of the JSON value, json.load inverts it); forest proved for ONE shape (depth 2, two top-level variants), deeper/wider forests and the byte layer bounded only"},
    {"id": "C02", "technique": "contract-based deductive verification: pyvc VCs/SMT on Image.serialize/deserialize (all 15 attributes), the compose section and the manifest-level cycle Images.serialize -> Images.deserialize through the real add() for manifests of stated shape with symbolic values + bounded stand-in for larger manifests and the byte layer",
     "text": "Image.serialize is proved to write exactly the 13 documented keys plus unified/additional_variants iff unified, and Image.deserialize(serialize(x)) to restore all 15 "
             "attributes for every valid image (full-domain symbolic fields); the compose section likewise. Cell placement/sorting loops are covered by random manifests (bounded). Build round: the manifest-level cycle is proved on {V1:{A:{I1,I2}}, V2:{A:{I1}}} (same object under two cells) and {V1:{A:{I1}}, V2:{A:{I3}}} (paths may coincide across cells) with every value symbolic, both variant orders and every set order, through the real add() and its identity scan.",
     "note": _NOTE + "; A1; manifest cycle proved for TWO shapes (2 cells, <= 2 images per cell), larger manifests and the byte layer bounded only"},
    {"id": "C03", "technique": "contract-based deductive verification: pyvc VCs on Rpms/Modules/ExtraFiles serialize+deserialize (payload stored and read back verbatim) and on the add postconditions + AST clause on json.dump arguments",
     "text": "For the three manifest classes serialize followed by deserialize is proved to hand back the very same payload object with header (type, current version) and compose "
             "section intact and nothing else in the document; the shape of every entry filed by add is the add postcondition (C12); build_file is shown to call json.dump with sorted keys/indent 4. Build round: the same cycle is also proved with STRUCTURAL equality on a payload of fixed shape (2 variants, 2 arches, 2 records, a null leaf; keys and leaves symbolic), so a reader/writer that rebuilds the payload is still decided.",
     "note": _NOTE + "; A1; structural clause bounded in the SHAPE of the payload; whole-file round trips of random add histories bounded only"},
    {"id": "C09", "technique": "contract-based deductive verification: pyvc VCs/SMT on the real Images.add (identity scan, refusal, placement, write-log frame, Uniq preservation) over manifests with 0-2 symbolic images + identify_image object/dict lemma + AST clause (add is the only writer)",
     "text": "Images.add is executed symbolically (header version, cell keys and all identity attributes symbolic): it refuses exactly a bad arch or, from format 1.1 on, an image equal in "
             "all seven identity attributes to a present one with different checksums; on refusal nothing is written; on success the image is in the addressed cell, every other cell is unchanged and "
             "identity uniqueness is preserved. identify_image(object) is proved equal to identify_image(serialised dict) for every valid image. Every loaded entry goes through add (AST clause).",
     "note": _NOTE + "; bounded in the NUMBER of images already in the manifest (0, 1; 2 in thorough), unbounded in their attributes; checksum tables are abstract values; histories/loads bounded"},
    {"id": "C10", "technique": "contract-based deductive verification: arch clauses of the proved Images.add / Rpms.add contracts + pyvc VCs on Images._add_1_1 (src re-filing) + AST clauses (add is the only writer) + bounded down-converted documents",
     "text": "Normal return of Images.add/Rpms.add is proved to imply a known, non-source tree arch, with ValueError and no change otherwise; _add_1_1 is proved to re-file a 'src' image under "
             "every non-src arch of the same variant and nowhere else; no other method stores into the manifests. The rpms 0.3 reader and whole legacy documents are checked against the documented "
             "mapping on down-converted random manifests (bounded). Build round: Images.deserialize is proved to route a record through _add_1_1 iff the version is <= 1.1 (symbolic version), and Rpms.deserialize_0_3 to re-file the source RPM under every binary arch with its own record's path/sigkey and nothing under 'src' (two binary arches, all values symbolic).",
     "note": _NOTE + "; _add_1_1 proved for a variant with arches {src, A, B}, the rpms 0.3 reader for two binary arches sharing one source RPM (bounded in number)"},
    {"id": "C12", "technique": "contract-based deductive verification: pyvc VCs/SMT on Rpms.add, Modules.add, ExtraFiles.add over an ARBITRARY symbolic manifest (functional postcondition, write-log frame, refusal) + rx parse of the module UID pattern",
     "text": "Each add is verified on an arbitrary (unbounded) nested manifest: on success the entry sits under the canonical keys (NEVRA / module UID from the proved parser contracts, used "
             "modularly) with the documented value, every write lies on the addressed chain and upper levels are created only when absent (frame), the RPM list is extended; each refusal raises "
             "ValueError/TypeError exactly under the documented conditions and writes nothing. _relative_to strips only on a component boundary.",
     "note": _NOTE + "; manifests assumed tree-shaped with the nested dict/list shape invariant; dump_for_tree's loop is bounded only"},
    {"id": "C04", "technique": "contract-based deductive verification: pyvc VCs/SMT on the flat treeinfo section writers/readers over an A2 model of ConfigParser, on the whole-tree cycle TreeInfo.serialize -> TreeInfo.deserialize for a tree of stated shape with symbolic values, and on the .discinfo writer/reader pair + bounded stand-in for larger trees and the text layer",
     "text": "For the [base_product], [release], [stage2] and [media] sections the real serialize/deserialize are verified path by path against the documented option layout, the "
             "rule that optional sections are omitted only when empty, and reader(writer(x)) == norm(x) for every valid representable x. Variant forests, image tables, checksums, "
             "platform sets and .discinfo are exercised by random objects through the real dumps/loads (bounded). Build round: the whole-tree cycle is proved on {top-level variant of any type with plain or dashed UID, one child of any type, one image table with a mixed-case option, one checksum, stage2 main+inst, media} with all values symbolic (section naming by type, platforms incl. arch, integer timestamp); the .discinfo line writer/reader pair is proved for 'ALL' and 1-2 disc numbers incl. identical second write.",
     "note": _NOTE + "; A2 (ConfigParser set/get/write/read_file incl. the effect of interpolation=None, read from the real constructor call); A5 (float(repr(x)) = x, repr a decimal numeral, float(str(i)) exact for |i| <= 2^53: the tree cycle is stated for timestamps in that range); tree proved for ONE shape, more variants/platforms/path kinds and the text layer bounded only"},
    {"id": "C16", "technique": "contract-based deductive verification: loop-invariant VCs for the digest loop of the real compute_checksum (fed == content[0:pos]) + pyvc VCs/SMT for Checksums.add, Image.add_checksum and the [checksums] reader/writer",
     "text": "compute_checksum is verified by an inductive invariant over the real while-loop: whatever chunk sizes read() returns, everything fed to the hash object is exactly the file "
             "content in order, for every file size (establish/preserve/exit obligations discharged by SMT). Checksums.add (absolute-path refusal, normalised key, given value or true digest, frame), "
             "Image.add_checksum (no silent replacement) and the per-entry typing of [checksums] values are verified against contracts.",
     "note": _NOTE + "; A3 (hashlib digests the concatenation of updates; read(n) returns 1..n bytes unless EOF), A4 (normpath/join uninterpreted); [checksums] sections proved for 1-2 entries (bounded in number), termination not proved"},
    {"id": "C17", "technique": "contract-based deductive verification: symbolic execution of the real TreeInfo.serialize (all nine section writers + General.serialize) with VCs per [general] option, for 1-2 top-level variants with symbolic values + AST clause on main_variant pass-through",
     "text": "The whole TreeInfo.serialize is executed symbolically over the A2 parser model; for every path the [general] family/version/name/arch/platforms/timestamp are proved equal "
             "to [release]/[tree] values, 'variants' to the sorted top-level keys, 'variant' to the requested main variant or else the first key, packagedir/repository to that variant's "
             "paths with the src fallback. Proved for 1 or 2 top-level variants and one extra platform with fully symbolic names/paths/arch/timestamp; larger trees are bounded.",
     "note": _NOTE + "; bounded in the NUMBER of top-level variants (2) and extra platforms (1); float timestamps bounded only; A2, A5"},
    {"id": "C18", "technique": "contract-based deductive verification: effect-log VCs on the real MetadataBase.dump / TreeInfo.dump / open_file_obj (no open-for-write precedes a validation error on any path), callee contracts used modularly + AST clauses + bounded fault enumeration",
     "text": "Both dump implementations are executed symbolically with validate/serialize replaced by their contracts (return, or TypeError/ValueError, touching no file): on every "
             "exceptional path the destination has not been opened for writing; on the normal path exactly one open and one write of the serialised data occur. AST clauses show no other "
             "dump implementation exists and no serializer touches files. Every nested validator failure of all seven formats is replayed natively (bounded).",
     "note": _NOTE + "; A4 (open(...,'w') truncates at open), A1/A2 (render step raises no TypeError/ValueError on serialised data)"},
    {"id": "C06", "technique": "contract-based deductive verification: pyvc VCs/SMT -- validate() of every flat metadata class proved equivalent to the documented field rules; section writers proved to write only valid objects + bounded one-field-corruption enumeration for containers",
     "text": "For 15 metadata classes validate() (reflection resolved from the AST and cross-checked against dir()) is proved to return iff the documented field rules hold, to raise only "
             "TypeError/ValueError and to change nothing; the flat section writers are proved to return only for valid objects and to write nothing on refusal. Nested containers are covered by "
             "an enumeration of every field position x out-of-domain values through the real dumps() (bounded). Build round: container-shaped validators (composeinfo/treeinfo Variant with and without parent, treeinfo Images and Checksums) and the composeinfo forest writer (Variants.serialize refuses an invalid child or grand-child) are proved too.",
     "note": _NOTE + "; remaining nested containers (image cells, tree tables on the write side) bounded only"},
    {"id": "C07", "technique": "contract-based deductive verification: pyvc VCs/SMT on Header.version_tuple, the flat section readers, the image record reader and the composeinfo/treeinfo variant record readers under ONE corruption each (value replaced by any JSON value / string, or key deleted), and on every validator contract + bounded one-corruption document enumeration",
     "text": "version_tuple is proved to raise exactly for malformed versions; each flat reader is proved to return only when the required keys are present and the loaded object is valid, "
             "and to reject only documents whose mapped fields are invalid. Whole documents (all seven formats) are covered by one-corruption enumeration through the real loads() (bounded). Build round: Image.deserialize (each of 15 fields corrupted or deleted), composeinfo Variant.deserialize incl. the release embedded in a layered-product variant, and treeinfo Variants.deserialize (each option of the variant section corrupted or deleted) are proved to return only with the required keys and a valid object; all validator contracts are part of this check.",
     "note": _NOTE + "; A1/A2 for the file syntax; remaining treeinfo sections, discinfo and whole documents bounded only"},
    {"id": "C13", "technique": "contract-based deductive verification: rx automata decision (greedy-parse inclusion) + pyvc VCs/SMT on the real parse_nvra/_check_nevra",
     "text": "For every string of the legal NVRA language (unbounded length) RPM_NVRA_RE, taken from the tree, captures the five parts at the intended "
             "spans (decided exactly by the rx back end); the bodies of parse_nvra and Rpms._check_nevra are verified path by path against "
             "their contracts ('.rpm' stripping, epoch default/int, canonical re-format), and canonical forms are shown to lie in the legal language (fixed point).",
     "note": _NOTE + "; A5 (str/int inverse on canonical decimals)"},
    {"id": "C14", "technique": "contract-based deductive verification: rx language equality for the three patterns + pyvc VCs/SMT (z3+cvc5 portfolio) for create/parse round trip",
     "text": "The match languages of RELEASE_SHORT_RE/TYPE_RE/VERSION_RE are proved equal to the documented languages over all newline-free strings; "
             "is_valid_* and create_release_id are verified against contracts; parse_release_id(create_release_id(...)) == parts is proved per known "
             "release type, with and without base product, on the complement of one known finding (dashed short name with implicit ga), which is re-checked natively each run.",
     "note": _NOTE + "; known finding listed in known_findings.json (ambiguous id grammar)"},
    {"id": "C15", "technique": "contract-based deductive verification: rx greedy-parse inclusion for the decoder pattern(s) + pyvc VCs/SMT for create_compose_id, type_suffix and the decoder body",
     "text": "create_compose_id returns the documented id for all valid parts (proved modularly over the type_suffix contracts); for every created id (any prefix, "
             "any respin length) the decoder pattern captures date/type/respin at the intended spans; the decoder body maps groups to (date, type, int respin) "
             "by the documented table and rejects unknown suffixes; every created id is in the id validator's language.",
     "note": _NOTE + "; RHEL-5 special case and names containing newlines are outside the contract"},
    {"id": "C19", "technique": "contract-based deductive verification: rx ambiguity analysis (EDA / IDA degree) of every pattern in a generated inventory + syntactic cost contracts over the AST",
     "text": "Every regular expression the library hands to re (inventory generated from the AST and cross-checked against patterns observed at run time) is proved "
             "free of exponential ambiguity and of ambiguity degree <= 4; every validator/parser body satisfies a syntactic linear-cost contract.",
     "note": _NOTE + "; A7 (cost model of a backtracking matcher: O(n^(d+1)) for ambiguity degree d); wall-clock time is not proved"},
]
CHECKS.append(
    {"id": "C20", "technique": "contract-based deductive verification: pyvc VCs/SMT on the real Compose.__init__, _find_metadata_file, _load_metadata and the four cached accessors over a ghost file system (exists/listdir) with load() used through an abstract contract",
     "text": "Compose.__init__ is executed symbolically over an uninterpreted exists() predicate and a symbolic directory listing: compose/ is chosen iff its composeinfo.json exists, "
             "else some listed subdirectory with metadata/, else the path itself. Each accessor is proved to load the first existing candidate (current name before legacy name) into an "
             "instance of the right class, once, and to return the same object afterwards; no candidate or a ValueError from load surfaces as RuntimeError, other errors propagate.",
     "note": _NOTE + "; A4 (os.path.join/exists/listdir); proved for local absolute paths and listings of 0-2 entries (bounded in number); real directory layouts enumerated natively (bounded)"})
CHECKS.append(
    {"id": "C11", "technique": "contract-based deductive verification: pyvc VCs/SMT on the real VariantBase.add (validation incl. parent link, duplicate id, refusal leaves the container unchanged) and __getitem__ (lookup by UID from the top / by id from the parent on a depth-3 chain with symbolic ids) and get_variants (chain T->C->G, symbolic ids/types/arches, every filter mode, both values of recursive) + bounded forests for wider shapes",
     "text": "add is executed symbolically for top-level and nested containers: accepted iff the variant satisfies the documented rules with the parent link set (uid = parent uid-id, "
             "arches within the parent's), its id is unused; then it is registered under its id with the parent link; every refusal raises ValueError/TypeError and leaves variants unchanged. "
             "Lookup is proved on chains of depth 3 with symbolic ids, on the complement of one known finding (three nested variants sharing one id). get_variants is bounded.",
     "note": _NOTE + "; bounded in the NUMBER of siblings (0-1) and arches (1) for add; get_variants recursion and cycle detection bounded only; 1 known finding"})
CHECKS.append(
    {"id": "C05", "technique": "contract-based deductive verification: pyvc VCs/SMT on every version-dispatching reader with a SYMBOLIC header version (documented branch for every version, both sides of each threshold) and on both Header readers (version syntax, type gate from 1.1, legacy fallback), incl. Images.deserialize (_add_1_1 iff <= 1.1), composeinfo Variants.deserialize (top-level selection by UID prefix iff < 1.0) and the rpms 0.3 re-filing + bounded fixtures / down-converted documents",
     "text": "For Compose, Release, Rpms and treeinfo Release/Tree/Media readers the real deserialize is executed with a symbolic, well-formed version string and the branch readers "
             "replaced by loggers: exactly the documented reader runs for every version, followed by validation; the Header readers accept exactly well-formed versions whose type matches from 1.1 on "
             "and keep the document's version; writers emit the current version. Mapping fidelity and idempotence are checked on all 73 shipped fixtures and on down-converted random documents (bounded).",
     "note": _NOTE + "; thresholds below 1.0 are pinned from the property statement and fixtures (undocumented in the repository); legacy mappings and the 0.0 treeinfo reader are bounded only"})
CHECKS.append(
    {"id": "C08", "technique": "contract-based deductive verification: pyvc VCs/SMT on the real writers with sets/dicts of two symbolic elements under EVERY iteration/insertion order (nondeterministic order in the engine), AST clause on json.dump arguments, writer frame clauses + bounded hash-seed/permutation runs in separate interpreters",
     "text": "Set iteration order is modelled as nondeterminism: composeinfo Variant.serialize (arches, child ids, path tables), Images.serialize (cell sorted by path), treeinfo Variant.serialize "
             "(addons), TreeInfo.serialize ([tree]/[general] variants, platforms) are proved to emit the sorted list for every order of two-element collections with symbolic members; build_file "
             "is shown to call json.dump with sort_keys/indent 4; writers are proved to leave the object unchanged (repeated dumps). Larger objects, PYTHONHASHSEED values and construction "
             "permutations are compared byte for byte in separate interpreter processes (bounded).",
     "note": _NOTE + "; bounded in collection SIZE (2) for the sortedness proofs; A1 (json sort_keys), A2 (ConfigParser emits in dict_type order)"})
_PENDING = "check not built yet in this round (planned, DESIGN.md section 8); listed here only so that the manifest stays valid while the framework is being built"
NOT_APPLICABLE = [{"property_id": "C%02d" % i, "reason": _PENDING} for i in range(1, 21) if "C%02d" % i not in [c["id"] for c in CHECKS]]
for _e in ENGINES:
    _e["serves_properties"] = [c["id"] for c in CHECKS]
