"""C20 -- A compose directory is resolved to the same metadata in every supported layout."""
import itertools
import json
import os
import shutil
import tempfile
import time

from pyvc import verify
from bounded import gen
from .common import ctx, std

LAYOUT_SCRIPT = r'''
from pyvc.source import Source
import props.C20 as P
src = Source(os.environ.get("VERIF_REPO", "/repo")); mods = src.import_native()
err = P.layout_errors(mods, %(cfg)r)
for e in err: print(e)
if err: REPRODUCED("layout %(cfg)r is not resolved as documented")
NOT_REPRODUCED()
'''

FILES = {"info": ["composeinfo.json"], "images": ["images.json", "image-manifest.json"], "rpms": ["rpms.json", "rpm-manifest.json"],
         "modules": ["modules.json"]}


def _docs(mods, seed):
    g = gen.G(mods, seed)
    return {"info": g.composeinfo().dumps(), "images": g.images().dumps(), "rpms": g.rpms()[0].dumps(), "modules": g.modules()[0].dumps()}


def layout_errors(mods, cfg):
    """cfg: dict(layouts: subset of direct/compose/legacy, names: {acc: index into FILES[acc] or None}, slash: bool, content: ok|bad|badheader)"""
    C = mods["compose"].Compose
    root = tempfile.mkdtemp(prefix="c20_")
    out = []
    try:
        base = os.path.join(root, "MYPRODUCT-1.0-20200101.0")
        os.makedirs(base)
        dirs = {"direct": base, "compose": os.path.join(base, "compose"), "legacy": os.path.join(base, "1.0")}
        written = {}
        for i, lay in enumerate(cfg["layouts"]):
            md = os.path.join(dirs[lay], "metadata")
            os.makedirs(md)
            docs = _docs(mods, 100 + i)
            for acc, idx in cfg["names"].items():
                if idx is None:
                    continue
                text = docs[acc]
                if cfg["content"] == "bad":
                    text = "{ this is not json"
                elif cfg["content"] == "badheader":
                    d = json.loads(text)
                    d["header"]["version"] = "x.y"
                    text = json.dumps(d)
                path = os.path.join(md, FILES[acc][idx])
                with open(path, "w") as f:
                    f.write(text)
                written[(lay, acc)] = (path, docs[acc])
        # documented resolution: compose/ when it holds metadata/composeinfo.json; else any subdirectory holding metadata/ (legacy
        # location; listdir order is arbitrary); else the path itself
        if "compose" in cfg["layouts"] and cfg["names"].get("info") is not None:
            want_set = ("compose",)
        else:
            subs = tuple(l for l in ("compose", "legacy") if l in cfg["layouts"])
            want_set = subs if subs else ("direct",)
        p = base + ("/" if cfg["slash"] else "")
        c = C(p)
        got = os.path.normpath(c.compose_path)
        if got not in [os.path.normpath(dirs[w]) for w in want_set]:
            out.append("compose_path %r, expected one of %r" % (got, [dirs[w] for w in want_set]))
            return out
        lay = [k for k, d in dirs.items() if os.path.normpath(d) == got][0]
        for acc, idx in cfg["names"].items():
            present = (lay, acc) in written
            try:
                obj = getattr(c, acc)
                again = getattr(c, acc)
            except RuntimeError as ex:
                if present and cfg["content"] == "ok":
                    out.append("%s: RuntimeError although %s exists and is valid: %s" % (acc, written[(lay, acc)][0], ex))
                elif cfg["content"] != "ok" or not present:
                    loc = written[(lay, acc)][0] if present else os.path.normpath(got)
                    if os.path.normpath(loc) not in os.path.normpath(str(ex)) and loc not in str(ex):
                        out.append("%s: RuntimeError does not name the location: %s" % (acc, ex))
                continue
            except Exception as ex:
                out.append("%s: %r escapes (expected RuntimeError naming the location)" % (acc, ex))
                continue
            if not present:
                out.append("%s: an object was returned although no file exists" % acc)
            elif cfg["content"] != "ok":
                out.append("%s: an undecodable/invalid file was loaded" % acc)
            else:
                direct = type(obj)()
                direct.load(written[(lay, acc)][0])
                if obj.dumps() != direct.dumps():
                    out.append("%s differs from loading %s directly" % (acc, written[(lay, acc)][0]))
                if again is not obj:
                    out.append("%s is loaded again on re-access" % acc)
        return out
    finally:
        shutil.rmtree(root, ignore_errors=True)


def configs(tier):
    lays = [("direct",), ("compose",), ("legacy",), ("direct", "compose"), ("compose", "legacy")]
    names = []
    for info in (0, None):
        for img in (0, 1, None):
            for rpm in (0, 1, None):
                for mod in (0, None):
                    names.append({"info": info, "images": img, "rpms": rpm, "modules": mod})
    out = []
    for lay in lays:
        for nm in names:
            for slash in (False, True):
                out.append({"layouts": lay, "names": nm, "slash": slash, "content": "ok"})
    for lay in lays[:3]:
        for content in ("bad", "badheader"):
            out.append({"layouts": lay, "names": {"info": 0, "images": 1, "rpms": 0, "modules": 0}, "slash": False, "content": content})
    return out


def check(run):
    c = ctx(run)
    std(run)
    keys = ["meth:compose.Compose.__init__:any", "meth:compose.Compose.__init__:0", "meth:compose.Compose.__init__:1"] + (["meth:compose.Compose.__init__:2"] if run.tier == "thorough" else [])
    keys += ["prop:compose.Compose.%s" % a for a in ("info", "images", "rpms", "modules")]
    for k in keys:
        verify.verify(run, c.E, c.contracts[k], crosscheck=False)
    t0 = time.time()
    cfgs = configs(run.tier)
    if run.tier == "quick":
        cfgs = [x for i, x in enumerate(cfgs) if i % 3 == run.seed % 3 or x["content"] != "ok"]
    fails = []
    for cfg in cfgs:
        err = layout_errors(c.mods, cfg)
        if err:
            fails.append((cfg, err[0]))
    run.add_bounded("Compose(path) on real directory layouts", "enumerated layouts in a temporary directory",
                    "layouts {direct, compose/, legacy, direct+compose, compose+legacy} x presence of each file under current/legacy names x "
                    "trailing slash x valid/undecodable/invalid content", len(cfgs), fails, seconds=time.time() - t0)
    if fails:
        cfg, what = fails[0]
        run.violation("bounded:compose.layout", "layout resolved as documented", "%r: %s" % (cfg, what), LAYOUT_SCRIPT % {"cfg": cfg})
    # the accessor contracts evaluated natively on real directories: every combination of {absent, valid, undecodable} per candidate name
    import random
    for a in ("info", "images", "rpms", "modules"):
        con = c.contracts["prop:compose.Compose.%s" % a]
        t1 = time.time()
        bad = []
        n = 0
        for inputs in con.sample_inputs(random.Random(run.seed)):
            nat, cl = con.native_eval(inputs)
            if nat[0] == "skip":
                continue
            n += 1
            for k, v in cl.items():
                if v is False:
                    bad.append((inputs, k))
        run.add_bounded(con.name, "accessor contract on real directories",
                        "each candidate file name absent / valid / undecodable, directly under the path or under compose/", n, bad,
                        seconds=time.time() - t1)
        if bad:
            run.violation("bounded:%s" % con.name, bad[0][1], con.describe(bad[0][0]), con.replay_script(bad[0][0], bad[0][1]))
    run.assume("A4: os.path.join/exists/listdir as documented; listdir order arbitrary")
    run.note("Compose.__init__ is proved for local absolute paths with a directory listing of ARBITRARY length (witness rule for the search "
             "loop, pyvc/anycoll.py) and, as a cross-check of that rule, with listings of 0-1 (quick) / 2 (thorough) concrete entries; URL "
             "access is outside the contract")
    run.note("only ValueError from load is wrapped into RuntimeError; KeyError/TypeError from a structurally wrong but decodable file propagate (INFO)")
