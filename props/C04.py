"""C04 -- Treeinfo and discinfo survive a write/read cycle unchanged."""
import time

from pyvc import verify
from bounded import roundtrip, gen
from .common import ctx, std

FLAT = ["treeinfo.BaseProduct", "treeinfo.Release", "treeinfo.Stage2", "treeinfo.Media"]


def check(run):
    c = ctx(run)
    std(run)
    for n in FLAT:
        verify.verify(run, c.E, c.contracts["ser:" + n], only=("documented_layout", "section_omitted_only_when_empty", "object_unchanged"))
        verify.verify(run, c.E, c.contracts["rt:" + n])
    for k in ("rt:discinfo.DiscInfo:0", "rt:discinfo.DiscInfo:1", "rt:discinfo.DiscInfo:2", "rt:treeinfo.TreeInfo"):
        verify.verify(run, c.E, c.contracts[k])
    n = 200 if run.tier == "quick" else 4000
    trees(run, c, n)
    roundtrip.roundtrip(run, c.mods, "discinfo", n, "timestamps incl. > 2^40 and fractional, single-line descriptions, 'ALL' or disc number lists; %d seeds" % n)
    run.assume("A2: ConfigParser.write emits sections/options in the dict_type's iteration order and read_file inverts write for values "
               "representable in the file syntax (single-line, no leading/trailing blanks; option names free of '=', ':' and not starting with '#;[')")
    run.assume("A5: float(repr(x)) == x for finite floats and repr(x) is a numeral -?d+(.d+)?(e[+-]d+)?; int(str(i)) == i")
    run.assume("A5 (machine arithmetic): the [tree] timestamp is read through float(); the whole-tree round trip is stated for |timestamp| <= 2^53")
    run.note("proved: flat sections (layout, round trip) and the whole-tree write/read cycle TreeInfo.serialize -> TreeInfo.deserialize on the shape "
             "{top-level variant of any type, plain or dashed UID, one child of any type, one image table, one checksum, stage2, media} with every value "
             "symbolic (section naming by type, platforms incl. arch, option-name case, integer timestamp); more variants / platforms / path kinds and "
             "the text layer (ConfigParser.write/read_file, byte-identical second dump) are covered by the bounded stand-in.  .discinfo: the "
             "line-list writer/reader pair is proved for 'ALL' and for 1 or 2 non-negative disc numbers (all values symbolic), second write identical; "
             "longer disc lists and build_file/parse_file are covered by the bounded stand-in")


TREE_SCRIPT = r'''
from pyvc.source import Source
from bounded import gen
import props.C04 as P
src = Source(os.environ.get("VERIF_REPO", "/repo")); mods = src.import_native()
ti = P.make_tree(mods, %(seed)d)
try:
    s = ti.dumps()
except Exception as ex:
    REPRODUCED("a valid tree (seed %(seed)d) is refused by dumps(): %%r" %% (ex,))
t2 = mods["treeinfo"].TreeInfo()
try:
    t2.loads(s)
except Exception as ex:
    print(s)
    REPRODUCED("the library cannot re-read the .treeinfo it wrote (seed %(seed)d): %%r" %% (ex,))
a, b = gen.view_treeinfo(ti), gen.view_treeinfo(t2)
if a != b:
    print("written :", a); print("re-read :", b)
    REPRODUCED("content differs after a write/read cycle (seed %(seed)d)")
if t2.dumps() != s: REPRODUCED("second dump differs from the first (seed %(seed)d)")
NOT_REPRODUCED()
'''


def make_tree(mods, seed):
    g = gen.G(mods, seed)
    ti = g.treeinfo(child_types=("addon", "optional", "variant"))
    r = g.rng
    # text representable in the file syntax may contain '%' and mixed case
    if r.random() < 0.25:
        ti.release.name = r.choice(["Fedora 100%", "50%% off", "a%b", "%(x)s"])
    return ti


def trees(run, c, n):
    t0 = time.time()
    fails = []
    distinct = set()
    for i in range(n):
        seed = run.seed * 1000003 + i
        ti = make_tree(c.mods, seed)
        try:
            s = ti.dumps()
            t2 = c.mods["treeinfo"].TreeInfo()
            t2.loads(s)
            distinct.add(s)
            if gen.view_treeinfo(ti) != gen.view_treeinfo(t2):
                fails.append((seed, "content differs after reload"))
            elif t2.dumps() != s:
                fails.append((seed, "second dump differs"))
        except Exception as ex:
            fails.append((seed, "exception %r" % (ex,)))
    run.add_bounded("treeinfo dumps/loads", "random valid trees, view equality + byte-identical second dump",
                    "1-3 top-level variants, dashed UIDs, 0-2 children of every type, any subset of the 7 path kinds, 0-2 platforms, binary and src trees, "
                    "layered releases, optional stage2/media/checksums, text with '%%' and mixed case, integer timestamps; %d seeds" % n,
                    n, fails, nontrivial=len(distinct), seconds=time.time() - t0)
    if fails:
        seed, what = fails[0]
        run.violation("bounded:treeinfo.roundtrip", "write/read cycle preserves content", "treeinfo seed %d: %s" % (seed, what),
                      TREE_SCRIPT % {"seed": seed})
