"""C07 -- Documents violating a documented constraint are rejected on load."""
from pyvc import verify
from bounded import corrupt
from .common import ctx, std, contract_samples
from .C06 import KINDS


def check(run):
    c = ctx(run)
    std(run)
    # hdr.* : version syntax and numeric tuple
    verify.verify(run, c.E, c.contracts["prop:common.Header.version_tuple"])
    for k in ("de:common.Header", "de:treeinfo.Header"):
        verify.verify(run, c.E, c.contracts[k])
    # the reader contracts below use `X.validate() returns iff valid_X` at their call sites
    # (a weakened validator breaks C07 as much as C06: a corrupted document then loads), so every validator contract is part of
    # this check too
    for k in sorted(c.contracts):
        if k.startswith("valid:"):
            saved = None
            con = c.contracts[k]
            if hasattr(con, "key_cls"):
                saved = c.E.summaries.pop((con.key_cls, "validate"), None)
            verify.verify(run, c.E, con, crosscheck=False)
            if saved:
                c.E.summaries[(con.key_cls, "validate")] = saved
    # de.valid.X / de.required.X : a reader returns normally only with the required keys and a valid object
    for k in sorted(c.contracts):
        if k.startswith("de:") and "Header" not in k:
            verify.verify(run, c.E, c.contracts[k])
    for k in ("io:common.MetadataBase.loads.validates", "io:common.MetadataBase.load"):
        if k in c.contracts:
            verify.verify(run, c.E, c.contracts[k])
    contract_samples(run, c, ["de:treeinfo.BaseProduct", "de:treeinfo.Release", "de:treeinfo.Stage2", "de:treeinfo.Media"])
    nobj = 6 if run.tier == "quick" else 60
    per = 250 if run.tier == "quick" else 2000
    for kind in KINDS:
        fails = corrupt.load_side(run, c.mods, kind, nobj, per_obj=per)
        if fails:
            corrupt.load_violation(run, kind, fails[0])
    run.note("readers that coerce (int(), bool(), .lower(), `or None`) make some out-of-domain document values in-domain; the oracle is "
             "about the returned object (second sentence of the statement), so these are not violations")
    run.note("proved: header version handling, the flat section readers, the image record reader (each of its 15 fields corrupted or "
             "deleted, one at a time) and the composeinfo variant record reader incl. the release embedded in a layered-product variant "
             "(each field corrupted); treeinfo sections, discinfo and whole-document loads are exercised by the bounded one-corruption "
             "enumeration")
