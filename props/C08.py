"""C08 -- Serialisation is canonical: output depends on content only."""
import hashlib
import json
import os
import subprocess
import sys
import time

from pyvc import verify
from bounded import gen
from .common import ctx, std, contract_samples, json_args_obligation, history_samples

KINDS = ["composeinfo", "images", "rpms", "modules", "extra_files", "treeinfo"]

SEED_SCRIPT = r'''
import subprocess, sys
from pyvc.report import VERIF
repo = os.environ.get("VERIF_REPO", "/repo")
outs = {}
for hs in %(hashseeds)r:
    env = dict(os.environ, PYTHONHASHSEED=str(hs), PYTHONPATH=VERIF)
    p = subprocess.run([sys.executable, "-B", "-m", "props.C08", repo, %(kind)r, str(%(seed)d), str(%(shuffle)d)], env=env, capture_output=True, text=True, cwd=VERIF)
    outs[hs] = p.stdout.strip()
    print("PYTHONHASHSEED=%%s shuffle=%(shuffle)d -> sha256 %%s" %% (hs, outs[hs][:16]))
p = subprocess.run([sys.executable, "-B", "-m", "props.C08", repo, %(kind)r, str(%(seed)d), "0"], env=dict(os.environ, PYTHONHASHSEED="0", PYTHONPATH=VERIF), capture_output=True, text=True, cwd=VERIF)
print("reference construction order -> sha256 %%s" %% p.stdout.strip()[:16])
if any(o.startswith("REPEAT-") for o in list(outs.values()) + [p.stdout.strip()]): REPRODUCED("repeated dumps() of the same %(kind)s object produce different bytes")
if len(set(outs.values()) | set([p.stdout.strip()])) > 1: REPRODUCED("dumps() bytes of the same %(kind)s content differ across hash seeds / construction orders / repeated dumps")
NOT_REPRODUCED()
'''


def build(mods, kind, seed, shuffle):
    """the same content, constructed in a permuted order (shuffle != 0) of its unordered parts"""
    import random
    obj = getattr(gen.G(mods, seed), kind)()
    obj = obj[0] if isinstance(obj, tuple) else obj
    if kind == "composeinfo":
        # a caller may have left is_layered False on the release of a layered-product variant; the writer forces it -- every dump alike
        def unset(cont):
            for v in cont.variants.values():
                if v.type == "layered-product":
                    v.release.is_layered = False
                unset(v)
        unset(obj.variants)
    if shuffle:
        r = random.Random(shuffle * 7919 + seed)

        def reorder(d):
            items = list(d.items())
            r.shuffle(items)
            d.clear()
            for k, v in items:
                d[k] = v
        def walk_variants(cont):
            reorder(cont.variants)
            for v in cont.variants.values():
                if hasattr(v, "arches") and isinstance(v.arches, set):
                    a = list(v.arches)
                    r.shuffle(a)
                    v.arches = set(a)
                if hasattr(v.paths, "_fields") and kind == "composeinfo":
                    for f in v.paths._fields:
                        reorder(getattr(v.paths, f))
                walk_variants(v)
        if kind in ("composeinfo", "treeinfo"):
            walk_variants(obj.variants)
        if kind == "images":
            reorder(obj.images)
            for v in obj.images:
                reorder(obj.images[v])
                for a in obj.images[v]:
                    l = list(obj.images[v][a])
                    r.shuffle(l)
                    obj.images[v][a] = set(l)
                    for im in l:
                        reorder(im.checksums)
        if kind in ("rpms", "modules", "extra_files"):
            top = getattr(obj, kind)
            reorder(top)
            for v in top:
                reorder(top[v])
                for a in top[v]:
                    if isinstance(top[v][a], dict):
                        reorder(top[v][a])
                        for k in top[v][a]:
                            if isinstance(top[v][a][k], dict):
                                reorder(top[v][a][k])
        if kind == "treeinfo":
            p = list(obj.tree.platforms)
            r.shuffle(p)
            obj.tree.platforms = set(p)
            reorder(obj.images.images)
            for pl in obj.images.images:
                reorder(obj.images.images[pl])
            reorder(obj.checksums.checksums)
    return obj


def digest(mods, kind, seed, shuffle):
    obj = build(mods, kind, seed, shuffle)
    first = obj.dumps()
    second = obj.dumps()          # repeated dumps
    third = obj.dumps()
    h = hashlib.sha256((first + "\x00" + second + "\x00" + third).encode()).hexdigest()
    if not (first == second == third):
        h = "REPEAT-" + h
    return h


def check(run):
    c = ctx(run)
    std(run)
    json_args_obligation(run, c, "canon.json_args")
    # canon.ini: sections and options sorted, case kept
    with run.obligation("common.SortedDict/SortedConfigParser#canon.ini", "conc", ["productmd.common.SortedDict", "productmd.common.SortedConfigParser",
                                                                                 "productmd.treeinfo.TreeInfo._get_parser"]) as ob:
        C = c.mods["common"]
        d = C.SortedDict()
        for k in ("b", "C", "a", "B"):
            d[k] = k
        ti = c.mods["treeinfo"].TreeInfo()
        p = ti._get_parser()
        ok = (list(d) == sorted(d.keys()) == ["B", "C", "a", "b"] and [k for k, v in d.items()] == ["B", "C", "a", "b"] and
              list(d.itervalues()) == ["B", "C", "a", "b"] and isinstance(p, C.SortedConfigParser) and p._dict is C.SortedDict and
              p.optionxform("MiXed") == "MiXed")
        if ok:
            ob.discharged()
        else:
            ob.refuted("SortedDict does not iterate in sorted key order / the treeinfo parser is not a case-preserving SortedConfigParser",
                       clause="canon.ini", replay_script="import productmd.common as C, productmd.treeinfo as T\nd=C.SortedDict()\n"
                       "for k in ('b','C','a','B'): d[k]=k\np=T.TreeInfo()._get_parser()\n"
                       "ok = list(d)==['B','C','a','b'] and [k for k,v in d.items()]==['B','C','a','b'] and p._dict is C.SortedDict and p.optionxform('MiXed')=='MiXed'\n"
                       "if not ok: REPRODUCED('sections/options are not sorted or case is folded')\nNOT_REPRODUCED()\n")
    for k in ("canon:composeinfo.Variant", "canon:treeinfo.Variant") + (("canon:images.Images",) if run.tier == "thorough" or True else ()):
        verify.verify(run, c.E, c.contracts[k], crosscheck=False)
    # (the two variants are inserted in a fixed order while their names are symbolic, so "first in SORTED order" below is a statement
    # about every insertion order: a main variant picked by insertion order fails `variant_is_requested_or_first`)
    verify.verify(run, c.E, c.contracts["gen:flat:2:0"], only=("variants_lists_sorted_top_level", "tree_variants_option_sorted_like_general",
                                                               "arch_platforms_mirror_tree", "variant_is_requested_or_first", "keeps_no_state_between_calls"), crosscheck=False)
    verify.verify(run, c.E, c.contracts["gen:paths-pkg:2:0"], only=("variant_is_requested_or_first", "packagedir_repository_of_main_variant", "keeps_no_state_between_calls"),
                  crosscheck=False)
    contract_samples(run, c, ["canon:images.Images"])
    # canon.repeat: writers leave the object's content unchanged (so the n-th dump equals the first)
    for k in ("ser:composeinfo.Compose", "ser:composeinfo.Release", "ser:images.Image", "ser:treeinfo.Release", "ser:treeinfo.Media"):
        verify.verify(run, c.E, c.contracts[k], only=("object_unchanged", "keeps_no_state_between_calls"), crosscheck=False)
    # normalisations are applied by the FIRST dump (a layered-product variant's release is written as layered whatever the caller left)
    verify.verify(run, c.E, c.contracts["rt:composeinfo.Variants:1"], only=("layered_product_release_written_as_layered",
                                                                           "only_nonempty_paths_of_own_arches_written"), crosscheck=False)
    hashseeds(run, c)
    history_samples(run, c, [k for k in sorted(c.contracts) if k.startswith("gen:")])
    run.assume("A1: json.dump with sort_keys=True is independent of dict insertion order; A2: ConfigParser.write emits in the dict_type's order")
    run.note("sorted-output clauses are proved for collections of TWO symbolic elements under every iteration/insertion order (bounded in size, "
             "unbounded in values); larger collections, hash seeds and repeated dumps: bounded stand-in in separate interpreter processes")
    run.note("caller-ordered lists (extra-file entries, a module's RPM list, additional_variants, disc numbers) are content and keep their order")


def hashseeds(run, c):
    t0 = time.time()
    fails = []
    n = 0
    nseeds = 3 if run.tier == "quick" else 12
    hs_list = [0, 1, 7, 42, 12345][: (3 if run.tier == "quick" else 5)]
    env0 = dict(os.environ, PYTHONPATH=os.path.dirname(os.path.dirname(os.path.abspath(__file__))))
    jobs = []
    for kind in KINDS:
        for i in range(nseeds):
            seed = run.seed * 101 + i + 1
            for j, hs in enumerate(hs_list):
                jobs.append((kind, seed, hs, j))      # shuffle index = j (0 = reference order)
    from concurrent.futures import ThreadPoolExecutor

    def one(job):
        kind, seed, hs, sh = job
        p = subprocess.run([sys.executable, "-B", "-m", "props.C08", run.repo, kind, str(seed), str(sh)],
                           env=dict(env0, PYTHONHASHSEED=str(hs)), capture_output=True, text=True, cwd=env0["PYTHONPATH"])
        return job, p.stdout.strip(), p.stderr[-300:]
    with ThreadPoolExecutor(max_workers=12) as ex:
        results = list(ex.map(one, jobs))
    by = {}
    for (kind, seed, hs, sh), out, err in results:
        n += 1
        if not out:
            run.notes.append("hash-seed subprocess failed: %s" % err)
            continue
        by.setdefault((kind, seed), []).append((hs, sh, out))
    for (kind, seed), outs in by.items():
        if len(set(o for _, _, o in outs)) > 1 or any(o.startswith("REPEAT-") for _, _, o in outs):
            fails.append((kind, seed, outs))
    run.add_bounded("dumps() across construction orders, PYTHONHASHSEED values and repeated dumps", "separate interpreter processes",
                    "%d formats x %d contents x %d (hash seed, permutation of construction order) pairs, 3 dumps each" % (len(KINDS), nseeds, len(hs_list)),
                    n, fails, seconds=time.time() - t0)
    if fails:
        kind, seed, outs = fails[0]
        sh = [s for _, s, o in outs if o != outs[0][2]] or [outs[0][1]]
        run.violation("bounded:canonical.%s" % kind, "bytes are a function of content", "%s seed %d: %r" % (kind, seed, [(h, s, o[:12]) for h, s, o in outs]),
                      SEED_SCRIPT % {"hashseeds": [h for h, _, _ in outs], "kind": kind, "seed": seed, "shuffle": sh[0]})


if __name__ == "__main__":
    repo, kind, seed, shuffle = sys.argv[1], sys.argv[2], int(sys.argv[3]), int(sys.argv[4])
    sys.path.insert(0, repo)
    from pyvc.source import Source
    src = Source(repo)
    mods = src.import_native()
    print(digest(mods, kind, seed, shuffle))
