"""C17 -- The legacy [general] section mirrors the authoritative sections."""
import configparser
import time

from pyvc import verify
from bounded import gen
from .common import ctx, std, history_samples

QUICK = ["gen:flat:1:0", "gen:flat:2:0", "gen:flat:2:1", "gen:paths-pkg:1:0", "gen:paths-repo:1:1", "gen:paths-pkg:2:0", "gen:paths-repo:2:1"]

GEN_SCRIPT = r'''
from pyvc.source import Source
import props.C17 as P
src = Source(os.environ.get("VERIF_REPO", "/repo")); mods = src.import_native()
ti, mv = P.make(mods, %(seed)d)
bad = P.mirror_errors(ti, mv)
for b in bad: print(b)
if bad: REPRODUCED("[general] does not mirror the authoritative sections (seed %(seed)d, main_variant=%%r)" %% (mv,))
NOT_REPRODUCED()
'''


def make(mods, seed):
    g = gen.G(mods, seed)
    ti = g.treeinfo(child_types=("addon", "optional", "variant"))
    r = g.rng
    if r.random() < 0.4:
        ti.tree.build_timestamp = r.choice([1417653911.7, 1432300000.0, 2.0 ** 31 + 0.5, 12.25])
    tops = sorted(ti.variants.variants)
    # top-level variants added in non-alphabetical order
    if r.random() < 0.5 and len(tops) > 1:
        items = list(ti.variants.variants.items())
        r.shuffle(items)
        ti.variants.variants.clear()
        for k, v in items:
            ti.variants.variants[k] = v
    mv = r.choice([None, None] + tops)
    for k in tops:
        v = ti.variants.variants[k]
        if r.random() < 0.5:
            v.paths.packages = r.choice([None, "Packages", "p/%s" % k])
            v.paths.repository = r.choice([None, ".", "r/%s" % k])
        if ti.tree.arch == "src":
            v.paths.source_packages = r.choice([None, "SRPMS/%s" % k])
            v.paths.source_repository = r.choice([None, "srepo/%s" % k])
    return ti, mv


def mirror_errors(ti, mv):
    import io
    f = io.StringIO()
    ti.dump(f, main_variant=mv)
    p = configparser.RawConfigParser()           # independent INI reader
    p.optionxform = str
    p.read_string(f.getvalue())
    g = dict(p.items("general"))
    out = []

    def exp(k, v):
        if g.get(k) != v:
            out.append("[general] %s = %r, expected %r" % (k, g.get(k), v))
    exp("family", p.get("release", "name"))
    exp("version", p.get("release", "version"))
    exp("name", "%s %s" % (p.get("release", "name"), p.get("release", "version")))
    exp("arch", p.get("tree", "arch"))
    exp("platforms", p.get("tree", "platforms"))
    exp("timestamp", str(int(ti.tree.build_timestamp)))
    tops = sorted(ti.variants.variants)
    exp("variants", ",".join(tops))
    main = mv if mv is not None else tops[0]
    exp("variant", main)
    v = ti.variants.variants[main]
    sec = "addon-%s" % v.uid if v.type == "addon" else "variant-%s" % v.uid
    opts = dict(p.items(sec))
    src = p.get("tree", "arch") == "src"
    exp("packagedir", opts.get("packages", opts.get("source_packages") if src else None))
    exp("repository", opts.get("repository", opts.get("source_repository") if src else None))
    return out


def check(run):
    c = ctx(run)
    std(run)
    keys = QUICK if run.tier == "quick" else sorted(k for k in c.contracts if k.startswith("gen:"))
    for k in keys:
        verify.verify(run, c.E, c.contracts[k], crosscheck=False)
    verify.verify(run, c.E, c.contracts["io:treeinfo.TreeInfo.dump"], only=("serialises_before_writing",
                                                                           "writes_serialised_data_to_destination"))
    with run.obligation("treeinfo.TreeInfo.dump#main_variant_passed_through", "ast", ["productmd.treeinfo.TreeInfo.dump",
                                                                                      "productmd.treeinfo.TreeInfo.serialize"]) as ob:
        import ast
        ci = c.src.classes[("treeinfo", "TreeInfo")]
        ok1 = any(isinstance(n, ast.Call) and ast.unparse(n.func) == "self.serialize" and
                  any(k.arg == "main_variant" and ast.unparse(k.value) == "main_variant" for k in n.keywords)
                  for n in ast.walk(ci.methods["dump"]))
        ok2 = any(isinstance(n, ast.Call) and ast.unparse(n.func).endswith(".serialize") and
                  any(k.arg == "main_variant" and ast.unparse(k.value) == "main_variant" for k in n.keywords)
                  for n in ast.walk(ci.methods["serialize"]))
        if ok1 and ok2:
            ob.discharged()
        else:
            ob.undecided("main_variant is not handed through dump -> serialize -> General.serialize by keyword")
    n = 300 if run.tier == "quick" else 5000
    t0 = time.time()
    fails = []
    for i in range(n):
        seed = run.seed * 1000003 + i
        ti, mv = make(c.mods, seed)
        try:
            bad = mirror_errors(ti, mv)
        except Exception as ex:
            bad = ["exception %r" % (ex,)]
        if bad:
            fails.append((seed, bad[0]))
    run.add_bounded("TreeInfo.dump -> [general]", "random trees, sections parsed by an independent INI reader",
                    "1-3 top-level variants in shuffled insertion order, every choice of main variant, binary and src trees, variants with and "
                    "without packages/repository/source paths, float and integer timestamps, extra platforms; %d seeds" % n, n, fails,
                    seconds=time.time() - t0)
    if fails:
        seed, what = fails[0]
        run.violation("bounded:general.mirror", "[general] mirrors [release]/[tree]/[variant-*]", "seed %d: %s" % (seed, what),
                      GEN_SCRIPT % {"seed": seed})
    history_samples(run, c, [k for k in sorted(c.contracts) if k.startswith("gen:")])
    run.assume("A2 (ConfigParser set/get/write), A5 (str(int(x)))")
    run.note("proved for trees with 1 or 2 top-level variants and one extra platform (symbolic names, paths, arch, timestamp): bounded in the "
             "NUMBER of variants/platforms, unbounded in every value; more variants, float timestamps: bounded stand-in")
    run.note("precondition: at least one top-level variant (a tree without variants makes General.serialize fail with IndexError; see C05/C06 notes)")
