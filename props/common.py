"""Shared set-up for property modules."""
import random

from pyvc.source import Source
from pyvc.engine import Engine
from spec import fields as F

_ctx = {}


class Ctx(object):
    def __init__(self, run):
        self.run = run
        self.src = Source(run.repo)
        self.mods = self.src.import_native()
        self.T = F.Tables(self.mods)
        self.E = Engine(self.src)
        self.E.lower_hints = list(self.T.RELEASE_TYPES)
        self.rng = random.Random(run.seed)
        import contracts
        self.contracts = contracts.all_contracts(self.src)
        self.E.summaries.update(contracts.all_summaries(self.src))
        from contracts import sections
        sections.install_valid_summaries(self.E, self.src, self.T)


def ctx(run):
    if id(run) not in _ctx:
        _ctx[id(run)] = Ctx(run)
    return _ctx[id(run)]


STD_TRUST = [
    "pyvc: the encoding of Python semantics in pyvc/engine.py + pyvc/models.py (validated on every run by replaying a "
    "solver witness of every explored path natively in CPython and comparing outcomes)",
    "SMT solvers z3 5.1 / z3 4.8.12 / cvc5 1.0.3 (unsat answers are trusted)",
    "CPython 3.12 and its re/json/configparser/hashlib/os modules",
]
STD_ASSUME = [
    "S1: strings range over code points < 128 plus one representative non-ASCII code point; \\d, str.lower, str.strip have "
    "their ASCII meaning (Unicode digits/whitespace/case mapping are not modelled)",
    "M1: the text of exception messages is not executed (assumed not to raise)",
    "termination is not proved",
]


def std(run):
    for t in STD_TRUST:
        run.trust(t)
    for a in STD_ASSUME:
        run.assume(a)
