"""Shared set-up for property modules."""
import random

from pyvc.source import Source
from pyvc.engine import Engine
from pyvc import anycoll   # noqa: F401  (installs the witness rule for loops over unbounded collections; must precede Engine())
from spec import fields as F

_ctx = {}


class Ctx(object):
    def __init__(self, run):
        self.run = run
        self.src = Source(run.repo)
        self.mods = self.src.import_native()
        self.T = F.Tables(self.mods)
        self.E = Engine(self.src)
        self.E.explore_budget_s = 300 if run.tier == "quick" else 1500
        self.E.explore_total_budget_s = 400 if run.tier == "quick" else 6000
        from pyvc import effects, anycoll   # noqa: F401  (anycoll installs the witness rule for loops over unbounded collections)
        effects.install(self.E)
        self.E.lower_hints = list(self.T.RELEASE_TYPES)
        self.rng = random.Random(run.seed)
        import contracts
        self.contracts = contracts.all_contracts(self.src)
        self.E.summaries.update(contracts.all_summaries(self.src))
        from contracts import sections
        sections.install_valid_summaries(self.E, self.src, self.T)


def ctx(run):
    if id(run) not in _ctx:
        _ctx[id(run)] = Ctx(run)
    return _ctx[id(run)]


STD_TRUST = [
    "pyvc: the encoding of Python semantics in pyvc/engine.py + pyvc/models.py (validated on every run by replaying a "
    "solver witness of every explored path natively in CPython and comparing outcomes)",
    "SMT solvers z3 5.1 / z3 4.8.12 / cvc5 1.0.3 (unsat answers are trusted)",
    "CPython 3.12 and its re/json/configparser/hashlib/os modules",
]
STD_ASSUME = [
    "S1: strings range over code points < 128 plus one representative non-ASCII code point; \\d, str.lower, str.strip have "
    "their ASCII meaning (Unicode digits/whitespace/case mapping are not modelled)",
    "M1: the text of exception messages is not executed (assumed not to raise)",
    "termination is not proved",
]


def std(run):
    for t in STD_TRUST:
        run.trust(t)
    for a in STD_ASSUME:
        run.assume(a)


def json_args_obligation(run, c, prop_tag="canon.json_args"):
    """AST clause: MetadataBase.build_file hands the serialised dict to json.dump with indent=4, sort_keys=True and
    (",", ": ") separators; no JSON class overrides build_file with something else (A1 then makes the bytes canonical)."""
    import ast
    with run.obligation("common.MetadataBase.build_file#%s" % prop_tag, "ast", ["productmd.common.MetadataBase.build_file"]) as ob:
        fn = c.src.classes[("common", "MetadataBase")].methods.get("build_file")
        ok = False
        why = "json.dump call not found"
        if fn is not None:
            for n in ast.walk(fn):
                if isinstance(n, ast.Call) and ast.unparse(n.func) == "json.dump":
                    kw = dict((k.arg, ast.unparse(k.value)) for k in n.keywords)
                    args = [ast.unparse(a) for a in n.args]
                    params = [a.arg for a in fn.args.args]
                    ok = (len(args) >= 2 and args[0] == params[1] and args[1] == params[2] and kw.get("indent") == "4"
                          and kw.get("sort_keys") == "True" and kw.get("separators") in ("(',', ': ')", '(",", ": ")'))
                    why = "json.dump(%s, %s)" % (", ".join(args), ", ".join("%s=%s" % i for i in sorted(kw.items())))
        over = [k for k, ci in c.src.classes.items() if "build_file" in ci.methods and k not in
                (("common", "MetadataBase"), ("treeinfo", "TreeInfo"), ("discinfo", "DiscInfo"))]
        if ok and not over:
            ob.discharged(note=why)
        else:
            ob.refuted("build_file does not call json.dump(parser, f, indent=4, sort_keys=True, separators=(',', ': ')): %s %s"
                       % (why, over), clause=prop_tag,
                       replay_script="import io\nimport productmd.rpms as R\nm=R.Rpms(); m.compose.id='F-1-20200101.0'; m.compose.type='production'\n"
                       "m.compose.date='20200101'; m.compose.respin=0\nm.rpms={'b':{'x86_64':{}},'a':{'x86_64':{}}}\ns=m.dumps()\nimport json\n"
                       "exp=json.dumps(json.loads(s), indent=4, sort_keys=True, separators=(',', ': '))\n"
                       "if s != exp: REPRODUCED('dumps() output is not json with sorted keys and 4-space indentation')\nNOT_REPRODUCED()\n")


def contract_samples(run, c, keys, limit=None):
    """bounded stand-in shared by several properties: every sample input of a contract through the REAL function, all
    clauses evaluated natively"""
    import random
    import time
    for k in keys:
        con = c.contracts[k]
        gen = getattr(con, "sample_inputs", None)
        if gen is None:
            continue
        t0 = time.time()
        n = 0
        fails = []
        for inputs in gen(random.Random(run.seed)):
            if limit and n >= limit:
                break
            n += 1
            try:
                nat, cl = con.native_eval(inputs)
            except Exception as ex:
                continue
            bad = [x for x, v in cl.items() if v is False]
            if bad:
                fails.append((inputs, bad[0], nat))
        run.add_bounded(con.name, "contract clauses evaluated natively on sample inputs", "sample_inputs() of the contract (valid and invalid "
                        "values of every parameter)", n, fails, seconds=time.time() - t0)
        if fails:
            inputs, clause, nat = fails[0]
            run.violation("bounded:%s#%s" % (con.name, clause), clause, "%s violates clause '%s'" % (con.describe(inputs), clause),
                          con.replay_script(inputs, clause))


def history_samples(run, c, keys, what="call histories on one object / in one interpreter"):
    """bounded stand-in: the native history harness of each contract (same object used twice, state changed in between, file rewritten in
    place ...) run on the tree as it is -- also when the frame obligation keeps_no_state_between_calls sees nothing to look into"""
    import time
    t0 = time.time()
    n = 0
    fails = []
    for k in keys:
        con = c.contracts.get(k)
        hs = getattr(con, "history_search", None) if con is not None else None
        if hs is None:
            continue
        n += 1
        try:
            found = hs(run)
        except Exception:
            continue
        if found:
            fails.append((con, found))
    run.add_bounded("history harnesses of %d contracts" % n, what, "each contract's history_search() (repeated calls, in-place changes between calls)",
                    n, [f[1][1] for f in fails], seconds=time.time() - t0)
    for con, (clause, desc, script) in fails[:2]:
        run.violation("bounded:history:%s" % con.name, clause, desc, script)
