"""C10 -- Source content is always filed under binary architectures."""
import json
import time

from pyvc import verify
from contracts import imagesadd as IA
from bounded import legacy
from .common import ctx, std, contract_samples

SRC = ("src", "nosrc")


def check(run):
    c = ctx(run)
    std(run)
    arch_clauses = ("accepts_only_binary_known_arch", "refuses_with_ValueError", "refusal_changes_nothing", "refuses_only_bad_arch_or_identity_clash",
                    "image_filed_in_addressed_cell", "every_other_cell_unchanged")
    verify.verify(run, c.E, c.contracts["meth:images.Images.add:any"], only=arch_clauses + ("nothing_else_written",), crosscheck=False)
    verify.verify(run, c.E, c.contracts["meth:images.Images.add:0"], only=arch_clauses, crosscheck=False)
    verify.verify(run, c.E, c.contracts["meth:images.Images.add:1"], only=arch_clauses, crosscheck=False)
    verify.verify(run, c.E, c.contracts["meth:rpms.Rpms.add"], only=("accepts_only_documented_cases", "refuses_with_ValueError_or_TypeError",
                                                                    "refusal_changes_nothing", "every_other_entry_unchanged",
                                                                    "entry_filed_under_canonical_keys"))
    verify.verify(run, c.E, c.contracts["meth:images.Images._add_1_1"], crosscheck=False)
    verify.verify(run, c.E, c.contracts["gate:images.Images.deserialize:any"], crosscheck=False)
    # ... and for a variant listing ANY number of arches (witness rule; add() is the recorded callee contract)
    verify.verify(run, c.E, c.contracts["meth:images.Images._add_1_1:any"], crosscheck=False)
    verify.verify(run, c.E, c.contracts["meth:rpms.Rpms.deserialize_0_3"])
    verify.verify(run, c.E, c.contracts["meth:rpms.Rpms.deserialize_0_3:2v"])
    # ... and on a legacy document of ARBITRARY size (witness rule over the four nested loops, add() recorded)
    verify.verify(run, c.E, c.contracts["meth:rpms.Rpms.deserialize_0_3:any"], crosscheck=False)
    verify.verify(run, c.E, c.contracts["gate:images.Images.deserialize"])
    IA.ast_only_writer(run, c.src, "images", "Images", "images", ["add"])
    IA.ast_only_writer(run, c.src, "rpms", "Rpms", "rpms", ["add", "deserialize_0_3", "deserialize_1_0"])
    with run.obligation("common.RPM_ARCHES#table_contains_documented_arches", "conc", ["productmd.common.RPM_ARCHES"]) as ob:
        need = ["x86_64", "i386", "i686", "ppc64le", "aarch64", "s390x", "noarch", "src", "nosrc", "armhfp", "ppc64", "riscv64"]
        missing = [a for a in need if a not in c.T.RPM_ARCHES]
        if missing:
            ob.refuted("architectures missing from RPM_ARCHES: %r" % missing, clause="table",
                       replay_script="import productmd.common as C\nm=[a for a in %r if a not in C.RPM_ARCHES]\nif m: REPRODUCED(m)\nNOT_REPRODUCED()\n" % need)
        else:
            ob.discharged()
    contract_samples(run, c, ["meth:images.Images.add:1", "meth:rpms.Rpms.add"], limit=1500 if run.tier == "quick" else None)
    images_docs(run, c)
    rpms_docs(run, c)
    run.note("Rpms.deserialize_1_0 stores the payload verbatim and is outside the claim (as the statement says); the 0.3 reader is proved on a "
             "legacy document with two binary arches sharing one source RPM ('src' first or last, all values symbolic): bounded in the number "
             "of arches/records; its per-entry effect is the Rpms.add contract")
    run.note("_add_1_1 is proved for a document variant with arches {src, A, B} (A, B symbolic): bounded in the number of arches")


IMG_SCRIPT = r'''
import json
from pyvc.source import Source
from bounded import legacy
src = Source(os.environ.get("VERIF_REPO", "/repo")); mods = src.import_native()
text, exp, doc = legacy.images_legacy(mods, %(seed)d, %(version)r)
m = mods["images"].Images()
try:
    m.loads(text)
except Exception as ex:
    REPRODUCED("an images %(version)s document with a 'src' tree arch next to binary arches is not converted: %%r" %% (ex,))
bad = [a for v in m.images for a in m.images[v] if a in ("src", "nosrc") or a not in mods["common"].RPM_ARCHES]
if bad: REPRODUCED("tree architectures %%r after load" %% bad)
for v, paths in exp.items():
    bins = [a for a in doc["payload"]["images"][v] if a != "src"]
    for a in bins:
        have = set(i.path for i in m.images.get(v, {}).get(a, ()))
        if not set(paths) <= have: REPRODUCED("source images %%r of variant %%s are not re-filed under %%s" %% (sorted(set(paths) - have), v, a))
out = json.loads(m.dumps())
if any(a in ("src", "nosrc") for v in out["payload"]["images"] for a in out["payload"]["images"][v]): REPRODUCED("written payload has a source arch key")
NOT_REPRODUCED()
'''


def images_docs(run, c):
    t0 = time.time()
    n = 0
    fails = []
    for version in ("1.0", "1.1"):
        for i in range(60 if run.tier == "quick" else 800):
            seed = run.seed * 977 + i
            text, exp, doc = legacy.images_legacy(c.mods, seed, version)
            n += 1
            m = c.mods["images"].Images()
            try:
                m.loads(text)
            except Exception as ex:
                # a variant with only a 'src' entry has nowhere to be re-filed: outside the claim
                if all(len([a for a in arches if a != "src"]) > 0 or "src" not in arches for arches in doc["payload"]["images"].values()):
                    fails.append((seed, version, "load failed: %r" % (ex,)))
                continue
            bad = [a for v in m.images for a in m.images[v] if a in SRC or a not in c.T.RPM_ARCHES]
            ok = not bad
            for v, paths in exp.items():
                for a in [a for a in doc["payload"]["images"][v] if a != "src"]:
                    have = set(im.path for im in m.images.get(v, {}).get(a, ()))
                    ok = ok and set(paths) <= have
            out = json.loads(m.dumps())
            ok = ok and not any(a in SRC for v in out["payload"]["images"] for a in out["payload"]["images"][v])
            if not ok:
                fails.append((seed, version, "src images not re-filed under every binary arch / source arch key present"))
    run.add_bounded("Images.loads of 1.0/1.1 documents with a 'src' tree arch", "down-converted random manifests",
                    "random manifests, one cell per variant moved under 'src'; versions 1.0 and 1.1", n, fails, seconds=time.time() - t0)
    if fails:
        seed, version, what = fails[0]
        run.violation("bounded:images.src_refile", "source images re-filed under binary arches", "seed %d version %s: %s" % (seed, version, what),
                      IMG_SCRIPT % {"seed": seed, "version": version})


RPM_SCRIPT = r'''
import json
from pyvc.source import Source
from bounded import legacy
import props.C10 as P
src = Source(os.environ.get("VERIF_REPO", "/repo")); mods = src.import_native()
text, doc = legacy.rpms_03(mods, %(seed)d)
err = P.rpms03_errors(mods, text, doc)
for e in err: print(e)
if err: REPRODUCED("rpms 0.3 manifest is not converted as documented (seed %(seed)d)")
NOT_REPRODUCED()
'''


def rpms03_errors(mods, text, doc):
    m = mods["rpms"].Rpms()
    try:
        m.loads(text)
    except Exception as ex:
        return ["load failed: %r" % (ex,)]
    pat = mods["common"].RPM_NVRA_RE

    def canon(s):
        d = pat.match(s).groupdict()
        return "%s-%d:%s-%s.%s" % (d["name"], int(d["epoch"] or 0), d["version"], d["release"], d["arch"])
    exp = {}
    for v, arches in doc["payload"]["manifest"].items():
        for a, srpms in arches.items():
            if a == "src":
                continue
            for s, rpms in srpms.items():
                for r_, rd in rpms.items():
                    exp.setdefault(v, {}).setdefault(a, {}).setdefault(canon(s), {})[canon(r_)] = {
                        "sigkey": None if rd["sigkey"] is None else rd["sigkey"].lower(), "path": rd["path"],
                        "category": "binary" if rd["type"] == "package" else rd["type"]}
                sd = arches and doc["payload"]["manifest"][v].get("src", {}).get(s)
                if sd is not None:
                    exp[v][a][canon(s)][canon(s)] = {"sigkey": None if sd["sigkey"] is None else sd["sigkey"].lower(), "path": sd["path"],
                                                     "category": "source"}
    out = []
    if m.rpms != exp:
        out.append("converted manifest differs from the documented mapping")
    if any(a in SRC for v in m.rpms for a in m.rpms[v]):
        out.append("a source arch key is present after conversion")
    written = json.loads(m.dumps())
    if any(a in SRC for v in written["payload"]["rpms"] for a in written["payload"]["rpms"][v]):
        out.append("written payload has a source arch key")
    if written["header"]["version"] != "%d.%d" % tuple(mods["common"].VERSION):
        out.append("written header version %r" % written["header"]["version"])
    return out


def rpms_docs(run, c):
    t0 = time.time()
    n = 0
    fails = []
    for i in range(80 if run.tier == "quick" else 1000):
        seed = run.seed * 991 + i
        text, doc = legacy.rpms_03(c.mods, seed)
        n += 1
        err = rpms03_errors(c.mods, text, doc)
        if err:
            fails.append((seed, err[0]))
    run.add_bounded("Rpms.loads of 0.3 manifests", "random 0.3 manifests vs the documented mapping",
                    "1-3 variants x 1-3 binary arches x 1-3 source packages with 1-3 packages each, with and without a 'src' table", n, fails,
                    seconds=time.time() - t0)
    if fails:
        seed, what = fails[0]
        run.violation("bounded:rpms.03_refile", "0.3 source RPMs re-filed under binary arches", "seed %d: %s" % (seed, what), RPM_SCRIPT % {"seed": seed})
