"""C16 -- Checksums recorded in metadata are the true digests of the right files."""
from pyvc import verify
from .common import ctx, std, contract_samples, history_samples


def check(run):
    c = ctx(run)
    std(run)
    keys = ["fn:treeinfo.compute_checksum", "meth:treeinfo.Checksums.add", "meth:images.Image.add_checksum",
            "ser:treeinfo.Checksums:1", "ser:treeinfo.Checksums:2", "de:treeinfo.Checksums:1"]
    if run.tier == "thorough":
        keys.append("de:treeinfo.Checksums:2")
    for k in keys:
        verify.verify(run, c.E, c.contracts[k])
    # absolute checksum paths are refused for a table of ANY number of entries (witness rule)
    verify.verify(run, c.E, c.contracts["scan:treeinfo.Checksums._validate_checksum_paths"], crosscheck=False)
    # relative-path validator of checksum paths is discovered and run by validate()
    with run.obligation("treeinfo.Checksums.validate#relative_paths_enforced", "conc+ast", ["productmd.treeinfo.Checksums.validate"]) as ob:
        names = c.src.validators(("treeinfo", "Checksums"))
        ok, real = c.src.crosscheck_validators(("treeinfo", "Checksums"))
        import ast
        ci = c.src.classes[("treeinfo", "Checksums")]
        checks = [n for n in names if any(isinstance(x, ast.Call) and ast.unparse(x.func).endswith(".startswith") and
                                          x.args and isinstance(x.args[0], ast.Constant) and x.args[0].value == "/"
                                          for x in ast.walk(ci.methods[n]))] if all(n in ci.methods for n in names) else []
        if ok and checks:
            ob.discharged(note="validate() runs %s" % ", ".join(checks))
        else:
            ob.refuted("no _validate* method of treeinfo.Checksums rejects paths starting with '/' (validators: %r)" % (names,),
                       clause="sum.relpath",
                       replay_script="import productmd.treeinfo as T\nti=T.TreeInfo()\nti.checksums.checksums['/abs/x']=('md5','0'*32)\n"
                       "try:\n ti.checksums.validate()\nexcept ValueError: NOT_REPRODUCED('refused')\n"
                       "REPRODUCED('an absolute checksum path passes Checksums.validate()')\n")
    contract_samples(run, c, ["fn:treeinfo.compute_checksum", "meth:treeinfo.Checksums.add", "meth:images.Image.add_checksum",
                              "de:treeinfo.Checksums:1", "de:treeinfo.Checksums:2", "ser:treeinfo.Checksums:2"])
    history_samples(run, c, ["fn:treeinfo.compute_checksum"])
    run.assume("A3: hashlib.new(t).update/hexdigest digest the concatenation of all updates; read(n) returns the next k <= n bytes, k >= 1 unless at EOF")
    run.assume("A4: os.path.normpath/join as documented (uninterpreted in the proof; cross-checked natively in the bounded runs)")
    run.note("the digest loop is verified by an inductive invariant (fed == content[0:pos]): every file size and every chunking is covered; "
             "termination is not proved")
    run.note("[checksums] reader/writer are proved for sections with 1 (quick) and 2 (thorough) entries of arbitrary content: bounded in the NUMBER "
             "of entries; larger sections are covered by the bounded samples and by C04's random trees")
    run.note("a bare 32/40/64-character checksum is typed by length only; that it consists of hex digits is not checked (INFO, not an obligation)")
