"""C06 -- Only objects meeting every documented field constraint can be written."""
from pyvc import verify
from bounded import corrupt, roundtrip
from contracts import validators
from spec import fields as F
from .common import ctx, std, contract_samples, history_samples

KINDS = ["composeinfo", "images", "rpms", "modules", "extra_files", "treeinfo", "discinfo"]


def check(run):
    c = ctx(run)
    std(run)
    # valid.X : validate() returns iff the documented field rules hold, raises only TypeError/ValueError, changes nothing
    for con in validators.flat_contracts(c.src, c.T):
        with run.obligation("valid.%s.%s#validators_discovered_match_dir" % con.key_cls, "conc", [con.name]) as ob:
            ok, names = c.src.crosscheck_validators(con.key_cls)
            if ok:
                ob.discharged(note=", ".join(names))
            else:
                ob.undecided("static MRO resolution %r differs from dir() %r" % (c.src.validators(con.key_cls), names))
        saved = c.E.summaries.pop((con.key_cls, "validate"), None)
        verify.verify(run, c.E, con)
        if saved:
            c.E.summaries[(con.key_cls, "validate")] = saved
    # container-shaped validators (collections with a stated small number of symbolic elements)
    for k in sorted(c.contracts):
        if k.startswith("valid:") and k.count(":") == 2 or k in ("valid:treeinfo.Images", "valid:treeinfo.Checksums"):
            verify.verify(run, c.E, c.contracts[k])
    verify.verify(run, c.E, c.contracts["ser:composeinfo.Variants:any"], crosscheck=False)
    # the scanning validators on tables of ARBITRARY size (witness rule, pyvc/anycoll.py): every entry, not the first two
    for k in sorted(c.contracts):
        if k.startswith("scan:"):
            verify.verify(run, c.E, c.contracts[k], crosscheck=False)
    contract_samples(run, c, [k for k in sorted(c.contracts) if k.startswith("scan:")])
    # enum.covers : every documented enumeration value is accepted (tables as imported are lower-bounded)
    with run.obligation("enum.documented_values_present", "conc", ["productmd.*.{COMPOSE_TYPES,RELEASE_TYPES,LABEL_NAMES,VARIANT_TYPES,...}"]) as ob:
        missing = []
        for name, vals in F.DOCUMENTED_ENUMS.items():
            have = getattr(c.T, name)
            missing += ["%s:%s" % (name, v) for v in vals if v not in have]
        if missing:
            ob.refuted("documented enumeration values missing: %r" % missing, clause="enum",
                       replay_script="from pyvc.source import Source\nfrom spec import fields as F\n"
                       "src=Source(os.environ.get('VERIF_REPO','/repo')); T=F.Tables(src.import_native())\n"
                       "m=[(n,v) for n,vs in F.DOCUMENTED_ENUMS.items() for v in vs if v not in getattr(T,n)]\n"
                       "if m: REPRODUCED('documented values not accepted: %r' % m)\nNOT_REPRODUCED()\n")
        else:
            ob.discharged()
    # writes.validate.X : a section writer returns normally only for a valid object, otherwise TypeError/ValueError and nothing written
    for k in sorted(c.contracts):
        if k.startswith("ser:"):
            verify.verify(run, c.E, c.contracts[k], only=("writes_only_valid_object", "raises_only_if_invalid",
                                                          "raises_only_TypeError_ValueError", "nothing_written_on_refusal"))
    for k in ("io:common.MetadataBase.dump.validates", "io:treeinfo.TreeInfo.dump.validates"):
        if k in c.contracts:
            verify.verify(run, c.E, c.contracts[k])
    nobj = 10 if run.tier == "quick" else 150
    for kind in KINDS:
        fails = corrupt.dump_side(run, c.mods, kind, nobj)
        if fails:
            corrupt.dump_violation(run, kind, fails[0])
    history_samples(run, c, [k for k in sorted(c.contracts) if k.startswith("valid:")])
    run.note("container emptiness that no field rule covers (a tree without variants -> IndexError in General.serialize) is outside "
             "both halves of the property")
    run.note("proved: per-class validators (flat and container-shaped), flat section writers, and the composeinfo forest writer "
             "(Variants.serialize refuses a forest whose child or grand-child breaks any rule); image cells and tree image tables on the write "
             "side are exercised by the bounded one-field-corruption enumeration")
