"""C05 -- Older format versions are upgraded faithfully and idempotently."""
import glob
import json
import os
import time

from pyvc import verify
from bounded import gen, legacy
from .common import ctx, std, contract_samples

FIX_SCRIPT = r'''
from pyvc.source import Source
from bounded import gen
import props.C05 as P
src = Source(os.environ.get("VERIF_REPO", "/repo")); mods = src.import_native()
err = P.fixture_errors(mods, os.path.join(os.environ.get("VERIF_REPO", "/repo"), %(rel)r), %(kind)r)
for e in err: print(e)
if err: REPRODUCED("shipped fixture %(rel)s is not upgraded faithfully and idempotently")
NOT_REPRODUCED()
'''

DOWN_SCRIPT = r'''
from pyvc.source import Source
import props.C05 as P
src = Source(os.environ.get("VERIF_REPO", "/repo")); mods = src.import_native()
err = P.downconverted_errors(mods, %(kind)r, %(seed)d, %(version)r)
for e in err: print(e)
if err: REPRODUCED("%(kind)s %(version)s document (seed %(seed)d) is not upgraded as documented")
NOT_REPRODUCED()
'''

VIEWS = {"treeinfo": gen.view_treeinfo, "images": gen.view_images, "composeinfo": gen.view_composeinfo}
HEADER = {"treeinfo": "productmd.treeinfo", "images": "productmd.images", "composeinfo": "productmd.composeinfo", "rpms": "productmd.rpms"}


def fixture_errors(mods, path, kind):
    cls = {"treeinfo": mods["treeinfo"].TreeInfo, "images": mods["images"].Images, "composeinfo": mods["composeinfo"].ComposeInfo,
           "rpms": mods["rpms"].Rpms}[kind]
    cur = "%d.%d" % tuple(mods["common"].VERSION)
    o = cls()
    try:
        o.load(path)
    except Exception as ex:
        return []            # documents the library does not accept are outside the claim
    out = []
    if o.header.version != cur:
        out.append("header.version is %r after load" % o.header.version)
    try:
        s = o.dumps()
    except Exception as ex:
        return ["loaded, but cannot be written back: %r" % (ex,)]
    if kind == "treeinfo":
        import configparser
        p = configparser.RawConfigParser()
        p.read_string(s)
        if p.get("header", "version") != cur or p.get("header", "type") != HEADER[kind]:
            out.append("written header is %r" % dict(p.items("header")))
    else:
        h = json.loads(s)["header"]
        if h != {"version": cur, "type": HEADER[kind]}:
            out.append("written header is %r" % h)
    o2 = cls()
    try:
        o2.loads(s)
    except Exception as ex:
        return out + ["the converted file cannot be re-loaded: %r" % (ex,)]
    view = VIEWS.get(kind)
    a, b = (view(o), view(o2)) if view else (o.rpms, o2.rpms)
    if a != b:
        out.append("re-loading the converted file gives a different object")
    if o2.dumps() != s:
        out.append("second write differs from the first (conversion is not idempotent)")
    return out


def fixtures(repo):
    out = []
    for f in sorted(glob.glob(os.path.join(repo, "tests", "treeinfo", "*"))):
        out.append((f, "treeinfo"))
    for f in sorted(glob.glob(os.path.join(repo, "tests", "images", "*.json"))):
        out.append((f, "images"))
    for f in sorted(glob.glob(os.path.join(repo, "tests", "compose*", "**", "composeinfo*.json"), recursive=True)):
        out.append((f, "composeinfo"))
    for f in sorted(glob.glob(os.path.join(repo, "tests", "compose*", "**", "rpm*.json"), recursive=True)):
        out.append((f, "rpms"))
    for f in sorted(glob.glob(os.path.join(repo, "tests", "compose*", "**", "image*.json"), recursive=True)):
        out.append((f, "images"))
    return out


def downconverted_errors(mods, kind, seed, version):
    cur = "%d.%d" % tuple(mods["common"].VERSION)
    if kind == "composeinfo":
        text, orig, doc = legacy.composeinfo_legacy(mods, seed, version)
        o = mods["composeinfo"].ComposeInfo()
        try:
            o.loads(text)
        except Exception as ex:
            return ["the %s document is not accepted: %r" % (version, ex)]
        out = []
        # same facts under the documented mapping: missing types default to ga; everything else as in the current-format original
        vt = tuple(int(x) for x in version.split("."))

        def strip(view):
            return view
        want = gen.view_composeinfo(orig)
        got = gen.view_composeinfo(o)
        if vt < (1, 1) or vt <= (0, 3):
            # types did not exist: default 'ga'; 'internal' did not exist before 1.0 'release' section: default False
            def norm_rel(r):
                d = dict(r)
                if vt < (1, 1):
                    d["type"] = "ga"
                if vt <= (0, 3):
                    d["internal"] = False
                return tuple(sorted(d.items()))

            def norm_var(v):
                (vid, uid, name, typ, arches, paths, rel, parent, kids) = v
                return (vid, uid, name, typ, arches, paths, norm_rel(rel) if rel else None, parent, tuple((k, norm_var(c)) for k, c in kids))
            want = (want[0], norm_rel(want[1]), norm_rel(want[2]) if want[2] else None, tuple((k, norm_var(v)) for k, v in want[3]))
            got = (got[0], norm_rel(got[1]) if True else got[1], norm_rel(got[2]) if got[2] else None, tuple((k, norm_var(v)) for k, v in got[3]))
            got = (got[0], tuple(sorted(dict(got[1]).items())), got[2], got[3])
        if want != got:
            out.append("loaded object differs from the facts of the old document")
        s = o.dumps()
        h = json.loads(s)["header"]
        if h != {"version": cur, "type": "productmd.composeinfo"}:
            out.append("written header is %r" % h)
        o2 = mods["composeinfo"].ComposeInfo()
        o2.loads(s)
        if gen.view_composeinfo(o2) != gen.view_composeinfo(o):
            out.append("re-loading the converted file gives a different object")
        if o2.dumps() != s:
            out.append("second write differs from the first")
        return out
    raise ValueError(kind)


def check(run):
    c = ctx(run)
    std(run)
    for k in sorted(c.contracts):
        if k.startswith("gate:"):
            verify.verify(run, c.E, c.contracts[k], crosscheck=False)
    for k in ("de:common.Header", "de:treeinfo.Header", "prop:common.Header.version_tuple", "gate2:images.Image.subvariant",
              "gate2:images.Images.deserialize", "meth:rpms.Rpms.deserialize_0_3", "meth:rpms.Rpms.deserialize_0_3:2v", "meth:rpms.Rpms.deserialize_0_3:any", "meth:images.Images._add_1_1", "meth:images.Images._add_1_1:any"):
        if k in c.contracts:
            verify.verify(run, c.E, c.contracts[k], crosscheck=False)
    contract_samples(run, c, ["gate:composeinfo.Variant.deserialize.children", "gate:composeinfo.Compose.deserialize.fields",
                              "gate:composeinfo.Variants.deserialize", "meth:rpms.Rpms.deserialize_0_3", "meth:rpms.Rpms.deserialize_0_3:2v"])
    # ver.current: writers always emit the current version
    verify.verify(run, c.E, c.contracts["rt:rpms.Rpms"], only=("header_names_type_and_current_version", "version_current_after_load"))
    with run.obligation("ver.current#writers_set_current_version", "ast", ["productmd.common.Header.serialize", "productmd.treeinfo.Header.serialize"]) as ob:
        import ast
        h1 = ast.unparse(c.src.classes[("common", "Header")].methods["serialize"])
        h2 = ast.unparse(c.src.classes[("treeinfo", "Header")].methods["serialize"])
        if "set_current_version()" in h1 and "productmd.common.VERSION" in h2:
            ob.discharged()
        else:
            ob.undecided("header writers do not visibly emit the current version")
    # bounded: every shipped historical fixture
    t0 = time.time()
    fails = []
    fx = fixtures(run.repo)
    accepted = 0
    for path, kind in fx:
        err = fixture_errors(c.mods, path, kind)
        if err:
            fails.append((os.path.relpath(path, run.repo), kind, err[0]))
    run.add_bounded("load -> dump -> load -> dump of every shipped fixture", "exhaustive over tests/treeinfo, tests/images, tests/compose*",
                    "%d fixture files (treeinfo of every era, images 1.0/1.1, composeinfo 0.x/1.x, rpm manifests); exhaustive for this finite set" % len(fx),
                    len(fx), fails, seconds=time.time() - t0)
    if fails:
        rel, kind, what = fails[0]
        run.violation("bounded:fixture[%s]" % rel, "upgraded faithfully and idempotently", "%s: %s" % (rel, what), FIX_SCRIPT % {"rel": rel, "kind": kind})
    # bounded: down-converted random documents
    t0 = time.time()
    fails = []
    n = 0
    for version in ("0.2", "0.3", "1.0", "1.1"):
        for i in range(40 if run.tier == "quick" else 600):
            seed = run.seed * 613 + i
            n += 1
            try:
                err = downconverted_errors(c.mods, "composeinfo", seed, version)
            except Exception as ex:
                err = ["exception %r" % (ex,)]
            if err:
                fails.append(("composeinfo", seed, version, err[0]))
    run.add_bounded("composeinfo 0.2/0.3/1.0/1.1 documents", "down-converted random valid content vs the documented mapping, idempotence",
                    "random forests down-converted per the format documentation; 4 versions", n, fails, seconds=time.time() - t0)
    if fails:
        kind, seed, version, what = fails[0]
        run.violation("bounded:legacy.%s" % kind, "older format upgraded as documented", "%s %s seed %d: %s" % (kind, version, seed, what),
                      DOWN_SCRIPT % {"kind": kind, "seed": seed, "version": version})
    from . import C10
    C10.images_docs(run, c)
    C10.rpms_docs(run, c)
    run.note("only the 1.0 -> 1.1 changes are documented in the repository; the thresholds 0.3 / 1.0 and the rpms <= 0.3 dialect are pinned from the C05 statement, "
             "the shipped fixtures and the tree: the gate obligations detect a shifted gate, they do not certify the historical formats")
    run.note("the pre-productmd (0.0) treeinfo reader is a table of product-specific rules; it is covered exhaustively on the shipped fixtures only")
