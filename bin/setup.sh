#!/bin/sh
# Build the overlay venv used by every check (offline, from the local wheelhouse only).
set -e
cd "$(dirname "$0")/.."
V=.venv
if [ -x "$V/bin/python" ] && "$V/bin/python" -c "import z3, cvc5, six, jsonschema" 2>/dev/null; then
    exit 0
fi
rm -rf "$V"
/venv/bin/python -m venv "$V"
PIP_NO_INDEX=1 "$V/bin/pip" install -q --no-index --find-links /opt/veriftools/wheels \
    z3-solver cvc5 six jsonschema crosshair-tool deal icontract hypothesis >/dev/null
"$V/bin/python" -c "import z3, cvc5, six, jsonschema; print('venv ok', z3.get_version_string())"
