"""Counter-model / cover-model -> concrete Python values, and native construction of real productmd objects."""
import re

import z3

from . import sym
from .sym import Val, SV


def _unescape(s):
    return re.sub(r"\\u\{([0-9a-fA-F]+)\}", lambda m: chr(int(m.group(1), 16)), s)


class Opaque(object):
    """stand-in for a reference to an object that is neither dict/list/set/tuple"""

    def __repr__(self):
        return "Opaque()"

    def __eq__(self, other):
        return isinstance(other, Opaque)

    def __hash__(self):
        return 1


def py_string(t):
    return _unescape(t.as_string())


def value_of(model, v, completion=True):
    """python value of an SV (or concrete value) under a z3 model"""
    if not isinstance(v, SV):
        return v
    t = model.eval(v.t, model_completion=completion)
    return term_to_py(model, t)


def term_to_py(model, t):
    t = z3.simplify(t)
    if not (z3.is_app(t) and t.decl().kind() == z3.Z3_OP_DT_CONSTRUCTOR):
        raise ValueError("model value is not a constructor term: %s" % t)
    n = t.decl().name()
    if n == "VNone":
        return None
    a = t.arg(0)
    if n == "VBool":
        return z3.is_true(a)
    if n == "VInt":
        return a.as_long()
    if n == "VStr":
        return py_string(a)
    if n == "VFloat":
        if z3.is_rational_value(a):
            return float(a.numerator_as_long()) / float(a.denominator_as_long())
        return float(a.approx(20).as_fraction())
    if n == "VRef":
        kind = model.eval(sym.ref_kind(a), model_completion=True).as_long()
        ln = model.eval(sym.ref_len(a), model_completion=True).as_long()
        ln = max(0, min(ln, 6))
        if kind == sym.K_DICT:
            return dict(("k%d" % i, "v%d" % i) for i in range(ln))
        if kind == sym.K_LIST:
            return ["e%d" % i for i in range(ln)]
        if kind == sym.K_SET:
            return set("e%d" % i for i in range(ln))
        if kind == sym.K_TUPLE:
            return tuple("e%d" % i for i in range(ln))
        return Opaque()
    raise ValueError(n)


def wellformed(v):
    """assumption on every symbolic input value: references have a kind in 1..5 and a non-negative length"""
    t = v.t
    r = Val.r(t)
    return z3.Implies(Val.is_VRef(t), z3.And(sym.ref_kind(r) >= 1, sym.ref_kind(r) <= 5, sym.ref_len(r) >= 0,
                                             sym.ref_len(r) <= 1000000))


def json_value(v):
    """a value that can occur in a decoded JSON document: null, bool, int, float, str, list or dict"""
    t = v.t
    r = Val.r(t)
    return z3.Implies(Val.is_VRef(t), z3.And(z3.Or(sym.ref_kind(r) == sym.K_DICT, sym.ref_kind(r) == sym.K_LIST), sym.ref_len(r) >= 0,
                                             sym.ref_len(r) <= 1000000))


def py_repr(v):
    """repr usable inside a replay script"""
    if isinstance(v, Opaque):
        return "object()"
    if isinstance(v, dict):
        return "{" + ", ".join("%s: %s" % (py_repr(k), py_repr(x)) for k, x in v.items()) + "}"
    if isinstance(v, list):
        return "[" + ", ".join(py_repr(x) for x in v) + "]"
    if isinstance(v, tuple):
        return "(" + ", ".join(py_repr(x) for x in v) + ("," if len(v) == 1 else "") + ")"
    if isinstance(v, set):
        return "set([" + ", ".join(py_repr(x) for x in sorted(v, key=repr)) + "])"
    if isinstance(v, float):
        return repr(v)
    return repr(v)
