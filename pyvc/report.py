"""Run bookkeeping: obligations, bounded stand-ins, replays, known findings, evidence, exit codes.

Exit codes (DESIGN 7.3): 0 held / 1 VIOLATION / 2 undecided / 3 checker fault.
"""
import hashlib
import json
import os
import subprocess
import sys
import time
import traceback

VERIF = os.path.dirname(os.path.dirname(os.path.abspath(__file__)))


class Obligation(object):
    def __init__(self, run, oid, backend, functions):
        self.run = run
        self.id = oid
        self.backend = backend
        self.functions = list(functions or [])
        self.status = None          # discharged | refuted | undecided | error
        self.detail = {}
        self.t0 = time.time()
        self.ms = 0
        self.solver_s = 0.0
        self.queries = 0
        self.cex = None             # human readable counterexample
        self.replay_script = None   # python source: exit 1 iff the violation reproduces on the tree
        self.reason = None
        self.known = None

    # -- verdicts ------------------------------------------------------------------------------------
    def discharged(self, **detail):
        if self.status is None:
            self.status = "discharged"
        self.detail.update(detail)

    def refuted(self, cex, replay_script=None, **detail):
        self.status = "refuted"
        self.cex = cex
        self.replay_script = replay_script
        self.detail.update(detail)

    def undecided(self, reason, **detail):
        if self.status != "refuted":
            self.status = "undecided"
            self.reason = reason
        self.detail.update(detail)

    def __enter__(self):
        return self

    def __exit__(self, et, ev, tb):
        self.ms = int((time.time() - self.t0) * 1000)
        if et is not None:
            from . import rx
            unsupported = (rx.Unsupported,)
            try:
                from .engine import Unsupported as EU
                unsupported = unsupported + (EU,)
            except Exception:
                pass
            if issubclass(et, unsupported):
                self.undecided("unsupported: %s" % ev)
            elif issubclass(et, KeyboardInterrupt):
                return False
            else:
                self.status = "error"
                self.reason = "".join(traceback.format_exception(et, ev, tb))[-3000:]
        if self.status is None:
            self.status = "error"
            self.reason = "obligation produced no verdict"
        self.run._done(self)
        return True


def _solver_wall():
    """wall clock spent in solver batches by this check (its per-check budget is solve.BUDGET[tier]['check_s'])"""
    try:
        from . import solve
        return round(solve._solver_wall[0], 1)
    except Exception:
        return None


class Run(object):
    def __init__(self, prop, tier="quick", repo="/repo", seed=0, argv=None):
        self.prop = prop
        self.tier = tier
        self.repo = os.path.abspath(repo)
        self.seed = seed
        self.t0 = time.time()
        self.obligations = []
        self.bounded = []
        self.assumed_checks = []
        self.notes = []
        self.assumptions = []
        self.trusted = []
        self.covers = {"checked": 0, "sat": 0, "replayed": 0}
        self.crosscheck = {"inputs": 0, "mismatches": 0}
        self.functions = set()
        self.canaries = []
        self.lines = []
        self.violations = []
        self.known_lines = []
        self.faults = []
        self.undecided = []
        self.argv = argv or sys.argv
        self._known = self._load_known()
        self.baseline = self._load_baseline()

    # -- configuration files (never written at run time) -------------------------------------------------
    def _load_known(self):
        p = os.path.join(VERIF, "known_findings.json")
        if not os.path.exists(p):
            return {"findings": [], "fixed": []}
        with open(p) as f:
            return json.load(f)

    def _load_baseline(self):
        p = os.path.join(VERIF, "baseline", "obligations.json")
        if not os.path.exists(p):
            return {}
        with open(p) as f:
            return json.load(f).get(self.prop, {})

    def known_for(self, oid):
        return [k for k in self._known.get("findings", [])
                if k.get("property") == self.prop and k.get("obligation") == oid and k.get("status", "known") == "known"]

    # -- building blocks -----------------------------------------------------------------------------------
    def obligation(self, oid, backend, functions=()):
        for f in functions:
            self.functions.add(f)
        return Obligation(self, oid, backend, functions)

    def _done(self, ob):
        self.obligations.append(ob)
        tag = {"discharged": "ok", "refuted": "REFUTED", "undecided": "UNDECIDED", "error": "ERROR"}[ob.status]
        self.say("  [%s] %-60s %s %dms%s" % (tag, ob.id, ob.backend, ob.ms,
                                             ("  " + str(ob.cex)[:200]) if ob.cex is not None else
                                             ("  " + str(ob.reason)[:300] if ob.reason else "")))

    def say(self, s):
        print(s)
        sys.stdout.flush()

    def note(self, s):
        self.notes.append(s)
        self.say("  INFO: " + s)

    def assume(self, s):
        if s not in self.assumptions:
            self.assumptions.append(s)

    def trust(self, s):
        if s not in self.trusted:
            self.trusted.append(s)

    def add_bounded(self, function, method, scope, cases, failures=(), nontrivial=None, seconds=None):
        """Record a bounded stand-in (never counted as proved).  failures: list of (description, replay_script)."""
        rec = {"function": function, "method": method, "scope": scope, "cases": cases,
               "failures": len(failures), "label": "bounded"}
        if nontrivial is not None:
            rec["distinct_nontrivial"] = nontrivial
        if seconds is not None:
            rec["seconds"] = round(seconds, 2)
        self.bounded.append(rec)
        self.say("  [bounded %s] %-50s cases=%d failures=%d" % (method, function, cases, len(failures)))
        return rec

    def assumed_check(self, aid, what, cases, ok, detail=None):
        self.assumed_checks.append({"id": aid, "what": what, "cases": cases, "ok": bool(ok), "detail": detail})
        self.say("  [assumed %s] %s cases=%d %s" % (aid, what, cases, "ok" if ok else "MISMATCH"))
        if not ok:
            self.faults.append("assumed contract %s does not hold on this interpreter: %s" % (aid, detail))

    # -- replay -------------------------------------------------------------------------------------------
    def replay_dir(self):
        d = os.path.join(VERIF, "replays" if self.repo == "/repo" else "replays_scratch", self.prop)
        os.makedirs(d, exist_ok=True)
        return d

    def write_replay(self, name, obligation, clause, cex, script, solver_output=None):
        safe = "".join(ch if ch.isalnum() or ch in "._-" else "_" for ch in name)[:120]
        path = os.path.join(self.replay_dir(), safe + ".json")
        digests = source_digests(self.repo)
        with open(path, "w") as f:
            json.dump({"property": self.prop, "obligation": obligation, "failed_clause": clause,
                       "counterexample": cex, "script": script, "solver_output": solver_output,
                       "repo": self.repo, "source_sha256": digests}, f, indent=1, default=str)
        return path

    def run_replay(self, path, timeout=120):
        """Execute the replay script natively against the tree.  Returns (reproduced: bool|None, output)."""
        return run_replay_file(path, self.repo, timeout)

    def violation(self, oid, clause, cex, script, solver_output=None, known_filter=None):
        """Report a refuted obligation / failing bounded case.  Replays natively first."""
        path = self.write_replay(oid, oid, clause, cex, script, solver_output)
        if script:
            ok, out = self.run_replay(path)
            if ok is True:
                self.violations.append((oid, path, ""))
                self.covers["replayed"] += 1
                return path
            if ok is False:
                self.faults.append("replay of %s does not reproduce on the tree (engine/model fault): %s" % (oid, out[-500:]))
                return path
            self.faults.append("replay of %s crashed: %s" % (oid, out[-500:]))
            return path
        # no concrete input: only a violation if this obligation is known to be provable on the unchanged tree
        if oid in self.baseline.get("proved", []) or oid in self.baseline.get("proved_thorough", []):
            self.violations.append((oid, path, " no-failing-input-found"))
        else:
            self.undecided.append((oid, "refuted without concrete input and not in the proved baseline"))
        return path

    def known_finding(self, what):
        line = "KNOWN-FINDING: property=%s %s" % (self.prop, what)
        if line not in self.known_lines:
            self.known_lines.append(line)

    # -- finish ---------------------------------------------------------------------------------------------
    def finish(self, level="proof", checker_cmd=None, rule=None):
        nobl = len(self.obligations)
        disc = [o for o in self.obligations if o.status == "discharged"]
        for o in self.obligations:
            if o.status == "refuted":
                if o.known:
                    continue
                self.violation(o.id, o.detail.get("clause", o.id), o.cex, o.replay_script,
                               o.detail.get("solver_output"))
            elif o.status == "undecided":
                self.undecided.append((o.id, o.reason))
            elif o.status == "error":
                self.faults.append("obligation %s crashed: %s" % (o.id, o.reason))
        # vacuity guards
        if nobl == 0:
            self.faults.append("no obligations were generated (vacuous run)")
        # the baseline is kept per tier: the thorough tier generates obligations the quick tier does not
        exp = self.baseline.get("proved_thorough" if self.tier == "thorough" and "proved_thorough" in self.baseline else "proved")
        if exp is not None:
            have = set(o.id for o in self.obligations)
            missing = [e for e in exp if e not in have]
            for m in missing:
                self.undecided.append((m, "obligation of the baseline was not generated on this tree "
                                          "(function or pattern under contract disappeared)"))
        wall = time.time() - self.t0
        backends = {}
        for o in self.obligations:
            b = backends.setdefault(o.backend, {"count": 0, "seconds": 0.0, "queries": 0})
            b["count"] += 1
            b["seconds"] = round(b["seconds"] + o.ms / 1000.0, 3)
            b["queries"] += o.queries
        samples = []
        for o in self.obligations[:400]:
            s = {"obligation": o.id, "backend": o.backend, "status": o.status, "ms": o.ms}
            if o.queries:
                s["queries"] = o.queries
            for k in ("paths", "solver", "nodes", "states", "note"):
                if k in o.detail:
                    s[k] = o.detail[k]
            if o.cex is not None:
                s["counterexample"] = str(o.cex)[:300]
            if o.reason:
                s["reason"] = str(o.reason)[:300]
            if o.known:
                s["known_finding"] = o.known
            samples.append(s)
        ev = {
            "property_id": self.prop,
            "tier": self.tier,
            "seed": int(self.seed),
            "level": level,
            "coverage": {
                "obligations": nobl,
                "discharged": len(disc),
                "checker_cmd": checker_cmd or " ".join(self.argv),
                "trusted_base": self.trusted,
                "samples": samples,
                "functions_under_contract": sorted(self.functions),
                "backends": backends,
                "solver_time_s": round(sum(o.solver_s for o in self.obligations), 3),
                "solver_batches_wall_s": _solver_wall(),
                "covers": self.covers,
                "engine_crosscheck": self.crosscheck,
                "bounded": self.bounded,
                "assumed_contract_checks": self.assumed_checks,
                "canaries": self.canaries,
                "known_findings": self.known_lines,
                "notes": self.notes,
                "undecided": [{"obligation": a, "reason": str(b)[:300]} for a, b in self.undecided],
                "source_sha256": source_digests(self.repo),
                "repo": self.repo,
                "exhaustive": False,
            },
            "assumptions": self.assumptions,
            "wall_s": round(wall, 3),
            "violations": len(self.violations),
        }
        if rule:
            ev["coverage"]["rule"] = rule
        # known-finding obligations are reported separately and not counted as discharged
        kn = [o for o in self.obligations if o.status == "refuted" and o.known]
        if kn:
            ev["coverage"]["obligations"] = nobl - len(kn)
            ev["coverage"]["refuted_known_findings"] = [o.id for o in kn]
        # evidence/ describes runs against /repo itself; runs against a scratch tree (--repo) write elsewhere
        evdir = "evidence" if self.repo == "/repo" else "evidence_scratch"
        os.makedirs(os.path.join(VERIF, evdir), exist_ok=True)
        evpath = os.path.join(VERIF, evdir, "%s.json" % self.prop)
        tmp = evpath + ".tmp"
        with open(tmp, "w") as f:
            json.dump(ev, f, indent=1, default=str)
        os.replace(tmp, evpath)
        for line in self.known_lines:
            self.say(line)
        code = 0
        if self.faults:
            for fl in self.faults:
                self.say("CHECKER-FAULT property=%s %s" % (self.prop, fl))
            code = 3
        if self.undecided and code == 0:
            code = 2
        for a, b in self.undecided:
            self.say("UNDECIDED property=%s obligation=%s reason=%s" % (self.prop, a, str(b)[:300].replace("\n", " ")))
        if self.violations:
            for oid, path, suffix in self.violations:
                self.say("VIOLATION property=%s replay=%s%s" % (self.prop, path, suffix))
            code = 1
        self.say("%s: %d obligations, %d discharged, %d bounded stand-ins, %d violations, %.1fs -> exit %d"
                 % (self.prop, ev["coverage"]["obligations"], len(disc), len(self.bounded), len(self.violations), wall, code))
        return code


def source_digests(repo):
    out = {}
    d = os.path.join(repo, "productmd")
    if os.path.isdir(d):
        for n in sorted(os.listdir(d)):
            if n.endswith(".py"):
                with open(os.path.join(d, n), "rb") as f:
                    out["productmd/" + n] = hashlib.sha256(f.read()).hexdigest()
    return out


REPLAY_PRELUDE = r'''
import sys, os
sys.path.insert(0, os.environ.get("VERIF_REPO", "/repo"))
sys.path.insert(1, os.environ.get("VERIF_HOME", "/verif"))
sys.dont_write_bytecode = True
def REPRODUCED(msg=""):
    print("REPRODUCED: " + str(msg)); sys.exit(1)
def NOT_REPRODUCED(msg=""):
    print("not reproduced: " + str(msg)); sys.exit(0)
'''


def run_replay_file(path, repo=None, timeout=120):
    with open(path) as f:
        rec = json.load(f)
    script = rec.get("script")
    if not script:
        return None, "replay file carries no script (obligation %s)" % rec.get("obligation")
    env = dict(os.environ)
    env["VERIF_REPO"] = repo or rec.get("repo") or "/repo"
    env["VERIF_HOME"] = VERIF
    env["PYTHONDONTWRITEBYTECODE"] = "1"
    try:
        p = subprocess.run([sys.executable, "-c", REPLAY_PRELUDE + script], env=env, capture_output=True,
                           text=True, timeout=timeout)
    except subprocess.TimeoutExpired as e:
        return None, "replay timed out after %ss" % timeout
    out = (p.stdout or "") + (p.stderr or "")
    if p.returncode == 1 and "REPRODUCED" in out:
        return True, out
    if p.returncode == 0:
        return False, out
    return None, out
