"""Ghost-state models of the few effectful stdlib calls productmd makes (DESIGN 4.4, 5.3): open/file objects, os.path,
json.dump/load, hashlib, six.StringIO.  Effects are appended to the path's effect log in program order:
  ("open", path_value, mode)  ("close", fileobj)  ("write", fileobj, what)  ("read", fileobj)
The file system itself is a ghost map path -> exists? (Bool) used by os.path.exists/_file_exists/listdir (C20)."""
import ast
import json
import os
import hashlib

import z3

from . import sym
from .sym import SV, Val
from .engine import (Unsupported, PyRaise, ExcVal, Obj, FuncRef, BoundMethod, NativeMethod, SymDict, ABSENT, Engine)
from .models import Models


class FileObj(object):
    def __init__(self, path, mode, kind="file"):
        self.path = path
        self.mode = mode
        self.kind = kind
        self.closed = False
        self.written = []
        self.pos = None
        self.content = None       # ghost: z3 String, the bytes of the file (read model A3)
        self.rpos = None          # ghost: z3 Int, read position


class CtxMgr(object):
    """call of a @contextlib.contextmanager generator function, not yet entered"""

    def __init__(self, func, args, kwargs):
        self.func, self.args, self.kwargs = func, args, kwargs


class HashObj(object):
    def __init__(self, algo):
        self.algo = algo
        self.fed = z3.Empty(z3.StringSort())      # ghost: concatenation of everything fed so far (bytes as a string)


exists_uf = z3.Function("fs_exists", sym.S, z3.BoolSort())
content_uf = z3.Function("fs_content", sym.S, sym.S)
digest_uf = z3.Function("hash_hexdigest", sym.S, sym.S, sym.S)     # (algorithm, content) -> lower-case hex digest


def install(E):
    M = E.models
    t = M.call_table

    # ---- open / file objects -----------------------------------------------------------------------------------
    def b_open(a, k):
        path = a[0]
        mode = sym.concrete(a[1]) if len(a) > 1 else k.get("mode", "r")
        if not isinstance(mode, str):
            raise Unsupported("open() with symbolic mode")
        fo = FileObj(path, mode)
        E.path.effects.append(("open", path, mode, fo))
        if "r" in mode and "+" not in mode:
            # opening a missing file for reading fails
            p = sym.sstr(path) if sym.liftable(path) else None
            if p is not None and not E.decide(exists_uf(p)):
                raise PyRaise(ExcVal(IOError, ("No such file",)))
        return fo
    t[open] = b_open

    def with_file(M_, fo, target, body, env):
        if target is not None:
            E.assign(target, fo, env)
        try:
            E.block(body, env)
        finally:
            fo.closed = True
            E.path.effects.append(("close", fo))
    Models.with_hooks[FileObj] = with_file

    def file_method(M_, fo, name, args, kwargs):
        if name == "write":
            E.path.effects.append(("write", fo, args[0]))
            fo.written.append(args[0])
            return None
        if name == "seek":
            fo.pos = args[0]
            return None
        if name == "seekable":
            return True
        if name == "close":
            fo.closed = True
            E.path.effects.append(("close", fo))
            return None
        if name == "read":
            # A3: read(n) returns the next k <= n bytes, k >= 1 unless at end of file
            if fo.content is None:
                p = sym.sstr(fo.path) if sym.liftable(fo.path) else z3.StringVal("?")
                fo.content = content_uf(p)
                fo.rpos = z3.IntVal(0)
            n = sym.sint(args[0]) if args else None
            k = E.fresh("read_k", z3.IntSort())
            rest = z3.Length(fo.content) - fo.rpos
            E.assume(z3.And(k >= 0, k <= rest))
            if n is not None:
                E.assume(k <= n)
                E.assume((k == 0) == (rest == 0))
            else:
                E.assume(k == rest)
            chunk = z3.SubString(fo.content, fo.rpos, k)
            fo.rpos = z3.simplify(fo.rpos + k)
            E.path.assumed.append("A3:file.read")
            return sym.mk_str(chunk)
        if name == "readlines":
            raise Unsupported("readlines of a symbolic file")
        raise Unsupported("file.%s" % name)
    Models.method_hooks[FileObj] = file_method

    def file_attr(o, name, default):
        if name in ("write", "seek", "seekable", "close", "read", "readlines"):
            return NativeMethod(o, name)
        if default is not ABSENT:
            return default
        raise PyRaise(ExcVal(AttributeError, (name,)))
    Models.attr_hooks[FileObj] = file_attr
    Models.hasattr_hooks[FileObj] = lambda o, name: name in ("write", "seek", "seekable", "close", "read", "readlines")

    import io as _io
    try:
        import six
        t[six.StringIO] = lambda a, k: FileObj(None, "w+", kind="stringio")
    except ImportError:
        pass
    t[_io.StringIO] = lambda a, k: FileObj(None, "w+", kind="stringio")

    # ---- context managers written as generators (open_file_obj) ----------------------------------------------------
    def with_ctx(M_, cm, target, body, env):
        ran = [0]

        def hook(value):
            ran[0] += 1
            if target is not None:
                E.assign(target, value, env)
            E.block(body, env)
        saved = getattr(E, "_yield_hook", None)
        E._yield_hook = hook
        try:
            E.call_funcref(cm.func, cm.args, cm.kwargs)
        finally:
            E._yield_hook = saved
        if ran[0] != 1:
            raise Unsupported("context manager generator yielded %d times" % ran[0])
    Models.with_hooks[CtxMgr] = with_ctx

    # ---- json ---------------------------------------------------------------------------------------------------------
    def j_dump(a, k):
        # A1: a function of the JSON value; raises nothing for the output of serialize (representable_json)
        E.path.effects.append(("write", a[1], ("json", a[0], dict(k))))
        E.path.assumed.append("A1:json.dump")
        return None
    t[json.dump] = j_dump

    def j_load(a, k):
        E.path.effects.append(("read", a[0]))
        E.path.assumed.append("A1:json.load")
        if E.decide(E.fresh("json_decodes", z3.BoolSort())):
            d = SymDict("json_doc", closed=False)
            return d
        raise PyRaise(ExcVal(ValueError, ("JSONDecodeError",)))
    t[json.load] = j_load

    # ---- os.path ------------------------------------------------------------------------------------------------------
    def p_join(a, k):
        """os.path.join for relative second components (an absolute later component would reset the path)"""
        parts = [sym.concrete(x) for x in a]
        if all(isinstance(p, str) for p in parts):
            return os.path.join(*parts)
        cur = parts[0]
        for nxt in parts[1:]:
            if isinstance(nxt, str) and nxt.startswith("/"):
                cur = nxt
                continue
            if isinstance(nxt, SV):
                if E.decide(sym.startswith(nxt, "/")):
                    cur = nxt
                    continue
            cs = sym.sstr(cur) if not isinstance(cur, str) else z3.StringVal(cur)
            ns = sym.sstr(nxt) if not isinstance(nxt, str) else z3.StringVal(nxt)
            if isinstance(cur, str):
                sep = "" if (cur == "" or cur.endswith("/")) else "/"
                cur = sym.mk_str(z3.Concat(cs, z3.StringVal(sep), ns)) if sep else sym.mk_str(z3.Concat(cs, ns))
            else:
                if E.decide(sym.Or(cs == z3.StringVal(""), z3.SuffixOf(z3.StringVal("/"), cs))):
                    cur = sym.mk_str(z3.Concat(cs, ns))
                else:
                    cur = sym.mk_str(z3.Concat(cs, z3.StringVal("/"), ns))
        return cur
    t[os.path.join] = p_join

    def p_exists(a, k):
        p = sym.concrete(a[0])
        return E.decide(exists_uf(sym.sstr(p) if not isinstance(p, str) else z3.StringVal(p)))
    t[os.path.exists] = p_exists

    normpath_uf = z3.Function("os_path_normpath", sym.S, sym.S)

    def p_normpath(a, k):
        p = sym.concrete(a[0])
        if isinstance(p, str):
            return os.path.normpath(p)
        E.path.assumed.append("A4:os.path.normpath")
        return sym.mk_str(normpath_uf(sym.sstr(p)))
    t[os.path.normpath] = p_normpath
    E.normpath_uf = normpath_uf

    # ---- the rest of the file-system API (A4) ---------------------------------------------------------------------------
    # Calls that CHANGE the file system are effects like open(): they are appended to the effect log, so that the effect-order
    # contracts see them (a destination unlinked before validation destroys the last good copy just like a truncating open).
    # Read-only queries are uninterpreted functions of their arguments (consistent answers, arbitrary values); a path that used one
    # is marked `havoc`: its counter-models are not replayed literally, the bounded search over the contract's samples decides.
    import shutil
    import stat as _stat

    def fs_modify(name):
        def f(a, k):
            E.path.effects.append(("fs_modify", name, tuple(a)))
            E.path.assumed.append("A4:%s" % name)
            return None
        return f
    for mod, names in ((os, ("unlink", "remove", "rename", "replace", "rmdir", "truncate", "makedirs", "mkdir", "link", "symlink",
                             "chmod", "utime", "removedirs", "renames")),
                       (shutil, ("rmtree", "move", "copy", "copy2", "copyfile", "copytree"))):
        for n in names:
            fn = getattr(mod, n, None)
            if fn is not None:
                t[fn] = fs_modify("%s.%s" % (mod.__name__, n))

    class HavocObj(object):
        """result of an unmodelled read-only library call (os.stat ...): every attribute is an unconstrained value"""
        def __init__(self, tag):
            self.tag = tag
            self.attrs = {}
    E.HavocObj = HavocObj

    def havoc_attr(o, name, default):
        if name not in o.attrs:
            if name.startswith("st_") and name not in ("st_mtime", "st_atime", "st_ctime"):
                o.attrs[name] = SV(Val.VInt(E.fresh("%s.%s" % (o.tag, name), z3.IntSort())))
            else:
                o.attrs[name] = E.fresh_val("%s.%s" % (o.tag, name))
        return o.attrs[name]
    Models.attr_hooks[HavocObj] = havoc_attr

    def fs_query_str(name):
        uf = z3.Function("fs_%s" % name.replace(".", "_"), sym.S, sym.S)

        def f(a, k):
            p = sym.concrete(a[0])
            if isinstance(p, str):
                return getattr(os.path, name.split(".")[-1])(p) if name in ("os.path.dirname", "os.path.basename") else sym.mk_str(uf(z3.StringVal(p)))
            if isinstance(p, SV) and E.decide(sym.is_str(p)):
                E.havoc("%s of a symbolic path" % name)
                return sym.mk_str(uf(sym.sstr(p)))
            raise PyRaise(ExcVal(TypeError, (name,)))
        return f
    for n in ("dirname", "basename", "abspath", "realpath", "expanduser"):
        t[getattr(os.path, n)] = fs_query_str("os.path." + n)

    def fs_query_bool(name):
        uf = z3.Function("fs_%s" % name.replace(".", "_"), sym.S, z3.BoolSort())

        def f(a, k):
            p = sym.concrete(a[0])
            E.havoc("%s: answer of the file system" % name)
            if isinstance(p, str):
                return E.decide(uf(z3.StringVal(p)))
            if isinstance(p, SV) and E.decide(sym.is_str(p)):
                return E.decide(uf(sym.sstr(p)))
            raise PyRaise(ExcVal(TypeError, (name,)))
        return f
    for n in ("isdir", "isfile", "islink", "ismount", "lexists"):
        t[getattr(os.path, n)] = fs_query_bool("os.path." + n)

    def fs_stat(name):
        def f(a, k):
            E.havoc("%s: answer of the file system" % name)
            if E.decide(E.fresh("%s_succeeds" % name.replace(".", "_"), z3.BoolSort())):
                return HavocObj(name)
            raise PyRaise(ExcVal(OSError, (name,)))
        return f
    for n in ("stat", "lstat"):
        t[getattr(os, n)] = fs_stat("os." + n)
    for n in ("getsize", "getmtime", "getctime", "getatime"):
        def g(a, k, n=n):
            E.havoc("os.path.%s: answer of the file system" % n)
            return E.fresh_val("os.path.%s" % n)
        t[getattr(os.path, n)] = g
    for n in dir(_stat):
        fn = getattr(_stat, n)
        if n.startswith("S_IS") and callable(fn):
            def sq(a, k, n=n):
                E.havoc("stat.%s of an unmodelled mode" % n)
                return E.decide(E.fresh("stat_%s" % n, z3.BoolSort()))
            t[fn] = sq

    # ---- hashlib ------------------------------------------------------------------------------------------------------
    def h_new(a, k):
        return HashObj(a[0])
    t[hashlib.new] = h_new

    def hash_method(M_, h, name, args, kwargs):
        if name == "update":
            x = args[0]
            h.fed = z3.Concat(h.fed, sym.sstr(x)) if sym.liftable(x) else h.fed
            return None
        if name == "hexdigest":
            algo = sym.sstr(h.algo) if sym.liftable(h.algo) else z3.StringVal("?")
            E.path.assumed.append("A3:hashlib")
            return sym.mk_str(digest_uf(algo, z3.simplify(h.fed)))
        raise Unsupported("hash.%s" % name)
    Models.method_hooks[HashObj] = hash_method
    Models.attr_hooks[HashObj] = lambda o, name, default: NativeMethod(o, name)


# contextmanager-decorated repository functions are not run at call time
_orig_call_funcref = Engine.call_funcref


def _is_ctxmgr(node):
    return isinstance(node, ast.FunctionDef) and any(ast.unparse(d).endswith("contextmanager") for d in node.decorator_list)


_orig_call = Engine.call


def _call(self, f, args, kwargs=None):
    if isinstance(f, FuncRef) and _is_ctxmgr(f.node) and not getattr(self, "_entering_ctx", False):
        return CtxMgr(f, list(args), kwargs or {})
    return _orig_call(self, f, args, kwargs)


Engine.call = _call

_orig_yield = Engine.e_Yield


def _e_yield(self, e, env):
    hook = getattr(self, "_yield_hook", None)
    if hook is not None:
        v = self.eval(e.value, env) if e.value is not None else None
        self._yield_hook = None
        try:
            hook(v)
        finally:
            self._yield_hook = hook
        return None
    return _orig_yield(self, e, env)


Engine.e_Yield = _e_yield


# ---------------------------------------------------------------------------------------------------------------------
# ConfigParser (assumed contract A2), state kept in the Obj of the repository subclass SortedConfigParser
# ---------------------------------------------------------------------------------------------------------------------
import configparser as _cp


class ParserView(object):
    def __init__(self, obj):
        self.obj = obj


def parser_sections(E, o):
    if "__sections__" not in o.fields:
        d = SymDict("ini", closed=True, origin="code")
        d.json = False
        o.fields["__sections__"] = d
    return o.fields["__sections__"]


def make_symbolic_parser(E, o, name="ini"):
    """turn a freshly constructed parser object into an arbitrary parsed file: sections -> options -> str values"""
    d = SymDict(name, closed=False)
    d.json = True
    d.shape = ("dict", ("str",))
    o.fields["__sections__"] = d
    return d


def _interpolates(o):
    """BasicInterpolation unless the real constructor call passed interpolation=None to the stdlib base class"""
    a, k = o.fields.get("__ext_init__", ((), {}))
    return not ("interpolation" in k and k["interpolation"] is None)


def _parser_method(M, pv, name, args, kwargs):
    E = M.E
    o = pv.obj
    secs = parser_sections(E, o)
    E.path.assumed.append("A2:ConfigParser")

    def need_section(s, create=False):
        e = M.sd_lookup(secs, s)
        if not M.sd_present(e):
            raise PyRaise(ExcVal(_cp.NoSectionError, (s,)))
        v = e.value
        return v if isinstance(v, SymDict) else M.as_dict(v)

    def opt_name(x):
        # the repository overrides optionxform; run the real override
        f = E.getattr_(o, "optionxform")
        return E.call(f, [x])

    if name == "add_section":
        s = sym.concrete(args[0])
        if isinstance(s, SV) and not E.decide(sym.is_str(s)):
            raise PyRaise(ExcVal(TypeError, ("section names must be strings",)))
        if not isinstance(s, (str, SV)):
            raise PyRaise(ExcVal(TypeError, ("section names must be strings",)))
        if E.decide(sym.eq(s, "DEFAULT")):
            raise PyRaise(ExcVal(ValueError, ("Invalid section name",)))
        e = M.sd_lookup(secs, s)
        if M.sd_present(e):
            raise PyRaise(ExcVal(_cp.DuplicateSectionError, (s,)))
        nd = SymDict("ini[%s]" % (s if isinstance(s, str) else "?"), closed=True, origin="code")
        nd.json = False
        M.sd_set(secs, s, nd)
        return None
    if name == "set":
        s, opt = args[0], args[1]
        val = args[2] if len(args) > 2 else kwargs.get("value")
        val = sym.concrete(val)
        # ConfigParser.set: option values must be strings (checked before the section lookup)
        if isinstance(val, SV):
            if not E.decide(sym.is_str(val)):
                raise PyRaise(ExcVal(TypeError, ("option values must be strings",)))
        elif not isinstance(val, str):
            raise PyRaise(ExcVal(TypeError, ("option values must be strings",)))
        # interpolation syntax: a '%' makes set() validate the value (ValueError on bad syntax) and get() rewrite it
        if _interpolates(o) and E.decide(sym.contains(val, "%") if isinstance(val, SV) else ("%" in val)):
            E.havoc("'%' in an INI value (interpolation)")
            if E.decide(E.fresh("bad_interpolation", z3.BoolSort())):
                raise PyRaise(ExcVal(ValueError, ("invalid interpolation syntax",)))
        sd = need_section(s)
        M.sd_set(sd, opt_name(opt), val)
        return None
    if name == "has_section":
        e = M.sd_lookup(secs, args[0])
        return M.sd_present(e)
    if name == "has_option":
        e = M.sd_lookup(secs, args[0])
        if not M.sd_present(e):
            return False
        sd = e.value if isinstance(e.value, SymDict) else M.as_dict(e.value)
        e2 = M.sd_lookup(sd, opt_name(args[1]))
        return M.sd_present(e2)
    if name in ("get", "getint", "getfloat", "getboolean"):
        sd = need_section(args[0])
        e2 = M.sd_lookup(sd, opt_name(args[1]))
        if not M.sd_present(e2):
            if "fallback" in kwargs:
                return kwargs["fallback"]
            raise PyRaise(ExcVal(_cp.NoOptionError, (args[1], args[0])))
        v = e2.value
        if isinstance(v, SV):
            E.assume(sym.is_str(v))
        if _interpolates(o) and E.decide(sym.contains(v, "%") if isinstance(v, SV) else ("%" in v)):
            E.havoc("'%' in an INI value (interpolation)")
        if name == "get":
            return v
        if name == "getint":
            return M.b_int([v], {})
        if name == "getfloat":
            return M.b_float([v], {})
        if name == "getboolean":
            yes = ["1", "yes", "true", "on"]
            no = ["0", "no", "false", "off"]
            saved = E.lower_hints
            E.lower_hints = list(saved) + [w for w in yes + no if w not in saved]      # case-fold axioms for the words compared below
            try:
                low = M.lower(sym.sstr(v)) if isinstance(v, SV) else v.lower()
            finally:
                E.lower_hints = saved
            if E.decide(sym.isin(low, yes)):
                return True
            if E.decide(sym.isin(low, no)):
                return False
            raise PyRaise(ExcVal(ValueError, ("Not a boolean",)))
    def ordered(items):
        # A2: sections/options come in the dict_type's iteration order; the repository passes its SortedDict (sorted keys)
        a, k = o.fields.get("__ext_init__", ((), {}))
        dt = k.get("dict_type")
        if dt is not None and getattr(dt, "key", None) == ("common", "SortedDict"):
            return M.sorted_(items, key=None if not items or not isinstance(items[0], tuple) else (lambda x: x[0]))
        return items
    if name == "sections":
        return ordered([k for k, _ in M.dict_items(secs)])
    if name == "options":
        sd = need_section(args[0])
        return ordered([k for k, _ in M.dict_items(sd)])
    if name == "items":
        sd = need_section(args[0])
        its = [(k, v) for k, v in M.dict_items(sd)]
        keys = ordered([k for k, _ in its])
        return [(k, v) for k in keys for kk, v in its if kk is k]
    if name == "write":
        E.path.effects.append(("write", args[0], ("ini", o)))
        return None
    if name == "read_file":
        E.path.effects.append(("read", args[0]))
        make_symbolic_parser(E, o)
        return None
    if name == "remove_section":
        e = M.sd_lookup(secs, args[0])
        if M.sd_present(e):
            e.present = False
            return True
        return False
    raise Unsupported("ConfigParser.%s" % name)


Models.method_hooks[ParserView] = _parser_method

PARSER_METHODS = {"add_section", "set", "has_section", "has_option", "get", "getint", "getfloat", "getboolean", "sections", "options",
                  "items", "write", "read_file", "remove_section"}

_orig_getattr = Engine.getattr_


def _getattr(self, o, name, default=ABSENT):
    if isinstance(o, Obj) and name not in o.fields and name in PARSER_METHODS and self.src.find_method(o.cls, name) is None:
        ci = self.src.classes[o.cls]
        ext = any(b is None for k in self.src.mro(o.cls) for b in self.src.classes[k].bases)
        if ext and ("common", "SortedConfigParser") in self.src.mro(o.cls):
            return NativeMethod(ParserView(o), name)
    if isinstance(o, type(None)):
        pass
    return _orig_getattr(self, o, name, default)


Engine.getattr_ = _getattr

# super(SortedConfigParser, self).read_file(...) reaches the stdlib method through a SuperRef
from .engine import SuperRef as _SuperRef
_orig_getattr2 = Engine.getattr_


def _getattr_super(self, o, name, default=ABSENT):
    if isinstance(o, _SuperRef) and name in PARSER_METHODS and ("common", "SortedConfigParser") in self.src.mro(o.obj.cls):
        mro = self.src.mro(o.obj.cls)
        idx = mro.index(o.start_after) + 1
        if not any(name in self.src.classes[k].methods for k in mro[idx:]):
            return NativeMethod(ParserView(o.obj), name)
    return _orig_getattr2(self, o, name, default)


Engine.getattr_ = _getattr_super
