"""Obligation generation: function under contract -> per-clause obligations with per-path sub-goals
(DESIGN 4.5, Appendix B), covers and the native CPython cross-check of every path (DESIGN 3)."""
import os
import re
import time
import traceback

import z3

from . import sym, solve, concretise
from .engine import Engine, PyRaise, ExcVal, Unsupported, Obj
from .sym import SV, B


class Outcome(object):
    def __init__(self, kind, value):
        self.kind = kind        # 'return' | 'raise'
        self.value = value      # return value | ExcVal

    @property
    def exc_cls(self):
        return self.value.cls if self.kind == "raise" else None

    def __repr__(self):
        return "%s %s" % (self.kind, self.value.cls.__name__ if self.kind == "raise" else self.value)


class Contract(object):
    """Base class of sidecar contracts.  A contract builds the symbolic pre-state, calls the REAL function
    through the engine, and states its clauses over (pre-state, outcome, post-state).  The same clauses are
    evaluated natively on concrete inputs (cover cross-check, replay, bounded stand-ins)."""
    name = None           # qualified name of the function under contract
    key = None            # registry key: contracts.get(key, src, T) rebuilds this contract (used by replay files)

    def setup(self, E):
        raise NotImplementedError

    def call(self, E, st):
        raise NotImplementedError

    def post(self, E, st, out):
        """dict clause name -> formula (python bool / z3 Bool); may fork through E.decide"""
        raise NotImplementedError

    # native side ---------------------------------------------------------------------------------------
    def concretise(self, model, st):
        """model -> plain python inputs (dict), or None when there is no native harness"""
        return None

    def native_eval(self, inputs):
        """run the REAL function natively on `inputs`; returns (('return', v)|('raise', cls), {clause: bool})"""
        raise NotImplementedError

    def describe(self, inputs):
        return ", ".join("%s=%s" % (k, concretise.py_repr(v)) for k, v in inputs.items())

    def replay_script(self, inputs, clause):
        if self.key is None:
            return None
        return GENERIC_REPLAY % {"key": self.key, "inputs": concretise.py_repr(inputs), "clause": clause}


GENERIC_REPLAY = r'''
import contracts
from pyvc.source import Source
src = Source(os.environ.get("VERIF_REPO", "/repo")); src.import_native()
c = contracts.get(%(key)r, src)
inputs = %(inputs)s
nat, clauses = c.native_eval(inputs)
print("contract:", c.name); print("inputs:  ", c.describe(inputs))
print("outcome: ", nat[0], getattr(nat[1], "__name__", repr(nat[1])))
print("clauses: ", clauses)
if clauses.get(%(clause)r) is False: REPRODUCED("clause %%s of %%s is violated" %% (%(clause)r, c.name))
NOT_REPRODUCED()
'''


def _reach(st):
    """identity map of every object / container reachable from the contract's pre-state (what exists BEFORE the call)"""
    from .engine import SymDict, SymSeq
    seen = {}
    todo = [(st, None, "st")]
    while todo:
        x, owner, how = todo.pop()
        if isinstance(x, (str, int, float, bool, type(None), SV)) or id(x) in seen:
            continue
        if isinstance(x, Obj):
            seen[id(x)] = (x, owner, how)
            todo.extend((v, x, k) for k, v in x.fields.items())
        elif isinstance(x, SymDict):
            seen[id(x)] = (x, owner, how)
            todo.extend((e.value, owner, how) for e in x.entries)
        elif isinstance(x, dict):
            seen[id(x)] = (x, owner, how)
            todo.extend((v, owner, how) for v in x.values())
        elif isinstance(x, (list, tuple, set, frozenset)):
            seen[id(x)] = (x, owner, how)
            todo.extend((v, owner, how) for v in x)
        elif type(x).__name__ == "ListSet":
            seen[id(x)] = (x, owner, how)
            todo.extend((v, owner, how) for v in x.items)
    return seen


def _hidden_writes(E, contract, st, pre, effects):
    """writes of the call to state that (a) existed before the call, (b) is held in an ATTRIBUTE of a repository object (the receiver or
    something it owns) or in a module-level variable, and (c) the contract does not declare in `modifies`: state that outlives the call
    without being part of its specified result.  A function that has none cannot make a later call depend on an earlier one."""
    from .engine import SymDict
    declared = getattr(contract, "modifies", None)
    allowed = declared(st) if declared else ()
    allowed_ids = set(id(x) for x in allowed if not isinstance(x, tuple))
    allowed_attrs = set((id(x[0]), x[1]) for x in allowed if isinstance(x, tuple))
    out = []
    for e in effects:
        if e[0] == "attr_write":
            o, name = e[1], e[2]
            if id(o) in pre and (id(o), name) not in allowed_attrs and id(o) not in allowed_ids:
                out.append("attribute %s.%s" % (o.cls[1], name))
        elif e[0] in ("dict_write", "list_write", "set_write", "global_write"):
            d = e[1]
            if e[0] == "global_write":
                out.append("module-level %s" % (e[2],))
                continue
            if getattr(d, "origin", None) == "const":
                out.append("a module-level container")      # a dict/list bound at module level: shared by every caller in the process
                continue
            if id(d) not in pre or id(d) in allowed_ids:
                continue
            x, owner, how = pre[id(d)]
            if owner is None:
                continue                    # reached through an argument / local of the contract, not through an object attribute
            if isinstance(d, SymDict) and not d.closed:
                continue                    # arbitrary (open) input container: already universally quantified, frame clauses speak about it
            if (id(owner), how) in allowed_attrs or id(owner) in allowed_ids:
                continue
            out.append("container held in %s.%s" % (owner.cls[1], how))
    return sorted(set(out))


def run_contract(E, contract, max_paths=4000):
    def thunk():
        st = contract.setup(E)
        pre = _reach(st)
        mark = len(E.path.effects)
        try:
            v = contract.call(E, st)
            out = Outcome("return", v)
        except PyRaise as e:
            out = Outcome("raise", e.exc)
        E.path.notes.append(("hidden_writes", _hidden_writes(E, contract, st, pre, E.path.effects[mark:])))
        try:
            goals = contract.post(E, st, out)
        except (PyRaise, Unsupported):
            raise
        except (TypeError, AttributeError, KeyError, IndexError, ValueError) as ex:
            # the outcome contains a value the clause language cannot talk about (an unmodelled library object, a container of
            # unexpected shape): the function left the supported subset -- undecided + bounded search, never a checker crash
            raise Unsupported("contract clauses could not be evaluated on the symbolic outcome (%s: %s)" % (type(ex).__name__, str(ex)[:120]))
        for gname, g in E.path.side_goals:
            goals[gname] = sym.And(goals[gname], g) if gname in goals else g
        return ("done", (out, goals, st))
    paths = E.explore(thunk, max_paths=max_paths)
    # arbitrary-iteration paths of invariant-verified loops carry only their side goals
    for p in paths:
        if p.kind == "loopcut":
            goals = {}
            for gname, g in p.side_goals:
                goals[gname] = sym.And(goals[gname], g) if gname in goals else g
            p.value = (Outcome("return", None), goals, None)
            p.abstract = True
    return paths


# functions whose specified effect IS a change of the receiver (readers, builders, the caching accessors of compose.Compose)
_STATEFUL = re.compile(r"deserialize|__init__|\.load|compose\.Compose\.(info|images|rpms|modules)")
# the builders' specified effect: the manifest / the variant table they file into (and the parent link of the filed variant)
_BUILDER = re.compile(r"\.add\b|\.add\[|\._add_1_1|add_checksum")
_BUILDER_WRITES = ("container held in Variant.variants", "container held in Variants.variants", "attribute Variant.parent",
                   "container held in Images.images", "container held in Rpms.rpms", "container held in Modules.modules",
                   "container held in ExtraFiles.extra_files", "container held in Checksums.checksums", "container held in Image.checksums",
                   "attribute Rpms.rpms", "attribute Images.images")
# documented writes of writers: the header version is set to the current one on save; a layered-product variant marks its release
_DOCUMENTED_WRITES = ("attribute Header.version", "attribute Release.is_layered")


def _state_obligation(run, contract, prefix, name, hidden, only, skip):
    """frame obligation of every function that is specified as a pure function of its arguments and the receiver's content (validators,
    writers, parsers, predicates, lookups): it keeps NO state between calls -- no attribute of a pre-existing object, no container owned by
    one, no module-level variable is written.  With it, the per-call contracts extend to every history of calls by induction; without it
    a later call may answer differently because of an earlier one (memo tables, 'already validated' flags, remembered arguments)."""
    clause = "keeps_no_state_between_calls"
    if (_STATEFUL.search(name) and not getattr(contract, "STATE_CHECK", False)) or getattr(contract, "STATEFUL", False) or (only is not None and clause not in only) or clause in skip:
        return
    hidden = [h for h in hidden if h not in _DOCUMENTED_WRITES and not (_BUILDER.search(name) and h in _BUILDER_WRITES)]
    with run.obligation("%s#%s" % (prefix, clause), "pyvc/frame", [name]) as ob:
        if not hidden:
            ob.discharged()
            return
        what = "the call writes %s, which outlives it and is not part of its specified result" % ", ".join(hidden)
        found = None
        hs = getattr(contract, "history_search", None)
        if hs is not None:
            found = hs(run)
        if not found:
            found = _search_any(run, contract)
        if found:
            cl, desc, script = found
            ob.refuted("%s; %s" % (what, desc), replay_script=script, clause=clause)
        else:
            ob.undecided("%s; no call history with a wrong answer was found by the bounded search, and the per-call proof does not cover "
                         "histories of a function that keeps state" % what)


def verify(run, E, contract, prefix=None, tier=None, crosscheck=True, known=None, skip=(), only=None):
    """Generate and discharge the obligations of `contract`.  Returns dict clause -> status."""
    tier = tier or run.tier
    name = contract.name
    prefix = prefix or name
    t0 = time.time()
    # a function is never verified against its own summary
    own = [k for k in E.summaries if "productmd.%s.%s.%s" % (k[0][0], k[0][1], k[1]) == name]
    saved = dict((k, E.summaries.pop(k)) for k in own)
    try:
        try:
            paths = run_contract(E, contract)
        except Unsupported:
            raise
        except Exception as ex:     # noqa: BLE001 -- contract support code (summaries, pattern extraction) met code it was not written for
            # the function left what the contract machinery can handle: same fallback as an unsupported construct (bounded search for a
            # real failing input, else undecided), and the remaining obligations of the check still run
            raise Unsupported("contract machinery failed on this tree (%s: %s)" % (type(ex).__name__, str(ex)[:160]))
    except Unsupported as u:
        E.summaries.update(saved)
        # undecided: the function left the supported subset.  Fall back to the bounded search for a REAL failing input of
        # any clause of the same contract (DESIGN 4.5); found => refuted with replay, else undecided.
        found = _search_any(run, contract)
        with run.obligation(prefix + "#*", "pyvc/smt", [name]) as ob:
            if found:
                clause, desc, script = found
                ob.refuted("%s (function outside the supported subset: %s; found by the bounded search)" % (desc, u),
                           replay_script=script, clause=clause)
            else:
                ob.undecided("unsupported construct: %s" % u)
        return {}
    E.summaries.update(saved)
    explore_s = time.time() - t0
    hidden = sorted(set(h for p in paths for n in p.notes if isinstance(n, tuple) and n[0] == "hidden_writes" for h in n[1]))
    if os.environ.get("PYVC_HIDDEN_DEBUG") and hidden:
        print("HIDDEN %s: %s" % (name, hidden))
    _state_obligation(run, contract, prefix, name, hidden, only, skip)
    clauses = []
    for p in paths:
        for c in p.value[1]:
            if c not in clauses and c not in skip and (only is None or c in only):
                clauses.append(c)
    results = {}
    # ---- sub-goals ------------------------------------------------------------------------------------
    queries = []
    index = []
    for pi, p in enumerate(paths):
        out, goals, st = p.value
        for c in clauses:
            if c not in goals:
                continue
            gl = goals[c]
            if gl is True:
                continue
            if gl is False:
                queries.append(list(p.pc) + list(E.axioms))
                index.append((pi, c))
                continue
            # a conjunctive clause is discharged conjunct by conjunct; conjuncts that are literally on the path are skipped
            for cj in _conjuncts(B(gl)):
                known = p.pc_ids.get(cj.get_id())
                if known is True:
                    continue
                queries.append(list(p.pc) + list(E.axioms) + [z3.Not(cj)])
                index.append((pi, c))
    t1 = time.time()
    answers = solve.check_many(queries, tier)
    solve_s = time.time() - t1
    by_clause = {c: [] for c in clauses}
    for (pi, c), a in zip(index, answers):
        by_clause[c].append((pi, a))
    for c in clauses:
        with run.obligation("%s#%s" % (prefix, c), "pyvc/smt", [name]) as ob:
            sub = by_clause[c]
            ob.queries = len(sub)
            ob.solver_s = sum(a.seconds for _, a in sub)
            ob.detail["paths"] = len(paths)
            ob.detail["solver"] = sorted(set(a.solver for _, a in sub if a.solver))
            sat = [(pi, a) for pi, a in sub if a.status == "sat"]
            unk = [(pi, a) for pi, a in sub if a.status == "unknown"]
            if sat:
                pi, a = sat[0]
                p = paths[pi]
                out, goals, st = p.value
                verdict = _confirm(run, contract, a.model, st, c, out, p)
                if verdict[0] == "confirmed":
                    ob.refuted(verdict[1], replay_script=verdict[2], clause=c, solver_output=str(a.model)[:4000])
                elif verdict[0] == "havoc":
                    # bounded fallback: a REAL failing input of this clause among the contract's own samples
                    v2 = _search(run, contract, c, "counter-model passes through unmodelled values")
                    if v2[0] == "confirmed":
                        ob.refuted(v2[1], replay_script=v2[2], clause=c, solver_output=str(a.model)[:4000])
                    else:
                        ob.undecided("counter-model passes through unmodelled values: %s" % "; ".join(p.havoc))
                elif verdict[0] == "noinput":
                    ob.refuted(verdict[1], replay_script=None, clause=c, solver_output=str(a.model)[:4000])
                else:
                    ob.status = "error"
                    ob.reason = "engine fault: counter-model does not reproduce natively: %s" % (verdict[1],)
            elif unk:
                ob.undecided("solver: %s" % "; ".join(str(a.text)[:80] for _, a in unk[:3]), unknown_paths=len(unk))
            else:
                ob.discharged()
            results[c] = ob.status
    # ---- covers + native cross-check (vacuity guard and engine validation) ------------------------------------------
    if crosscheck:
        cover_paths(run, E, contract, paths)
    run.say("    %s: %d paths, explore %.1fs, solve %.1fs (%d queries)" % (name, len(paths), explore_s, solve_s, len(queries)))
    return results


def _conjuncts(t):
    out = []
    st = [t]
    while st:
        x = st.pop()
        if z3.is_and(x):
            st.extend(x.children())
        else:
            out.append(x)
    return out


def cover_paths(run, E, contract, paths):
    for p in paths:
        out, goals, st = p.value
        run.covers["checked"] += 1
        if p.abstract or p.havoc:
            run.covers["abstract"] = run.covers.get("abstract", 0) + 1
            continue            # ghost inputs: cannot be replayed natively (feasibility was checked during exploration)
        r = solve.check_decomposed(list(p.pc) + list(E.axioms), 800)
        if r.status != "sat":
            continue
        run.covers["sat"] += 1
        if p.havoc or p.abstract:
            continue
        try:
            inputs = contract.concretise(r.model, st)
            if inputs is None:
                continue
            nat, ncl = contract.native_eval(inputs)
        except Exception as ex:  # concretisation problems are not verdicts
            run.notes.append("cover of %s could not be replayed: %r" % (contract.name, ex))
            continue
        if nat[0] == "skip":
            continue
        run.crosscheck["inputs"] += 1
        sym_kind = out.kind
        sym_cls = out.exc_cls
        ok = (nat[0] == sym_kind) and (sym_kind == "return" or nat[1] is sym_cls or
                                       (isinstance(nat[1], type) and sym_cls is not None and nat[1].__name__ == sym_cls.__name__))
        if ok and sym_kind == "return" and hasattr(contract, "native_result_matches"):
            ok = contract.native_result_matches(r.model, st, out, nat, inputs)
        if not ok:
            run.crosscheck["mismatches"] += 1
            run.faults.append("engine cross-check mismatch in %s: symbolic path %s but CPython gives %s on %s"
                              % (contract.name, out, _nat(nat), contract.describe(inputs)))


def _search(run, contract, clause, why):
    """bounded fallback (DESIGN 4.5/6): look for a REAL failing input of this clause among the contract's own samples"""
    gen = getattr(contract, "sample_inputs", None)
    if gen is None:
        return ("noinput", why, None)
    import random
    rng = random.Random(run.seed)
    n = 0
    samples = list(gen(rng))
    # two passes in ONE interpreter: in the second pass every sample is evaluated after all the others, so an answer that depends on
    # what the library was asked before (module-level caches, memo tables) shows up as a failing clause of a later evaluation
    for rnd, seq in enumerate((samples, list(reversed(samples)))):
        for i, inputs in enumerate(seq):
            n += 1
            try:
                nat, nc = contract.native_eval(inputs)
            except Exception:
                continue
            if nc and nc.get(clause) is False:
                script = _replay_with_history(contract, (samples if rnd else []) + seq[:i], inputs, clause)
                return ("confirmed", "%s -> %s violates clause '%s' (found by the bounded search over %d sample inputs%s; %s)"
                        % (contract.describe(inputs), _nat(nat), clause, n,
                           ", after the other samples had been evaluated in the same interpreter" if rnd else "", why), script)
    return ("noinput", "%s; bounded search over %d sample inputs found no failing input" % (why, n), None)


def _search_any(run, contract):
    gen = getattr(contract, "sample_inputs", None)
    if gen is None:
        return None
    import random
    samples = list(gen(random.Random(run.seed)))
    for rnd, seq in enumerate((samples, list(reversed(samples)))):      # second pass: history dependence (see _search)
        for i, inputs in enumerate(seq):
            try:
                nat, nc = contract.native_eval(inputs)
            except Exception:
                continue
            for clause, v in (nc or {}).items():
                if v is False:
                    script = _replay_with_history(contract, (samples if rnd else []) + seq[:i], inputs, clause)
                    return (clause, "%s -> %s violates clause '%s'%s" % (contract.describe(inputs), _nat(nat), clause,
                            " (after the other samples had been evaluated in the same interpreter)" if rnd else ""), script)
    return None


HISTORY_REPLAY = r'''
import contracts
from pyvc.source import Source
src = Source(os.environ.get("VERIF_REPO", "/repo")); src.import_native()
c = contracts.get(%(key)r, src)
history = %(history)s
inputs = %(inputs)s
nat, clauses = c.native_eval(inputs)
if clauses.get(%(clause)r) is False:
    print("contract:", c.name); print("inputs:  ", c.describe(inputs)); print("clauses: ", clauses)
    REPRODUCED("clause %%s of %%s is violated" %% (%(clause)r, c.name))
for h in history:
    try: c.native_eval(h)
    except Exception: pass
nat, clauses = c.native_eval(inputs)
print("contract:", c.name); print("after %%d earlier calls in the same interpreter; inputs: " %% len(history), c.describe(inputs))
print("outcome: ", nat[0], getattr(nat[1], "__name__", repr(nat[1])))
print("clauses: ", clauses)
if clauses.get(%(clause)r) is False: REPRODUCED("clause %%s of %%s is violated (history-dependent answer)" %% (%(clause)r, c.name))
NOT_REPRODUCED()
'''


def _replay_with_history(contract, history, inputs, clause):
    """the replay of a failing sample: alone when that reproduces in a fresh state, else preceded by the calls made before it"""
    if not history:
        return contract.replay_script(inputs, clause)
    # module-level state of the library is part of this interpreter: whether the sample fails on its own is only known in a fresh
    # process, so the script evaluates the sample alone FIRST and falls back to the recorded history
    return history_replay_script(contract, history, inputs, clause)


def history_replay_script(contract, history, inputs, clause):
    if contract.key is None:
        return None
    return HISTORY_REPLAY % {"key": contract.key, "history": concretise.py_repr(list(history)), "inputs": concretise.py_repr(inputs), "clause": clause}


def _confirm(run, contract, model, st, clause, out, path):
    """replay a counter-model natively.  Returns (verdict, description, script)."""
    if path.havoc:
        return ("havoc", None, None)
    if model is None:
        return _search(run, contract, clause, "solver reported sat without a model")
    try:
        inputs = contract.concretise(model, st)
    except Exception as ex:
        return _search(run, contract, clause, "counter-model could not be concretised (%r)" % (ex,))
    if inputs is None:
        return _search(run, contract, clause, "the counter-model is over ghost state only")
    try:
        nat, nc = contract.native_eval(inputs)
    except Exception as ex:
        return ("noinput", "native evaluation failed (%r) on %s" % (ex, contract.describe(inputs)), None)
    desc = contract.describe(inputs)
    if nc is None or clause not in nc:
        return ("noinput", "clause has no native evaluator; input %s" % (desc,), None)
    if nc[clause] is False:
        return ("confirmed", "%s -> %s violates clause '%s'" % (desc, _nat(nat), clause),
                contract.replay_script(inputs, clause))
    if path.abstract:
        return _search(run, contract, clause, "counter-model involves ghost values; its concretisation %s does not fail natively" % (desc,))
    return ("fault", "input %s: CPython gives %s and clause '%s' holds natively" % (desc, _nat(nat), clause), None)


def _nat(nat):
    if nat[0] == "raise":
        return "raise %s" % getattr(nat[1], "__name__", nat[1])
    return "return %r" % (nat[1],)


def native_call(fn, *args, **kwargs):
    try:
        return ("return", fn(*args, **kwargs))
    except Exception as ex:
        return ("raise", type(ex))


# ---------------------------------------------------------------------------------------------------------------
# F-valid: X.validate() returns normally iff valid_X, otherwise raises only TypeError/ValueError, and changes nothing
# ---------------------------------------------------------------------------------------------------------------
class ValidateContract(Contract):
    def __init__(self, src, key, spec, fields, tables, consts=None, spec_name=None, build=None, method="validate"):
        self.src = src
        self.key_cls = key
        self.key = "valid:%s.%s" % key if method == "validate" else None
        self.spec = spec
        self.fields = list(fields)
        self.T = tables
        self.consts = consts or {}
        self.name = "productmd.%s.%s.%s" % (key[0], key[1], method)
        self.spec_name = spec_name or spec.__name__
        self.build = build
        self.method = method

    def setup(self, E):
        o = E.new_obj(self.key_cls, "x")
        st = {"o": o, "sv": {}}
        for k, v in self.consts.items():
            o.fields[k] = v(E, o) if callable(v) else v
        for f in self.fields:
            v = SV(z3.Const("x.%s" % f, sym.Val))
            o.fields[f] = v
            st["sv"][f] = v
            E.assume(concretise.wellformed(v))
        st["before"] = dict(o.fields)
        return st

    def call(self, E, st):
        return E.call(E.getattr_(st["o"], self.method), [])

    def post(self, E, st, out):
        o = st["o"]
        pre = Obj(o.cls, "pre", 0)
        pre.fields = st["before"]
        valid = self.spec(self.T, pre)
        # (attributes that did not exist before -- private bookkeeping -- are the business of keeps_no_state_between_calls, which asks
        # for a call history with a wrong answer before it reports a violation; `frame` is about the declared content)
        frame = all(o.fields.get(k) is v for k, v in st["before"].items())
        if out.kind == "return":
            return {"returns_only_if_valid": valid, "frame": frame}
        return {"raises_only_if_invalid": sym.Not(valid),
                "raises_only_TypeError_ValueError": out.exc_cls in (TypeError, ValueError),
                "frame": frame}

    # native ---------------------------------------------------------------------------------------------------
    def concretise(self, model, st):
        return dict((f, concretise.value_of(model, v)) for f, v in st["sv"].items())

    def _real(self, vals):
        cls = self.src.native_class(self.key_cls)
        real = object.__new__(cls)
        for k, v in self.consts.items():
            if not callable(v) and not isinstance(v, Obj):
                setattr(real, k, v)
        if self.build:
            self.build(real, self.src)
        for f, v in vals.items():
            setattr(real, f, v)
        return real

    def native_eval(self, inputs):
        import copy
        real = self._real(copy.deepcopy(inputs))
        before = copy.deepcopy(dict((f, getattr(real, f)) for f in self.fields))
        nat = native_call(getattr(real, self.method))
        pre = self._real(copy.deepcopy(inputs))
        valid = bool(self.spec(self.T, pre))
        after = dict((f, getattr(real, f)) for f in self.fields)
        frame = all(_same(after[f], before[f]) for f in self.fields)
        if nat[0] == "return":
            return nat, {"returns_only_if_valid": valid, "frame": frame}
        return nat, {"raises_only_if_invalid": not valid,
                     "raises_only_TypeError_ValueError": nat[1] in (TypeError, ValueError), "frame": frame}

    def describe(self, inputs):
        return "%s(%s)" % (self.key_cls[1], ", ".join("%s=%s" % (k, concretise.py_repr(v)) for k, v in inputs.items()))

    def history_search(self, run):
        """bounded: validate a VALID object (values from a solver model of the documented rules), then break a rule by changing a
        container field IN PLACE (no attribute assignment), validate again: the second answer must be the documented one"""
        import copy
        if any(callable(v) for v in self.consts.values()):
            return None
        o = Obj(self.key_cls, "h", 0)
        sv = {}
        for k, v in self.consts.items():
            o.fields[k] = v
        for f in self.fields:
            v = SV(z3.Const("h.%s" % f, sym.Val))
            o.fields[f] = v
            sv[f] = v
        try:
            r = solve.check_decomposed([B(concretise.wellformed(v)) for v in sv.values()] + [B(self.spec(self.T, o))], 3000)
            if r.status != "sat":
                return None
            vals = dict((f, concretise.value_of(r.model, v)) for f, v in sv.items())
            real = self._real(copy.deepcopy(vals))
            getattr(real, self.method)()
        except Exception:
            return None
        for f in self.fields:
            x = getattr(real, f, None)
            if not isinstance(x, (dict, list, set)) or not x:
                continue
            saved = copy.deepcopy(x)
            x.clear()
            now = dict((g, copy.deepcopy(getattr(real, g))) for g in self.fields)
            valid = bool(self.spec(self.T, self._real(copy.deepcopy(now))))
            nat = native_call(getattr(real, self.method))
            (x.update if isinstance(x, (dict, set)) else x.extend)(saved)
            if (nat[0] == "return") != valid:
                clause = "returns_only_if_valid" if nat[0] == "return" else "raises_only_if_invalid"
                script = ("import contracts, copy\nfrom pyvc.source import Source\nsrc = Source(os.environ.get('VERIF_REPO', '/repo')); src.import_native()\n"
                          "c = contracts.get(%r, src)\nvals = %s\nreal = c._real(copy.deepcopy(vals))\ngetattr(real, c.method)()\n"
                          "getattr(real, %r).clear()\nnow = dict((g, copy.deepcopy(getattr(real, g))) for g in c.fields)\n"
                          "valid = bool(c.spec(c.T, c._real(copy.deepcopy(now))))\n"
                          "try:\n getattr(real, c.method)(); ok = True\nexcept (TypeError, ValueError):\n ok = False\n"
                          "print('documented verdict:', valid, ' second validate() accepted:', ok)\n"
                          "if ok != valid: REPRODUCED('validate() after an in-place change of %s answers as for the earlier content')\nNOT_REPRODUCED()\n"
                          % (self.key, concretise.py_repr(vals), f, f))
                return (clause, "%s validated, then its %s emptied in place and validated again -> %s, documented verdict: %s"
                        % (self.describe(vals), f, _nat(nat), "valid" if valid else "invalid"), script)
        return None


def _same(a, b):
    try:
        return type(a) is type(b) and (a == b or (a != a and b != b))
    except Exception:
        return a is b


