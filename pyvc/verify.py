"""Obligation generation: function under contract -> per-clause obligations with per-path sub-goals
(DESIGN 4.5, Appendix B), covers and the native CPython cross-check of every path (DESIGN 3)."""
import time
import traceback

import z3

from . import sym, solve, concretise
from .engine import Engine, PyRaise, ExcVal, Unsupported, Obj
from .sym import SV, B


class Outcome(object):
    def __init__(self, kind, value):
        self.kind = kind        # 'return' | 'raise'
        self.value = value      # return value | ExcVal

    @property
    def exc_cls(self):
        return self.value.cls if self.kind == "raise" else None

    def __repr__(self):
        return "%s %s" % (self.kind, self.value.cls.__name__ if self.kind == "raise" else self.value)


class Contract(object):
    """Base class of sidecar contracts.  A contract builds the symbolic pre-state, calls the REAL function
    through the engine, and states its clauses over (pre-state, outcome, post-state)."""
    name = None           # qualified name of the function under contract
    props = ()

    def setup(self, E):
        raise NotImplementedError

    def call(self, E, st):
        raise NotImplementedError

    def post(self, E, st, out):
        """dict clause name -> formula (python bool / z3 Bool); may fork through E.decide"""
        raise NotImplementedError

    # native side (cover cross-check and replay) ------------------------------------------------------
    def native_run(self, model, st):
        """run the real function natively on the concretised model; returns ('return', value)|('raise', cls), ctx"""
        return None

    def native_clauses(self, model, st, native_out, ctx):
        """dict clause name -> bool, evaluated natively on the real pre/post state (same spec text)"""
        return None

    def describe_input(self, model, st):
        return None

    def replay_script(self, model, st, clause):
        return None


def run_contract(E, contract, max_paths=4000):
    def thunk():
        st = contract.setup(E)
        try:
            v = contract.call(E, st)
            out = Outcome("return", v)
        except PyRaise as e:
            out = Outcome("raise", e.exc)
        goals = contract.post(E, st, out)
        return ("done", (out, goals, st))
    return E.explore(thunk, max_paths=max_paths)


def verify(run, E, contract, prefix=None, tier=None, crosscheck=True, known=None):
    """Generate and discharge the obligations of `contract`.  Returns dict clause -> status."""
    tier = tier or run.tier
    name = contract.name
    prefix = prefix or name
    t0 = time.time()
    try:
        paths = run_contract(E, contract)
    except Unsupported as u:
        with run.obligation(prefix + "#*", "pyvc/smt", [name]) as ob:
            ob.undecided("unsupported construct: %s" % u)
        return {}
    explore_s = time.time() - t0
    clauses = []
    for p in paths:
        for c in p.value[1]:
            if c not in clauses:
                clauses.append(c)
    results = {}
    # ---- sub-goals ------------------------------------------------------------------------------------
    queries = []
    index = []
    for pi, p in enumerate(paths):
        out, goals, st = p.value
        for c in clauses:
            if c not in goals:
                continue
            gl = goals[c]
            if gl is True:
                continue
            q = list(p.pc) + list(E.axioms) + [z3.Not(B(gl))] if gl is not False else list(p.pc) + list(E.axioms)
            queries.append(q)
            index.append((pi, c))
    t1 = time.time()
    answers = solve.check_many(queries, tier)
    solve_s = time.time() - t1
    by_clause = {c: [] for c in clauses}
    for (pi, c), a in zip(index, answers):
        by_clause[c].append((pi, a))
    for c in clauses:
        with run.obligation("%s#%s" % (prefix, c), "pyvc/smt", [name]) as ob:
            sub = by_clause[c]
            ob.queries = len(sub)
            ob.solver_s = sum(a.seconds for _, a in sub)
            ob.detail["paths"] = len(paths)
            ob.detail["solver"] = sorted(set(a.solver for _, a in sub if a.solver))
            sat = [(pi, a) for pi, a in sub if a.status == "sat"]
            unk = [(pi, a) for pi, a in sub if a.status == "unknown"]
            if sat:
                pi, a = sat[0]
                p = paths[pi]
                out, goals, st = p.value
                verdict = _confirm(run, contract, a.model, st, c, out, p)
                if verdict[0] == "confirmed":
                    ob.refuted(verdict[1], replay_script=verdict[2], clause=c, solver_output=str(a.model)[:4000])
                elif verdict[0] == "havoc":
                    ob.undecided("counter-model passes through unmodelled values: %s" % "; ".join(p.havoc))
                elif verdict[0] == "noinput":
                    ob.refuted(verdict[1], replay_script=None, clause=c, solver_output=str(a.model)[:4000])
                else:
                    ob.status = "error"
                    ob.reason = "engine fault: counter-model does not reproduce natively: %s" % (verdict[1],)
            elif unk:
                ob.undecided("solver: %s" % "; ".join(str(a.text)[:80] for _, a in unk[:3]), unknown_paths=len(unk))
            else:
                ob.discharged()
            results[c] = ob.status
    # ---- covers + native cross-check (vacuity guard and engine validation) ------------------------------------------
    if crosscheck:
        cover_paths(run, E, contract, paths)
    run.say("    %s: %d paths, explore %.1fs, solve %.1fs (%d queries)" % (name, len(paths), explore_s, solve_s, len(queries)))
    return results


def cover_paths(run, E, contract, paths):
    for p in paths:
        out, goals, st = p.value
        run.covers["checked"] += 1
        r = solve.check_inproc(list(p.pc) + list(E.axioms), 2000)
        if r.status != "sat":
            continue
        run.covers["sat"] += 1
        if p.havoc:
            continue
        try:
            res = contract.native_run(r.model, st)
        except Exception as ex:  # concretisation problems are not verdicts
            run.notes.append("cover of %s could not be concretised: %r" % (contract.name, ex))
            continue
        if res is None:
            continue
        nat, ctx = res
        run.crosscheck["inputs"] += 1
        sym_kind = out.kind
        sym_cls = out.exc_cls
        ok = (nat[0] == sym_kind) and (sym_kind == "return" or nat[1] is sym_cls or
                                       (isinstance(nat[1], type) and sym_cls is not None and nat[1].__name__ == sym_cls.__name__))
        if ok and sym_kind == "return" and hasattr(contract, "native_result_matches"):
            ok = contract.native_result_matches(r.model, st, out, nat, ctx)
        if not ok:
            run.crosscheck["mismatches"] += 1
            run.faults.append("engine cross-check mismatch in %s: symbolic path %s but CPython gives %s on %s"
                              % (contract.name, out, nat, contract.describe_input(r.model, st)))


def _confirm(run, contract, model, st, clause, out, path):
    """replay a counter-model natively.  Returns (verdict, description, script)."""
    if path.havoc:
        return ("havoc", None, None)
    try:
        res = contract.native_run(model, st)
    except Exception as ex:
        return ("noinput", "counter-model could not be concretised (%r)" % (ex,), None)
    if res is None:
        return ("noinput", "no native harness for this contract", None)
    nat, ctx = res
    try:
        nc = contract.native_clauses(model, st, nat, ctx)
    except Exception as ex:
        return ("noinput", "native clause evaluation failed (%r)" % (ex,), None)
    desc = contract.describe_input(model, st)
    if nc is None or clause not in nc:
        return ("noinput", "clause has no native evaluator; input %s" % (desc,), None)
    if nc[clause] is False:
        return ("confirmed", "%s -> %s violates clause '%s'" % (desc, _nat(nat), clause),
                contract.replay_script(model, st, clause))
    return ("fault", "input %s: CPython gives %s and clause '%s' holds natively" % (desc, _nat(nat), clause), None)


def _nat(nat):
    if nat[0] == "raise":
        return "raise %s" % getattr(nat[1], "__name__", nat[1])
    return "return %r" % (nat[1],)


def native_call(fn, *args, **kwargs):
    try:
        return ("return", fn(*args, **kwargs))
    except Exception as ex:
        return ("raise", type(ex))


# ---------------------------------------------------------------------------------------------------------------
# F-valid: X.validate() returns normally iff valid_X, otherwise raises only TypeError/ValueError, and changes nothing
# ---------------------------------------------------------------------------------------------------------------
class ValidateContract(Contract):
    def __init__(self, src, key, spec, fields, tables, consts=None, spec_name=None, build=None, method="validate"):
        self.src = src
        self.key = key
        self.spec = spec
        self.fields = list(fields)
        self.T = tables
        self.consts = consts or {}
        self.name = "productmd.%s.%s.%s" % (key[0], key[1], method)
        self.spec_name = spec_name or spec.__name__
        self.build = build
        self.method = method

    def setup(self, E):
        o = E.new_obj(self.key, "x")
        st = {"o": o, "sv": {}}
        for k, v in self.consts.items():
            o.fields[k] = v(E, o) if callable(v) else v
        for f in self.fields:
            v = SV(z3.Const("x.%s" % f, sym.Val))
            o.fields[f] = v
            st["sv"][f] = v
            E.assume(concretise.wellformed(v))
        st["before"] = dict(o.fields)
        return st

    def call(self, E, st):
        return E.call(E.getattr_(st["o"], self.method), [])

    def post(self, E, st, out):
        o = st["o"]
        pre = Obj(o.cls, "pre", 0)
        pre.fields = st["before"]
        valid = self.spec(self.T, pre)
        frame = all(o.fields.get(k) is v for k, v in st["before"].items()) and set(o.fields) == set(st["before"])
        if out.kind == "return":
            return {"returns_only_if_valid": valid, "frame": frame}
        return {"raises_only_if_invalid": sym.Not(valid),
                "raises_only_TypeError_ValueError": out.exc_cls in (TypeError, ValueError),
                "frame": frame}

    # native ---------------------------------------------------------------------------------------------------
    def _values(self, model, st):
        return dict((f, concretise.value_of(model, v)) for f, v in st["sv"].items())

    def _real(self, vals):
        cls = self.src.native_class(self.key)
        real = object.__new__(cls)
        for k, v in self.consts.items():
            if not callable(v) and not isinstance(v, Obj):
                setattr(real, k, v)
        if self.build:
            self.build(real, self.src)
        for f, v in vals.items():
            setattr(real, f, v)
        return real

    def native_run(self, model, st):
        vals = self._values(model, st)
        real = self._real(vals)
        import copy
        before = copy.deepcopy(dict((f, getattr(real, f)) for f in self.fields))
        nat = native_call(getattr(real, self.method))
        return nat, {"real": real, "vals": vals, "before": before}

    def native_clauses(self, model, st, nat, ctx):
        pre = self._real(ctx["vals"])
        valid = bool(self.spec(self.T, pre))
        after = dict((f, getattr(ctx["real"], f)) for f in self.fields)
        frame = all(_same(after[f], ctx["before"][f]) for f in self.fields)
        if nat[0] == "return":
            return {"returns_only_if_valid": valid, "frame": frame}
        return {"raises_only_if_invalid": not valid,
                "raises_only_TypeError_ValueError": nat[1] in (TypeError, ValueError), "frame": frame}

    def describe_input(self, model, st):
        vals = self._values(model, st)
        return "%s(%s)" % (self.key[1], ", ".join("%s=%s" % (k, concretise.py_repr(v)) for k, v in vals.items()))

    def replay_script(self, model, st, clause):
        vals = self._values(model, st)
        return VALIDATE_REPLAY % {"module": self.key[0], "cls": self.key[1], "spec": self.spec_name,
                                  "vals": "{" + ", ".join("%r: %s" % (k, concretise.py_repr(v)) for k, v in vals.items()) + "}",
                                  "consts": repr(dict((k, v) for k, v in self.consts.items()
                                                      if not callable(v) and not isinstance(v, Obj))),
                                  "clause": clause, "method": self.method}


def _same(a, b):
    try:
        return type(a) is type(b) and (a == b or (a != a and b != b))
    except Exception:
        return a is b


VALIDATE_REPLAY = r'''
import importlib
import productmd.%(module)s as M
from pyvc.source import Source
from spec import fields as F
src = Source(os.environ.get("VERIF_REPO", "/repo")); mods = src.import_native()
T = F.Tables(mods)
vals = %(vals)s
real = object.__new__(M.%(cls)s)
for k, v in %(consts)s.items(): setattr(real, k, v)
for k, v in vals.items(): setattr(real, k, v)
valid = bool(F.%(spec)s(T, real))
try:
    real.%(method)s(); out = ("return", None)
except Exception as ex:
    out = ("raise", type(ex))
print("fields:", vals); print("documented rules hold:", valid, " %(method)s():", out)
clause = %(clause)r
bad = {"returns_only_if_valid": out[0] == "return" and not valid,
       "raises_only_if_invalid": out[0] == "raise" and valid,
       "raises_only_TypeError_ValueError": out[0] == "raise" and out[1] not in (TypeError, ValueError),
       "frame": False}[clause]
if bad: REPRODUCED("%(cls)s.%(method)s clause %%s violated" %% clause)
NOT_REPRODUCED()
'''
