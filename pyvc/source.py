"""Source model: the real productmd sources of the tree under check, re-read with ``ast`` on every run.

Also imports the same tree natively (module constants are computed by CPython itself, DESIGN 3)."""
import ast
import hashlib
import importlib
import os
import re
import sys

MODULES = ["common", "composeinfo", "images", "rpms", "modules", "extra_files", "treeinfo", "discinfo", "compose"]


class ClassInfo(object):
    def __init__(self, module, node, bases):
        self.module = module
        self.node = node
        self.name = node.name
        self.bases = bases          # list of (module, name) or None for external
        self.methods = {}
        self.properties = set()
        self.staticmethods = set()
        for n in node.body:
            if isinstance(n, ast.FunctionDef):
                self.methods[n.name] = n
                for d in n.decorator_list:
                    ds = ast.unparse(d)
                    if ds == "property":
                        self.properties.add(n.name)
                    if ds == "staticmethod":
                        self.staticmethods.add(n.name)


class Source(object):
    def __init__(self, repo):
        self.repo = os.path.abspath(repo)
        self.trees = {}
        self.text = {}
        self.classes = {}      # (module, name) -> ClassInfo
        self.funcs = {}        # (module, name) -> FunctionDef
        self.imports = {}      # module -> {local name -> ("module", dotted) | ("from", dotted, name)}
        self.mods = {}
        for m in MODULES:
            p = os.path.join(self.repo, "productmd", m + ".py")
            if not os.path.exists(p):
                continue
            with open(p) as f:
                txt = f.read()
            self.text[m] = txt
            tree = ast.parse(txt, filename=p)
            self.trees[m] = tree
            imps = {}
            for n in ast.walk(tree):
                if isinstance(n, ast.Import):
                    for a in n.names:
                        imps[(a.asname or a.name).split(".")[0]] = ("module", a.name if a.asname else a.name.split(".")[0])
                elif isinstance(n, ast.ImportFrom):
                    for a in n.names:
                        imps[a.asname or a.name] = ("from", n.module, a.name)
            self.imports[m] = imps
        for m, tree in self.trees.items():
            for n in tree.body:
                if isinstance(n, ast.FunctionDef):
                    self.funcs[(m, n.name)] = n
        for m, tree in self.trees.items():
            for n in tree.body:
                if isinstance(n, ast.ClassDef):
                    self.classes[(m, n.name)] = ClassInfo(m, n, None)
        for (m, name), ci in self.classes.items():
            ci.bases = [self.resolve_class(m, ast.unparse(b)) for b in ci.node.bases]

    # ---------------------------------------------------------------------------------------------------
    def import_native(self):
        """Import the tree's productmd natively (same interpreter)."""
        if sys.path[0] != self.repo:
            sys.path.insert(0, self.repo)
        for k in [k for k in sys.modules if k == "productmd" or k.startswith("productmd.")]:
            f = getattr(sys.modules[k], "__file__", "") or ""
            if not f.startswith(self.repo + os.sep):
                del sys.modules[k]
        for m in MODULES:
            if m in self.trees:
                self.mods[m] = importlib.import_module("productmd." + m)
                f = self.mods[m].__file__
                if not f.startswith(self.repo + os.sep):
                    raise RuntimeError("productmd imported from %s, expected %s" % (f, self.repo))
        return self.mods

    def resolve_class(self, module, dotted):
        """Resolve a base-class / constructor expression text used in `module` to (module, name) or None."""
        parts = dotted.split(".")
        if len(parts) == 1:
            if (module, parts[0]) in self.classes:
                return (module, parts[0])
            imp = self.imports.get(module, {}).get(parts[0])
            if imp and imp[0] == "from" and imp[1].startswith("productmd."):
                m2 = imp[1].split(".")[1]
                return self.resolve_class(m2, imp[2]) if m2 != module else None
            return None
        if parts[0] == "productmd" and len(parts) == 3:
            if (parts[1], parts[2]) in self.classes:
                return (parts[1], parts[2])
            return self.resolve_class(parts[1], parts[2])
        return None

    def mro(self, key):
        """C3 is not needed: productmd uses single inheritance only (checked)."""
        out = [key]
        ci = self.classes[key]
        repo_bases = [b for b in ci.bases if b is not None]
        if len(repo_bases) > 1:
            raise RuntimeError("multiple inheritance in %s.%s" % key)
        for b in repo_bases:
            out += self.mro(b)
        return out

    def find_method(self, key, name):
        for k in self.mro(key):
            ci = self.classes[k]
            if name in ci.methods:
                return k, ci.methods[name]
        return None

    def validators(self, key):
        names = set()
        for k in self.mro(key):
            for n in self.classes[k].methods:
                if n.startswith("_validate"):
                    names.add(n)
        return sorted(names)

    def native_class(self, key):
        return getattr(self.mods[key[0]], key[1])

    def crosscheck_validators(self, key):
        real = self.native_class(key)
        inst_names = sorted(n for n in dir(real) if n.startswith("_validate") and callable(getattr(real, n)))
        return inst_names == self.validators(key), inst_names

    def func_digest(self, node):
        return hashlib.sha256(ast.dump(node).encode()).hexdigest()[:16]

    def qualname(self, module, cls, name):
        return "productmd.%s.%s%s" % (module, (cls + ".") if cls else "", name)

    # ---------------------------------------------------------------------------------------------------
    def regex_inventory(self):
        """Every pattern the library hands to ``re`` -- (where, pattern_text, how).  Static part."""
        inv = []
        unresolved = []
        mods = self.mods or self.import_native()

        def add(where, pat, how):
            if isinstance(pat, re.Pattern):
                pat = pat.pattern
            inv.append((where, pat, how))

        def resolve(m, expr, where, how):
            if isinstance(expr, ast.Constant) and isinstance(expr.value, str):
                add(where, expr.value, how)
                return True
            if isinstance(expr, ast.List) or isinstance(expr, ast.Tuple):
                ok = True
                for e in expr.elts:
                    ok &= resolve(m, e, where, how)
                return ok
            try:
                val = eval(compile(ast.Expression(expr), "<inv>", "eval"), dict(vars(mods[m])))
            except Exception:
                return False
            vals = val if isinstance(val, (list, tuple)) else [val]
            ok = True
            for v in vals:
                if isinstance(v, (str, re.Pattern)):
                    add(where, v, how)
                else:
                    ok = False
            return ok

        for m, tree in self.trees.items():
            # enclosing function names
            parents = {}
            for n in ast.walk(tree):
                for ch in ast.iter_child_nodes(n):
                    parents[ch] = n

            def where_of(n):
                names = []
                while n in parents:
                    n = parents[n]
                    if isinstance(n, (ast.FunctionDef, ast.ClassDef)):
                        names.append(n.name)
                return "productmd.%s.%s" % (m, ".".join(reversed(names)) or "<module>")

            for n in ast.walk(tree):
                if not isinstance(n, ast.Call):
                    continue
                f = ast.unparse(n.func)
                if f in ("re.compile", "re.match", "re.search", "re.fullmatch", "re.split", "re.sub", "re.findall",
                         "re.finditer"):
                    w = where_of(n)
                    if not n.args or not resolve(m, n.args[0], w, f):
                        if w.endswith("<module>"):
                            # module-level dynamic construction: result must show up among module-level Pattern objects
                            continue
                        if f == "re.match" and w.endswith("_assert_matches_re"):
                            continue    # pattern comes from the callers' lists, inventoried below
                        unresolved.append((w, ast.unparse(n)))
                elif f.endswith("._assert_matches_re"):
                    w = where_of(n)
                    if len(n.args) < 2 or not resolve(m, n.args[1], w, "_assert_matches_re"):
                        unresolved.append((w, ast.unparse(n)))
            for name, val in vars(mods[m]).items():
                vals = val if isinstance(val, (list, tuple)) else [val]
                for v in vals:
                    if isinstance(v, re.Pattern) and getattr(mods[m], "__name__", "") == "productmd." + m:
                        add("productmd.%s.%s" % (m, name), v, "module constant")
        # de-duplicate on (pattern, how-kind)
        seen = {}
        for where, pat, how in inv:
            seen.setdefault(pat, []).append((where, how))
        return seen, unresolved
