"""Collections of UNBOUNDED size and the witness rule for loops that scan them (rule R2 of DESIGN 4.3, as built).

`AnyDict` is an arbitrary finite dict with string keys, `AnySet` an arbitrary finite set; their members are not enumerated.  A member is
materialised on demand: a key looked up (or met by a loop) gets a ghost presence bit and a value made by the collection's `make_value`
factory, remembered per key so that the same key always yields the same value object.

Loop rule (`for x in C: body` with C an AnyDict/AnySet, body free of assignments and of writes to pre-existing state -- a SCAN):

  * normal termination of the loop means that the body completed normally for EVERY member.  The rule picks ONE arbitrary-but-fixed
    member w (a fresh symbolic member: "the witness"), executes the body on it and keeps only the paths on which it completes normally;
    whatever the body's path condition says about w (e.g. "w does not clash with the new image") is then known after the loop.  Because w
    is arbitrary, a postcondition stated over w is a statement about all members (the usual pointwise reading of a universally quantified
    fact); an empty collection takes the branch without a witness.
  * an abnormal exit (raise / return / break inside the body) happens at SOME member: the rule executes the body on a fresh arbitrary
    member x and keeps only the paths that leave the body abnormally.  That earlier members completed normally is dropped -- an
    over-approximation of the reachable states, sound for the safety postconditions proved here; x is recorded as the exit witness, which
    is what an existential clause ("refused only if SOME member clashes") needs.

Both branches over-approximate the real loop, so every postcondition proved over them holds for collections of every size, in every
iteration order.  A body that writes to pre-existing state or rebinds a name needs an inductive invariant instead: Unsupported."""
import ast

import z3

from . import sym
from .sym import SV
from .engine import Unsupported, PyRaise, ExcVal, Infeasible, Break, Continue, Return, Engine, NativeMethod, ABSENT, Obj
from .models import Models, ListSet


class AnyDict(object):
    def __init__(self, name, make_value, make_key=None):
        self.name = name
        self.make_value = make_value        # (E, key, tag) -> value stored under that key
        self.make_key = make_key            # (E, tag) -> fresh symbolic key (default: any string)
        self.known = []                     # materialised members: [key, present(Bool term or True), value]
        self.written = []                   # keys written by the code under verification (setdefault / store)
        self.origin = "input"
        self.closed = False


class AnySet(object):
    def __init__(self, name, make_elem):
        self.name = name
        self.make_elem = make_elem          # (E, tag) -> fresh arbitrary member
        self.known = []                     # materialised members
        self.added = []                     # elements added by the code under verification
        self.member_bits = {}               # id(value) -> ghost Bool "value is a member" for values tested with `in`


def member_key(x):
    """identity of a tested value: the z3 term for symbolic scalars (wrappers are re-created freely), the object otherwise"""
    return ("t", x.t.get_id()) if isinstance(x, SV) else ("o", id(x))


class AnyItems(object):
    """d.items() of an AnyDict: iterated by the witness rule, the member is the pair (key, value)"""
    def __init__(self, d):
        self.d = d
        self.name = d.name + ".items"


def _fresh_key(E, d, tag):
    if d.make_key:
        return d.make_key(E, tag)
    return SV(sym.Val.VStr(E.fresh("%s.key.%s" % (d.name, tag), sym.S)))


def dict_member(E, d, tag):
    """a fresh arbitrary member of d: (key, value); distinct from nothing -- it may coincide with a member materialised earlier"""
    k = _fresh_key(E, d, tag)
    for ent in d.known:
        if E.decide(sym.eq(ent[0], k)):
            E.assume(ent[1]) if ent[1] is not True else None
            return ent[0], ent[2]
    v = d.make_value(E, k, tag)
    d.known.append([k, True, v])
    return k, v


def dict_lookup(E, d, k):
    """entry for key k (materialising it with a ghost presence bit if it was not met before)"""
    res = d.__dict__.setdefault("resolved", {})       # key object -> entry it was resolved to on this path (for the contracts' clauses)
    for ent in d.known:
        if ent[0] is k or E.decide(sym.eq(ent[0], k)):
            res[id(k)] = ent
            return ent
    present = E.fresh("%s.has" % d.name, z3.BoolSort())
    ent = [k, sym.as_bool(present), None]
    d.known.append(ent)
    res[id(k)] = ent
    return ent


def _entry_present(E, d, ent, tag):
    if ent[1] is True:
        return True
    if ent[1] is False:
        return False
    if E.decide(ent[1]):
        ent[1] = True
        if ent[2] is None:
            ent[2] = d.make_value(E, ent[0], tag)
        return True
    ent[1] = False
    return False


def _dict_method(M, d, name, args, kwargs):
    E = M.E
    if name == "setdefault":
        ent = dict_lookup(E, d, args[0])
        if _entry_present(E, d, ent, "sd"):
            return ent[2]
        ent[1], ent[2] = True, (args[1] if len(args) > 1 else None)
        d.written.append(ent)
        E.path.effects.append(("any_write", d, ent[0], ent[2]))
        return ent[2]
    if name == "get":
        ent = dict_lookup(E, d, args[0])
        if _entry_present(E, d, ent, "get"):
            return ent[2]
        return args[1] if len(args) > 1 else None
    if name in ("keys", "__iter__"):
        return d
    if name == "items":
        return AnyItems(d)
    raise Unsupported("%s of a dict of unbounded size" % name)


def _set_method(M, s, name, args, kwargs):
    E = M.E
    if name == "add":
        s.added.append(args[0])
        E.path.effects.append(("any_write", s, None, args[0]))
        return None
    raise Unsupported("%s of a set of unbounded size" % name)


Models.method_hooks[AnyDict] = _dict_method
Models.method_hooks[AnySet] = _set_method
Models.attr_hooks[AnyDict] = lambda o, name, default: NativeMethod(o, name)
Models.attr_hooks[AnySet] = lambda o, name, default: NativeMethod(o, name)

_orig_getitem = Models.getitem


def _getitem(self, o, k):
    if isinstance(o, AnyDict):
        ent = dict_lookup(self.E, o, k)
        if not _entry_present(self.E, o, ent, "item"):
            raise PyRaise(ExcVal(KeyError, (k,)))
        return ent[2]
    return _orig_getitem(self, o, k)


Models.getitem = _getitem

_orig_sorted = Models.b_sorted


def _b_sorted(self, a, k):
    # sorted(<unbounded collection>) handed to a scan loop: the order of a scan is irrelevant to what it establishes
    if a and isinstance(a[0], (AnyDict, AnySet, AnyItems)) and not k:
        return a[0]
    return _orig_sorted(self, a, k)


Models.b_sorted = _b_sorted

_orig_contains = Models.contains


def _contains(self, c, x):
    if isinstance(c, AnyDict):
        ent = dict_lookup(self.E, c, x)
        return _entry_present(self.E, c, ent, "in")
    if isinstance(c, AnySet):
        for y in list(c.known) + list(c.added):
            if y is x:
                return True
        k = member_key(x)
        if k not in c.member_bits:
            c.member_bits[k] = sym.as_bool(self.E.fresh("%s.has" % c.name, z3.BoolSort()))
        return self.E.decide(c.member_bits[k])
    return _orig_contains(self, c, x)


Models.contains = _contains

_WRITES = ("attr_write", "dict_write", "list_write", "set_write", "any_write", "open", "write", "fs_modify")


def _assigns_other_than_names(body):
    """bindings the rule cannot undo: augmented assignment (reads the previous iteration's value), del, global, walrus, with"""
    for st in body:
        for n in ast.walk(st):
            if isinstance(n, (ast.AugAssign, ast.Delete, ast.Global, ast.Nonlocal, ast.NamedExpr, ast.With)):
                return True
    return False


def _names_bound(body):
    out = set()
    for st in body:
        for n in ast.walk(st):
            if isinstance(n, ast.Name) and isinstance(n.ctx, ast.Store):
                out.add(n.id)
    return out


_orig_for = Engine.s_For


def _s_for(self, s, env):
    it = self.eval(s.iter, env)
    if not isinstance(it, (AnyDict, AnySet, AnyItems)):
        # (the iterable was evaluated once already: evaluate-once semantics are kept by handing the value on)
        return _for_value(self, s, env, it)
    if s.orelse or _assigns_other_than_names(s.body):
        raise Unsupported("loop over a collection of unbounded size with an else clause or non-name bindings (needs an inductive invariant)")
    # a SEARCH loop may bind local names on its way (path = join(dir, entry) ...).  After normal termination they hold the values of the
    # LAST member visited, which the rule does not know: they (and the loop variable) are UNBOUND afterwards, so that code reading them
    # fails visibly instead of being verified against a wrong value.  On the exit branch the bindings are those of the exit member.
    rebound = _names_bound(s.body) | _names_bound([ast.Expr(value=s.target)] if False else []) | set(n.id for n in ast.walk(s.target) if isinstance(n, ast.Name))
    path = self.path
    witnesses = path.__dict__.setdefault("witnesses", [])

    def member(tag):
        if isinstance(it, AnyDict):
            k, v = dict_member(self, it, tag)
            return k
        if isinstance(it, AnyItems):
            return tuple(dict_member(self, it.d, tag))
        x = it.make_elem(self, tag)
        it.known.append(x)
        return x

    if self.decide(self.fresh("%s.scan_left_in_body" % it.name, z3.BoolSort())):
        # abnormal exit at SOME member x
        x = member("x")
        witnesses.append(("exit", it, x))
        self.assign(s.target, x, env)
        try:
            self.block(s.body, env)
        except Continue:
            pass
        except Break:
            return
        # (Return / PyRaise propagate)
        raise Infeasible()              # the body completed normally: this is not the member the loop was left at
    # normal termination: the body completed normally for EVERY member -- in particular for the arbitrary witness w
    if not self.decide(self.fresh("%s.nonempty" % it.name, z3.BoolSort())):
        witnesses.append(("all", it, None))
        return
    w = member("w")
    witnesses.append(("all", it, w))
    mark = len(path.effects)
    from .verify import _reach
    pre = _reach(dict((k, v) for k, v in env.items() if not k.startswith("__")))
    self.assign(s.target, w, env)
    try:
        self.block(s.body, env)
    except Continue:
        pass
    except (Break, Return, PyRaise):
        raise Infeasible()
    # writes to objects the body itself created (temporaries of the callees) are not effects of the loop
    if any(e[0] in _WRITES and (e[0] in ("any_write", "open", "write", "fs_modify") or id(e[1]) in pre) for e in path.effects[mark:]):
        raise Unsupported("loop over a collection of unbounded size whose body has effects (needs an inductive invariant)")
    for n in rebound:
        env.pop(n, None)


def _for_value(self, s, env, it):
    seq = self.iterate(it, s, env)
    try:
        for x in seq:
            self.assign(s.target, x, env)
            try:
                self.block(s.body, env)
            except Continue:
                pass
        else:
            self.block(s.orelse, env)
    except Break:
        pass


Engine.s_For = _s_for
