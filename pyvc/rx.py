"""rx -- exact decision procedures for properties of the regular expressions productmd uses.

A pattern is parsed by CPython's own ``re._parser`` and turned into a *prioritised NFA* (pNFA) whose
epsilon edges are ordered the way CPython's backtracking matcher tries them (greedy/lazy quantifiers,
alternation order).  On top of it:

* ``check_parse``      -- for EVERY word of an intended (tagged) language, ``re.match`` puts the named groups
                          at exactly the intended spans (first accepting path in priority order); else the
                          shortest counterexample.  Unbounded in the length of the string.
* ``lang_*``           -- match-language equality / inclusion / emptiness via determinisation over minterms.
* ``eda`` / ``degree`` -- exponential ambiguity and polynomial ambiguity degree (IDA chains).
* ``simulate``         -- direct backtracking simulator of the pNFA, used on every run for the differential
                          test against ``re.match`` (this is what ties the pNFA semantics to CPython).

Alphabet: code points 0..127 plus ONE representative non-ASCII code point (0x100) that belongs only to
negated classes and ``.`` (assumption S1 of DESIGN.md: ``\\d``/``\\w``/``\\s`` have their ASCII meaning).
Unsupported (raise Unsupported -> the obligation is *undecided*, never a verdict): back-references,
look-around, inline flags, ``$`` outside tail position, ``^`` not at the start, nullable repeat bodies.
"""
import collections
import re

try:
    import re._parser as sp
    import re._constants as sc
except ImportError:  # pragma: no cover  (python < 3.11)
    import sre_parse as sp
    import sre_constants as sc

NONASCII = 0x100
ALPHA = frozenset(range(128)) | {NONASCII}
DIGITS = frozenset(range(48, 58))
WORD = frozenset(list(range(48, 58)) + list(range(65, 91)) + list(range(97, 123)) + [95])
SPACE = frozenset([9, 10, 11, 12, 13, 28, 29, 30, 31, 32])


class Unsupported(Exception):
    pass


def _cat_set(cat):
    if cat == sc.CATEGORY_DIGIT:
        return DIGITS
    if cat == sc.CATEGORY_NOT_DIGIT:
        return ALPHA - DIGITS
    if cat == sc.CATEGORY_WORD:
        return WORD
    if cat == sc.CATEGORY_NOT_WORD:
        return ALPHA - WORD
    if cat == sc.CATEGORY_SPACE:
        return SPACE
    if cat == sc.CATEGORY_NOT_SPACE:
        return ALPHA - SPACE
    raise Unsupported("category %s" % cat)


def _in_set(items):
    neg = False
    s = set()
    for op, av in items:
        if op == sc.NEGATE:
            neg = True
        elif op == sc.LITERAL:
            s.add(av if av < 128 else NONASCII)
        elif op == sc.RANGE:
            if av[1] >= 128:
                raise Unsupported("non-ASCII range")
            s.update(range(av[0], av[1] + 1))
        elif op == sc.CATEGORY:
            s.update(_cat_set(av))
        else:
            raise Unsupported("set item %s" % op)
    s = frozenset(s) & ALPHA
    return (ALPHA - s) if neg else s


class PNFA(object):
    """eps[q] = ordered list of (target, tag|None), highest priority first; chr[q] = (charset, target)."""

    def __init__(self):
        self.eps = {}
        self.chr = {}
        self.n = 0
        self.acc = set()
        self.start = None
        self.absorbing = None
        self.dollar = False
        self.groups = []

    def new(self):
        self.n += 1
        return self.n - 1


def build(pattern, fullmatch=False):
    """pNFA of ``re.match(pattern, s)`` (rest of the string free unless the pattern ends in ``$``), or with
    fullmatch=True of the whole-string language (used for intended languages written in contracts)."""
    if isinstance(pattern, re.Pattern):
        if pattern.flags & ~re.UNICODE:
            raise Unsupported("flags")
        pattern = pattern.pattern
    tree = sp.parse(pattern)
    if tree.state.flags & ~(sc.SRE_FLAG_UNICODE):
        raise Unsupported("flags")
    gnames = {v: k for k, v in tree.state.groupdict.items()}
    A = PNFA()
    A.groups = [gnames.get(i, i) for i in range(1, tree.state.groups)]
    dollar = [False]

    def seq(items, nxt, tail, head):
        for i in range(len(items) - 1, -1, -1):
            nxt = node(items[i], nxt, tail and i == len(items) - 1, head and i == 0)
        return nxt

    def node(item, nxt, tail, head):
        op, av = item
        if op == sc.LITERAL:
            q = A.new()
            A.chr[q] = (frozenset([av if av < 128 else NONASCII]), nxt)
            return q
        if op == sc.NOT_LITERAL:
            q = A.new()
            A.chr[q] = (ALPHA - {av}, nxt)
            return q
        if op == sc.ANY:
            q = A.new()
            A.chr[q] = (ALPHA - {10}, nxt)
            return q
        if op == sc.IN:
            q = A.new()
            A.chr[q] = (_in_set(av), nxt)
            return q
        if op == sc.SUBPATTERN:
            group, add_flags, del_flags, p = av
            if add_flags or del_flags:
                raise Unsupported("inline flags")
            if group is None:
                return seq(list(p), nxt, tail, head)
            name = gnames.get(group, group)
            close = A.new()
            A.eps[close] = [(nxt, ("close", name))]
            body = seq(list(p), close, False, head)
            opn = A.new()
            A.eps[opn] = [(body, ("open", name))]
            return opn
        if op == sc.BRANCH:
            _, alts = av
            q = A.new()
            A.eps[q] = [(seq(list(a), nxt, tail, head), None) for a in alts]
            return q
        if op in (sc.MAX_REPEAT, sc.MIN_REPEAT):
            lo, hi, p = av
            greedy = op == sc.MAX_REPEAT
            items = list(p)
            if nullable(items):
                raise Unsupported("nullable repeat body")
            if hi == sc.MAXREPEAT:
                loop = A.new()
                body = seq(items, loop, False, False)
                A.eps[loop] = [(body, None), (nxt, None)] if greedy else [(nxt, None), (body, None)]
                cur = loop
            else:
                if hi > 64:
                    raise Unsupported("counted repeat too large")
                cur = nxt
                for _ in range(hi - lo):
                    o = A.new()
                    body = seq(items, cur, False, False)
                    A.eps[o] = [(body, None), (nxt, None)] if greedy else [(nxt, None), (body, None)]
                    cur = o
            if lo > 64:
                raise Unsupported("counted repeat too large")
            for _ in range(lo):
                cur = seq(items, cur, False, False)
            return cur
        if op == sc.AT:
            if av == sc.AT_BEGINNING:
                if not head:
                    raise Unsupported("^ not at the start")
                return nxt
            if av == sc.AT_END:
                if not tail:
                    raise Unsupported("$ not in tail position")
                dollar[0] = True
                return nxt
            raise Unsupported("anchor %s" % av)
        raise Unsupported("regex op %s" % op)

    def nullable(items):
        for op, av in items:
            if op in (sc.LITERAL, sc.NOT_LITERAL, sc.ANY, sc.IN):
                return False
            if op == sc.SUBPATTERN:
                if not nullable(list(av[3])):
                    return False
            elif op == sc.BRANCH:
                if not any(nullable(list(a)) for a in av[1]):
                    return False
            elif op in (sc.MAX_REPEAT, sc.MIN_REPEAT):
                if av[0] > 0 and not nullable(list(av[2])):
                    return False
            elif op == sc.AT:
                pass
            else:
                raise Unsupported("regex op %s" % op)
        return True

    end = A.new()
    start = seq(list(tree), end, True, True)
    if fullmatch or dollar[0]:
        A.acc.add(end)
        if dollar[0] and not fullmatch:
            e2 = A.new()
            A.acc.add(e2)
            c = A.new()
            A.chr[c] = (frozenset([10]), e2)
            A.eps[end] = [(c, None)]
    else:
        A.chr[end] = (ALPHA, end)
        A.acc.add(end)
        A.absorbing = end
    A.start = start
    A.dollar = dollar[0]
    return A


# ---------------------------------------------------------------------------------------------------------
# epsilon paths
# ---------------------------------------------------------------------------------------------------------

def _closure(A, s):
    seen = set()
    st = [s]
    res = set()
    while st:
        x = st.pop()
        if x in seen:
            continue
        seen.add(x)
        if x in A.chr or x in A.acc:
            res.add(x)
        for t, _ in A.eps.get(x, []):
            st.append(t)
    return res


def eps_paths(A, q):
    """All eps paths from q to resting states (chr states / accepting states), in priority order.
    Returns [(rest_state, tuple(tags), frozenset(higher_priority_resting_states))]."""
    out = []

    def dfs(s, tags, fadd, onpath):
        if s in onpath:
            return
        rest = s in A.chr or s not in A.eps
        if s in A.acc or rest:
            out.append((s, tuple(tags), frozenset(fadd)))
            if rest:
                return
        acc_f = set(fadd)
        for t, tag in A.eps[s]:
            dfs(t, tags + ([tag] if tag else []), set(acc_f), onpath | {s})
            acc_f |= _closure(A, t)
    dfs(q, [], set(), frozenset())
    return out


def _step_set(A, F, c, cache):
    key = (F, c)
    if key in cache:
        return cache[key]
    res = set()
    for f in F:
        if f in A.chr and c in A.chr[f][0]:
            res |= _closure(A, A.chr[f][1])
    res = frozenset(res)
    cache[key] = res
    return res


def minterms(sets):
    sig = collections.defaultdict(list)
    for c in sorted(ALPHA):
        sig[tuple(c in s for s in sets)].append(c)
    return [frozenset(v) for v in sig.values()]


def charsets(A):
    return [cs for cs, _ in A.chr.values()]


# ---------------------------------------------------------------------------------------------------------
# greedy-parse inclusion
# ---------------------------------------------------------------------------------------------------------

def check_parse(pattern, spec, groups, max_nodes=400000):
    """For every w in L(spec) (whole-string language; named groups mark the intended spans): does
    ``re.match(pattern, w)`` succeed and capture exactly the intended spans for `groups`?
    Returns (None, stats) if yes, else (shortest counterexample string, stats)."""
    R = build(pattern)
    I = build(spec, fullmatch=True)
    mts = minterms(charsets(R) + charsets(I))
    gs = set(groups)

    def proj(tags):
        return frozenset(t for t in tags if t[1] in gs)

    epsR = {}

    def epR(q):
        if q not in epsR:
            epsR[q] = [(s, proj(t), f) for s, t, f in eps_paths(R, q)]
        return epsR[q]

    epsI = {}

    def epI(q):
        if q not in epsI:
            epsI[q] = [(s, proj(t)) for s, t, f in eps_paths(I, q)]
        return epsI[q]

    cache = {}
    start = (I.start, frozenset([(R.start, frozenset())]))
    parent = {start: None}
    queue = collections.deque([start])
    nodes = 0
    while queue:
        node = queue.popleft()
        nodes += 1
        if nodes > max_nodes:
            raise Unsupported("state space too large")
        iI, M = node
        for j, T in epI(iI):
            MT = set()
            for q, F in M:
                for q2, T2, fadd in epR(q):
                    if T2 == T:
                        MT.add((q2, F | fadd))
            if j in I.acc:
                good = any(q2 in R.acc and not (F2 & R.acc) for q2, F2 in MT)
                if not good:
                    return _diversify(_rebuild(parent, node), mts), {"nodes": nodes}
            if j in I.chr:
                cs, tgt = I.chr[j]
                for mt in mts:
                    if not mt <= cs:
                        continue
                    c = min(mt)
                    M2 = set()
                    for q2, F2 in MT:
                        if q2 in R.chr and c in R.chr[q2][0]:
                            F3 = _step_set(R, F2, c, cache)
                            if R.absorbing is not None and R.absorbing in F3:
                                continue
                            M2.add((R.chr[q2][1], F3))
                    nxt = (tgt, frozenset(M2))
                    if nxt not in parent:
                        parent[nxt] = (node, c)
                        queue.append(nxt)
    return None, {"nodes": nodes}


def _diversify(w, mts):
    """replace every character by a position-dependent member of its own minterm class: the automata cannot tell
    the words apart, but captured VALUES at different spans become different (better native replays)"""
    out = []
    for i, ch in enumerate(w):
        c = ord(ch) if ord(ch) < 128 else NONASCII
        cls = None
        for m in mts:
            if c in m:
                cls = sorted(x for x in m if 33 <= x < 127) or sorted(m)
                break
        if not cls or len(cls) == 1:
            out.append(ch)
        else:
            x = cls[(i + 1) % len(cls)]
            out.append(chr(x) if x < 128 else "\u0100")
    return "".join(out)


def _rebuild(parent, node):
    chars = []
    while parent[node] is not None:
        node, c = parent[node]
        chars.append(c)
    return "".join(chr(c) for c in reversed(chars))


# ---------------------------------------------------------------------------------------------------------
# languages (priorities and tags ignored)
# ---------------------------------------------------------------------------------------------------------

class DFA(object):
    def __init__(self, mts, trans, acc, start):
        self.mts = mts
        self.trans = trans
        self.acc = acc
        self.start = start


def _dfa_pair(A, B):
    """Synchronous determinisation of two pNFAs over their common minterms; yields product states lazily."""
    mts = minterms(charsets(A) + charsets(B))
    reps = [min(m) for m in mts]

    def clo(X, S):
        r = set()
        for s in S:
            r |= _closure(X, s)
        return frozenset(r)

    def step(X, S, c):
        nxt = set()
        for s in S:
            if s in X.chr and c in X.chr[s][0]:
                nxt.add(X.chr[s][1])
        return clo(X, nxt)

    start = (clo(A, [A.start]), clo(B, [B.start]))
    return reps, start, step


def lang_compare(pa, pb, fullmatch_a=False, fullmatch_b=True, exclude_chars=(), max_states=200000):
    """Compare L(a) and L(b) restricted to strings without `exclude_chars`.
    Returns dict(only_a=<shortest word in a-b or None>, only_b=<shortest word in b-a or None>)."""
    A = build(pa, fullmatch=fullmatch_a)
    B = build(pb, fullmatch=fullmatch_b)
    reps, start, step = _dfa_pair(A, B)
    reps = [c for c in reps if c not in exclude_chars]
    # minterms are computed over all chars; excluding a char only removes the representative if it is the
    # sole member of its class, otherwise pick another representative
    mts = minterms(charsets(A) + charsets(B))
    reps = []
    for m in mts:
        cand = sorted(c for c in m if c not in exclude_chars)
        if cand:
            reps.append(cand[0])
    parent = {start: None}
    queue = collections.deque([start])
    only_a = only_b = None
    while queue:
        node = queue.popleft()
        if len(parent) > max_states:
            raise Unsupported("state space too large")
        SA, SB = node
        ina = bool(SA & A.acc)
        inb = bool(SB & B.acc)
        if ina and not inb and only_a is None:
            only_a = _rebuild(parent, node)
        if inb and not ina and only_b is None:
            only_b = _rebuild(parent, node)
        if only_a is not None and only_b is not None:
            break
        for c in reps:
            nxt = (step(A, SA, c), step(B, SB, c))
            if nxt not in parent:
                parent[nxt] = (node, c)
                queue.append(nxt)
    return {"only_a": only_a, "only_b": only_b, "states": len(parent)}


def lang_empty(pattern, fullmatch=True):
    """Shortest word of L(pattern) or None if the language is empty."""
    A = build(pattern, fullmatch=fullmatch)
    mts = minterms(charsets(A))
    reps = [min(m) for m in mts]
    start = frozenset(_closure(A, A.start))
    parent = {start: None}
    queue = collections.deque([start])
    while queue:
        S = queue.popleft()
        if S & A.acc:
            return _rebuild(parent, S)
        for c in reps:
            nxt = set()
            for s in S:
                if s in A.chr and c in A.chr[s][0]:
                    nxt |= _closure(A, A.chr[s][1])
            nxt = frozenset(nxt)
            if nxt and nxt not in parent:
                parent[nxt] = (S, c)
                queue.append(nxt)
    return None


# ---------------------------------------------------------------------------------------------------------
# ambiguity
# ---------------------------------------------------------------------------------------------------------

def _trimmed(A):
    """eps-free, multiplicity-preserving view over the chr states reachable from the start:
    trans[q] = list of (charset, q2), one entry per distinct eps path."""
    trans = collections.defaultdict(list)
    starts = [s for s, _, _ in eps_paths(A, A.start) if s in A.chr]
    seen = set(starts)
    st = list(starts)
    while st:
        q = st.pop()
        cs, t = A.chr[q]
        for s, _, _ in eps_paths(A, t):
            if s in A.chr:
                trans[q].append((cs, s))
                if s not in seen:
                    seen.add(s)
                    st.append(s)
    return sorted(seen), trans, starts


def _reach(succ, src):
    seen = set()
    st = [src]
    while st:
        x = st.pop()
        for y in succ(x):
            if y not in seen:
                seen.add(y)
                st.append(y)
    return seen


def eda(pattern):
    """Exponential degree of ambiguity of the (all-paths) automaton of `pattern`: a state q and a word w with two
    different paths q -w-> q.  Returns None, or a witness dict(state, prefix, pump) with strings."""
    A = build(pattern, fullmatch=True)
    rest, trans, starts = _trimmed(A)

    def succ2(node):
        p, q = node
        for i, (cs1, p2) in enumerate(trans[p]):
            for k, (cs2, q2) in enumerate(trans[q]):
                if cs1 & cs2:
                    yield (p2, q2)

    for q in rest:
        # (a) two parallel distinct moves q -c-> t (multiplicity) with t ->* q
        first = set()
        dup = False
        for i, (cs1, p2) in enumerate(trans[q]):
            for k, (cs2, q2) in enumerate(trans[q]):
                if i < k and (cs1 & cs2):
                    if p2 != q2:
                        first.add((p2, q2))
                    else:
                        # same target through two different eps paths
                        if q == p2 or q in _reach(lambda x: [t for _, t in trans[x]], p2):
                            dup = True
        if dup:
            return {"state": q, "kind": "parallel", "pump": _word_cycle(A, trans, q), "prefix": _word_to(trans, starts, q)}
        # (b) (q,q) ->+ (a,b) with a != b ->+ (q,q)
        for nd in first:
            if (q, q) == nd or (q, q) in _reach(succ2, nd):
                return {"state": q, "kind": "diverge", "pump": _word_pair_cycle(trans, q, nd), "prefix": _word_to(trans, starts, q)}
    return None


def _word_to(trans, starts, q):
    """a word leading from a start state to (just before) chr state q"""
    parent = {}
    dq = collections.deque()
    for s0 in starts:
        parent[s0] = None
        dq.append(s0)
    while dq:
        x = dq.popleft()
        if x == q:
            w = []
            while parent[x] is not None:
                x, c = parent[x]
                w.append(c)
            return "".join(chr(c) for c in reversed(w))
        for cs, t in trans[x]:
            if t not in parent:
                parent[t] = (x, min(cs))
                dq.append(t)
    return ""


def _word_cycle(A, trans, q):
    # some word along a cycle through q (for replay/pumping)
    parent = {q: None}
    dq = collections.deque([q])
    while dq:
        x = dq.popleft()
        for cs, t in trans[x]:
            if t == q:
                w = [min(cs)]
                while parent[x] is not None:
                    x, c = parent[x]
                    w.append(c)
                return "".join(chr(c) for c in reversed(w))
            if t not in parent:
                parent[t] = (x, min(cs))
                dq.append(t)
    return ""


def _word_pair_cycle(trans, q, nd):
    """word w (len>=1) labelling (q,q) -> nd ->* (q,q) in the pair product."""
    def succ(node):
        p, r = node
        for cs1, p2 in trans[p]:
            for cs2, r2 in trans[r]:
                c = cs1 & cs2
                if c:
                    yield (p2, r2), min(c)
    first_c = None
    for (n2, c) in succ((q, q)):
        if n2 == nd:
            first_c = c
            break
    parent = {nd: None}
    dq = collections.deque([nd])
    if nd == (q, q):
        return chr(first_c)
    while dq:
        x = dq.popleft()
        for y, c in succ(x):
            if y not in parent:
                parent[y] = (x, c)
                if y == (q, q):
                    w = []
                    while parent[y] is not None:
                        y, cc = parent[y]
                        w.append(cc)
                    return chr(first_c) + "".join(chr(c) for c in reversed(w))
                dq.append(y)
    return ""


def _sccs(nodes, succ):
    index = {}
    low = {}
    onst = set()
    st = []
    comp = {}
    counter = [0]
    ncomp = [0]
    for root in nodes:
        if root in index:
            continue
        work = [(root, iter(succ(root)))]
        index[root] = low[root] = counter[0]
        counter[0] += 1
        st.append(root)
        onst.add(root)
        while work:
            v, it = work[-1]
            adv = False
            for w in it:
                if w not in index:
                    index[w] = low[w] = counter[0]
                    counter[0] += 1
                    st.append(w)
                    onst.add(w)
                    work.append((w, iter(succ(w))))
                    adv = True
                    break
                elif w in onst:
                    low[v] = min(low[v], index[w])
            if adv:
                continue
            work.pop()
            if work:
                u = work[-1][0]
                low[u] = min(low[u], low[v])
            if low[v] == index[v]:
                while True:
                    w = st.pop()
                    onst.discard(w)
                    comp[w] = ncomp[0]
                    if w == v:
                        break
                ncomp[0] += 1
    return comp


def degree(pattern):
    """Polynomial ambiguity degree via IDA chains (meaningful when eda() is None).
    Returns (degree, ida_pairs)."""
    A = build(pattern, fullmatch=True)
    rest, trans, starts = _trimmed(A)

    def succ1(q):
        return [t for _, t in trans[q]]
    comp = _sccs(rest, succ1)
    reach = {q: _reach(succ1, q) for q in rest}

    def succ3(node):
        p, q, r = node
        for cs1, p2 in trans[p]:
            for cs2, q2 in trans[q]:
                c12 = cs1 & cs2
                if not c12:
                    continue
                for cs3, r2 in trans[r]:
                    if c12 & cs3:
                        yield (p2, q2, r2)

    ida = set()
    for p in rest:
        if p not in reach[p]:
            continue  # p must lie on a cycle
        for q in rest:
            if p == q or q not in reach[p] or q not in reach[q]:
                continue
            if comp[p] == comp[q]:
                # within one SCC an IDA pair implies EDA; skip here (eda() reports it)
                continue
            goal = (p, q, q)
            start = (p, p, q)
            seen = {start}
            st = [start]
            found = False
            while st and not found:
                x = st.pop()
                for y in succ3(x):
                    if y == goal:
                        found = True
                        break
                    if y not in seen:
                        seen.add(y)
                        st.append(y)
            if found:
                ida.add((p, q))
    # longest chain of IDA edges in the condensation DAG
    ncomp = (max(comp.values()) + 1) if comp else 0
    cedges = collections.defaultdict(dict)
    for q in rest:
        for t in succ1(q):
            if comp[q] != comp[t]:
                cedges[comp[q]].setdefault(comp[t], 0)
    for p, q in ida:
        # IDA between SCCs: weight 1 on every condensation path p ~> q; we add a direct weighted edge
        cedges[comp[p]][comp[q]] = 1
    memo = {}

    def best(c):
        if c in memo:
            return memo[c]
        memo[c] = 0
        m = 0
        for d, w in cedges[c].items():
            m = max(m, w + best(d))
        memo[c] = m
        return m
    import sys
    sys.setrecursionlimit(max(10000, sys.getrecursionlimit()))
    deg = max([best(c) for c in range(ncomp)] + [0])
    return deg, len(ida)


# ---------------------------------------------------------------------------------------------------------
# simulator (differential test against CPython)
# ---------------------------------------------------------------------------------------------------------

def simulate(A, s, budget=2000000):
    """Backtracking simulation of the pNFA on string s in priority order.  Returns None (no match) or
    dict group -> (start, end) for the groups that participated (last iteration wins)."""
    codes = [ord(ch) if ord(ch) < 128 else NONASCII for ch in s]
    n = len(codes)
    steps = [0]
    # iterative DFS with explicit stack: (state, pos, spans, open_marks)
    import sys
    sys.setrecursionlimit(max(100000, sys.getrecursionlimit()))

    def run(q, pos, spans, opens):
        steps[0] += 1
        if steps[0] > budget:
            raise Unsupported("simulation budget")
        if q == A.absorbing:
            return spans
        if q in A.acc and pos == n:
            return spans
        if q in A.chr:
            cs, t = A.chr[q]
            if pos < n and codes[pos] in cs:
                return run(t, pos + 1, spans, opens)
            return None
        for t, tag in A.eps.get(q, []):
            sp2, op2 = spans, opens
            if tag:
                kind, name = tag
                if kind == "open":
                    op2 = dict(opens)
                    op2[name] = pos
                else:
                    sp2 = dict(spans)
                    sp2[name] = (opens[name], pos)
            r = run(t, pos, sp2, op2)
            if r is not None:
                return r
        return None
    return run(A.start, 0, {}, {})


def differential(pattern, maxlen=6, extra=(), limit=200000):
    """Compare simulate() with re.match on every string up to `maxlen` over the pattern's own minterm
    representatives (plus `extra` strings).  Returns (n_strings, first_mismatch_or_None)."""
    import itertools
    rx = re.compile(pattern) if not isinstance(pattern, re.Pattern) else pattern
    A = build(rx)
    mts = minterms(charsets(A))
    reps = []
    for m in mts:
        c = min(m)
        reps.append(chr(c) if c < 128 else "Ā")
    count = 0

    def one(s):
        m = rx.match(s)
        got = simulate(A, s)
        if m is None:
            return got is None
        if got is None:
            return False
        for g in A.groups:
            exp = m.span(g)
            have = got.get(g, (-1, -1))
            if exp != have:
                return False
        return True

    for s in extra:
        count += 1
        if not one(s):
            return count, s
    for L in range(0, maxlen + 1):
        for tup in itertools.product(reps, repeat=L):
            s = "".join(tup)
            count += 1
            if not one(s):
                return count, s
            if count >= limit:
                return count, None
    return count, None


def all_parses(A, s, groups=None, limit=64):
    """All accepting runs of pNFA `A` on `s` (priority order), as list of dict group -> (start, end)."""
    codes = [ord(ch) if ord(ch) < 128 else NONASCII for ch in s]
    n = len(codes)
    out = []

    def run(q, pos, spans, opens, onpath):
        if len(out) >= limit:
            return
        if q == A.absorbing or (q in A.acc and pos == n):
            d = dict(spans)
            if d not in out:
                out.append(d)
            if q == A.absorbing:
                return
        if q in A.chr:
            cs, t = A.chr[q]
            if pos < n and codes[pos] in cs:
                run(t, pos + 1, spans, opens, frozenset())
            return
        if q in onpath:
            return
        for t, tag in A.eps.get(q, []):
            sp2, op2 = spans, opens
            if tag:
                kind, name = tag
                if kind == "open":
                    op2 = dict(opens)
                    op2[name] = pos
                else:
                    sp2 = dict(spans)
                    sp2[name] = (opens[name], pos)
            run(t, pos, sp2, op2, onpath | {q})
    run(A.start, 0, {}, {}, frozenset())
    if groups is not None:
        res = []
        for d in out:
            p = {g: d.get(g) for g in groups}
            if p not in res:
                res.append(p)
        return res
    return out


def lang_common_word(pa, pb, fullmatch_a=True, fullmatch_b=True, max_states=200000):
    """Shortest word in L(a) & L(b), or None."""
    A = build(pa, fullmatch=fullmatch_a)
    B = build(pb, fullmatch=fullmatch_b)
    reps, start, step = _dfa_pair(A, B)
    parent = {start: None}
    queue = collections.deque([start])
    while queue:
        node = queue.popleft()
        if len(parent) > max_states:
            raise Unsupported("state space too large")
        SA, SB = node
        if (SA & A.acc) and (SB & B.acc):
            return _rebuild(parent, node)
        for c in reps:
            nxt = (step(A, SA, c), step(B, SB, c))
            if not nxt[0] or not nxt[1]:
                continue
            if nxt not in parent:
                parent[nxt] = (node, c)
                queue.append(nxt)
    return None
