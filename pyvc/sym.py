"""Symbolic value domain (DESIGN 4.1) and dual-mode combinators used by contracts and spec functions.

Every combinator accepts concrete Python values as well as symbolic ones (``SV``) and computes natively when
everything is concrete -- so the same spec text is an SMT formula for pyvc and a Python oracle for the
bounded stand-ins and replays."""
import re

import z3

try:
    import re._parser as sp
    import re._constants as sc
except ImportError:  # pragma: no cover
    import sre_parse as sp
    import sre_constants as sc

Val = z3.Datatype("Val")
Val.declare("VNone")
Val.declare("VBool", ("b", z3.BoolSort()))
Val.declare("VInt", ("i", z3.IntSort()))
Val.declare("VStr", ("s", z3.StringSort()))
Val.declare("VFloat", ("f", z3.RealSort()))
Val.declare("VRef", ("r", z3.IntSort()))
Val = Val.create()
S = z3.StringSort()
RS = z3.ReSort(S)

# reference kinds (uninterpreted attributes of a reference)
K_DICT, K_LIST, K_SET, K_TUPLE, K_OBJ = 1, 2, 3, 4, 5
ref_kind = z3.Function("ref_kind", z3.IntSort(), z3.IntSort())
ref_len = z3.Function("ref_len", z3.IntSort(), z3.IntSort())
float_str = z3.Function("float_str", z3.RealSort(), S)     # str(float)  (A5)
str_float = z3.Function("str_float", S, z3.RealSort())     # float(str)  (A5)


class SV(object):
    """symbolic Python value (z3 term of sort Val)"""
    __slots__ = ("t",)

    def __init__(self, t):
        self.t = t

    def __repr__(self):
        return "SV(%s)" % (self.t,)


class SBool(object):
    """symbolic truth value that is not (yet) a Python value; produced by combinators"""
    __slots__ = ("t",)

    def __init__(self, t):
        self.t = t


_counter = [0]


def fresh(name, sort=None):
    _counter[0] += 1
    return z3.Const("%s!%d" % (name, _counter[0]), sort if sort is not None else Val)


def fresh_val(name):
    return SV(fresh(name))


def is_sym(v):
    return isinstance(v, SV)


def lift(v):
    """Python scalar or SV -> z3 Val term"""
    if isinstance(v, SV):
        return v.t
    if v is None:
        return Val.VNone
    if isinstance(v, bool):
        return Val.VBool(v)
    if isinstance(v, int):
        return Val.VInt(v)
    if isinstance(v, str):
        return Val.VStr(z3.StringVal(v))
    if isinstance(v, float):
        return Val.VFloat(z3.RealVal(repr(v)))
    raise TypeError("cannot lift %r" % (v,))


def liftable(v):
    return v is None or isinstance(v, (SV, bool, int, str, float))


def simp(t):
    return z3.simplify(t)


def as_bool(t):
    """z3 Bool -> python bool if it simplifies to a constant, else the term"""
    if isinstance(t, bool):
        return t
    t = z3.simplify(t)
    if z3.is_true(t):
        return True
    if z3.is_false(t):
        return False
    return t


def B(x):
    """anything boolean-ish -> z3 Bool term"""
    if isinstance(x, bool):
        return z3.BoolVal(x)
    if isinstance(x, SBool):
        return x.t
    return x


def And(*xs):
    xs = [x for x in xs]
    if all(isinstance(x, bool) for x in xs):
        return all(xs)
    if any(x is False for x in xs):
        return False
    ts = [B(x) for x in xs if x is not True]
    if not ts:
        return True
    # no z3.simplify here: it would fuse several regular memberships of one string into one intersection,
    # which the solvers handle far worse than the separate conjuncts
    return ts[0] if len(ts) == 1 else z3.And(*ts)


def Or(*xs):
    if all(isinstance(x, bool) for x in xs):
        return any(xs)
    if any(x is True for x in xs):
        return True
    ts = [B(x) for x in xs if x is not False]
    if not ts:
        return False
    return ts[0] if len(ts) == 1 else z3.Or(*ts)


def Not(x):
    if isinstance(x, bool):
        return not x
    return as_bool(z3.Not(B(x)))


def Implies(a, b):
    return Or(Not(a), b)


def Iff(a, b):
    if isinstance(a, bool) and isinstance(b, bool):
        return a == b
    return as_bool(B(a) == B(b))


def If(c, a, b):
    """value-level if: c bool-ish, a/b python scalars or SV"""
    if isinstance(c, bool):
        return a if c else b
    return SV(z3.simplify(z3.If(B(c), lift(a), lift(b))))


# ---- type tests -----------------------------------------------------------------------------------------
def is_none(v):
    if isinstance(v, SV):
        return as_bool(Val.is_VNone(v.t))
    return v is None


def is_bool(v):
    if isinstance(v, SV):
        return as_bool(Val.is_VBool(v.t))
    return isinstance(v, bool)


def is_int(v):
    """isinstance(v, int) -- bool is a subclass of int"""
    if isinstance(v, SV):
        return as_bool(z3.Or(Val.is_VInt(v.t), Val.is_VBool(v.t)))
    return isinstance(v, int)


def is_strict_int(v):
    if isinstance(v, SV):
        return as_bool(Val.is_VInt(v.t))
    return isinstance(v, int) and not isinstance(v, bool)


def is_str(v):
    if isinstance(v, SV):
        return as_bool(Val.is_VStr(v.t))
    return isinstance(v, str)


def is_float(v):
    if isinstance(v, SV):
        return as_bool(Val.is_VFloat(v.t))
    return isinstance(v, float)


def is_ref(v):
    if isinstance(v, SV):
        return as_bool(Val.is_VRef(v.t))
    return not liftable(v)


def is_kind(v, kind):
    if isinstance(v, SV):
        return as_bool(z3.And(Val.is_VRef(v.t), ref_kind(Val.r(v.t)) == kind))
    return {K_DICT: dict, K_LIST: list, K_SET: (set, frozenset), K_TUPLE: tuple}.get(kind, object) and \
        isinstance(v, {K_DICT: dict, K_LIST: list, K_SET: (set, frozenset), K_TUPLE: tuple}.get(kind, object))


def is_dict(v):
    return is_kind(v, K_DICT)


def is_list(v):
    return is_kind(v, K_LIST)


def sstr(v):
    """z3 String term of a value known to be a str"""
    if isinstance(v, str):
        return z3.StringVal(v)
    if isinstance(v, SV):
        return z3.simplify(Val.s(v.t))
    if z3.is_expr(v):
        return v
    raise TypeError("sstr %r" % (v,))


def sint(v):
    if isinstance(v, bool):
        return z3.IntVal(1 if v else 0)
    if isinstance(v, int):
        return z3.IntVal(v)
    if isinstance(v, SV):
        return z3.simplify(z3.If(Val.is_VBool(v.t), z3.If(Val.b(v.t), z3.IntVal(1), z3.IntVal(0)), Val.i(v.t)))
    if z3.is_expr(v):
        return v
    raise TypeError("sint %r" % (v,))


def mk_str(t):
    """z3 String term -> value (python str when constant)"""
    t = z3.simplify(t)
    if z3.is_string_value(t):
        return t.as_string() if not _has_escape(t) else _unescape(t)
    return SV(Val.VStr(t))


def _has_escape(t):
    return "\\u{" in t.as_string()


def _unescape(t):
    s = t.as_string()
    return re.sub(r"\\u\{([0-9a-fA-F]+)\}", lambda m: chr(int(m.group(1), 16)), s)


def mk_int(t):
    t = z3.simplify(t)
    if z3.is_int_value(t):
        return t.as_long()
    return SV(Val.VInt(t))


def mk_bool(t):
    t = as_bool(t)
    if isinstance(t, bool):
        return t
    return SV(Val.VBool(t))


def concrete(v):
    """SV whose term is a constant -> python value; anything else unchanged"""
    if not isinstance(v, SV):
        return v
    t = z3.simplify(v.t)
    if z3.is_app(t) and t.decl().kind() == z3.Z3_OP_DT_CONSTRUCTOR:
        n = t.decl().name()
        if n == "VNone":
            return None
        a = t.arg(0)
        if n == "VBool" and (z3.is_true(a) or z3.is_false(a)):
            return z3.is_true(a)
        if n == "VInt" and z3.is_int_value(a):
            return a.as_long()
        if n == "VStr" and z3.is_string_value(a):
            return mk_str(a)
    return SV(t)


# ---- python semantics -----------------------------------------------------------------------------------
def truthy(v):
    if isinstance(v, SV):
        t = v.t
        return as_bool(z3.If(Val.is_VNone(t), False,
                       z3.If(Val.is_VBool(t), Val.b(t),
                       z3.If(Val.is_VInt(t), Val.i(t) != 0,
                       z3.If(Val.is_VStr(t), z3.Length(Val.s(t)) > 0,
                       z3.If(Val.is_VFloat(t), Val.f(t) != 0,
                       z3.If(ref_kind(Val.r(t)) == K_OBJ, True, ref_len(Val.r(t)) != 0)))))))
    if isinstance(v, SBool):
        return as_bool(v.t)
    return bool(v)


def _isnum(t):
    return z3.Or(Val.is_VInt(t), Val.is_VBool(t), Val.is_VFloat(t))


def _num(t):
    return z3.If(Val.is_VBool(t), z3.If(Val.b(t), z3.RealVal(1), z3.RealVal(0)),
                 z3.If(Val.is_VInt(t), z3.ToReal(Val.i(t)), Val.f(t)))


def eq(a, b):
    """Python ``a == b`` for scalars (True == 1, 1 == 1.0); references compare by identity (see engine)."""
    if not isinstance(a, SV) and not isinstance(b, SV):
        return a == b
    ta, tb = lift(a), lift(b)
    # cheap special cases keep the formulas small
    if not isinstance(b, SV):
        a, b, ta, tb = b, a, tb, ta
    if not isinstance(a, SV):
        if a is None:
            return as_bool(Val.is_VNone(tb))
        if isinstance(a, str):
            return as_bool(z3.And(Val.is_VStr(tb), Val.s(tb) == z3.StringVal(a)))
        if isinstance(a, (bool, int, float)):
            return as_bool(z3.And(_isnum(tb), _num(tb) == _num(ta)))
    return as_bool(z3.Or(ta == tb, z3.And(_isnum(ta), _isnum(tb), _num(ta) == _num(tb))))


def isin(v, consts):
    """``v in [c1, c2, ...]`` for a list of concrete scalars"""
    if not isinstance(v, SV):
        return any(v == c for c in consts)
    return Or(*[eq(v, c) for c in consts])


# ---- regular expressions -> z3 ----------------------------------------------------------------------------
_rx_cache = {}


MAXCHAR = 0x2FFFF


def _zchar(c):
    if 32 <= c < 127 and chr(c) not in '"\\':
        return chr(c)
    return "\\u{%x}" % c


def ranges_to_re(ranges):
    """sorted disjoint (lo, hi) code point ranges -> z3 regex WITHOUT complement/difference"""
    parts = []
    for lo, hi in ranges:
        if lo == hi:
            parts.append(z3.Re(z3.StringVal(_zchar(lo))))
        else:
            parts.append(z3.Range(z3.StringVal(_zchar(lo)), z3.StringVal(_zchar(hi))))
    if not parts:
        return z3.Empty(RS)
    return parts[0] if len(parts) == 1 else z3.Union(*parts)


def norm_ranges(ranges):
    out = []
    for lo, hi in sorted(ranges):
        if out and lo <= out[-1][1] + 1:
            out[-1] = (out[-1][0], max(out[-1][1], hi))
        else:
            out.append((lo, hi))
    return out


def complement_ranges(ranges):
    out = []
    cur = 0
    for lo, hi in norm_ranges(ranges):
        if lo > cur:
            out.append((cur, lo - 1))
        cur = hi + 1
    if cur <= MAXCHAR:
        out.append((cur, MAXCHAR))
    return out


def not_chars(chars):
    """regex of one character that is none of `chars`"""
    return ranges_to_re(complement_ranges([(ord(c), ord(c)) for c in chars]))


_CAT = {}


def _cat_ranges(av):
    D = [(48, 57)]
    W = [(48, 57), (65, 90), (95, 95), (97, 122)]
    SP = [(9, 13), (28, 32)]
    if av == sc.CATEGORY_DIGIT:
        return D
    if av == sc.CATEGORY_WORD:
        return W
    if av == sc.CATEGORY_SPACE:
        return SP
    if av == sc.CATEGORY_NOT_DIGIT:
        return complement_ranges(D)
    if av == sc.CATEGORY_NOT_WORD:
        return complement_ranges(W)
    if av == sc.CATEGORY_NOT_SPACE:
        return complement_ranges(SP)
    raise ValueError("regex category %s" % av)


class _RxBuilder(object):
    def __init__(self):
        self.allc = z3.AllChar(RS)
        self.dollar = False
        self.groups = {}      # group id -> (z3 regex of the group's own sub-pattern, optional: bool)

    def charset(self, items):
        neg = False
        rs = []
        for op, av in items:
            if op == sc.NEGATE:
                neg = True
            elif op == sc.LITERAL:
                rs.append((av, av))
            elif op == sc.RANGE:
                rs.append((av[0], av[1]))
            elif op == sc.CATEGORY:
                rs.extend(_cat_ranges(av))
            else:
                raise ValueError("regex set item %s" % op)
        rs = norm_ranges(rs)
        return ranges_to_re(complement_ranges(rs) if neg else rs)

    def seq(self, items, tail, head, opt):
        rs = [self.node(it, tail and i == len(items) - 1, head and i == 0, opt) for i, it in enumerate(items)]
        rs = [r for r in rs if r is not None]
        if not rs:
            return z3.Re("")
        return rs[0] if len(rs) == 1 else z3.Concat(*rs)

    def node(self, item, tail, head, opt):
        op, av = item
        allc = self.allc
        if op == sc.LITERAL:
            return z3.Re(z3.StringVal(_zchar(av)))
        if op == sc.NOT_LITERAL:
            return ranges_to_re(complement_ranges([(av, av)]))
        if op == sc.ANY:
            return ranges_to_re(complement_ranges([(10, 10)]))
        if op == sc.IN:
            return self.charset(av)
        if op == sc.SUBPATTERN:
            if av[1] or av[2]:
                raise ValueError("inline flags")
            r = self.seq(list(av[3]), tail, head, opt)
            if av[0] is not None:
                self.groups[av[0]] = (r, opt)
            return r
        if op == sc.BRANCH:
            return z3.Union(*[self.seq(list(a), tail, head, True) for a in av[1]])
        if op in (sc.MAX_REPEAT, sc.MIN_REPEAT):
            lo, hi, p = av
            body = self.seq(list(p), False, False, opt or lo == 0)
            if hi == sc.MAXREPEAT:
                if lo == 0:
                    return z3.Star(body)
                if lo == 1:
                    return z3.Plus(body)
                return z3.Concat(z3.Loop(body, lo, lo), z3.Star(body))
            return z3.Loop(body, lo, hi) if hi > 0 else z3.Re("")
        if op == sc.AT:
            if av == sc.AT_BEGINNING:
                if not head:
                    raise ValueError("^ not at the start")
                return None
            if av == sc.AT_END:
                if not tail:
                    raise ValueError("$ not in tail position")
                self.dollar = True
                return None
        raise ValueError("regex op %s" % op)


def _rx_build(pattern):
    if isinstance(pattern, re.Pattern):
        if pattern.flags & ~re.UNICODE:
            raise ValueError("regex flags unsupported")
        pattern = pattern.pattern
    key = ("b", pattern)
    if key in _rx_cache:
        return _rx_cache[key]
    tree = sp.parse(pattern)
    b = _RxBuilder()
    body = b.seq(list(tree), True, True, False)
    if b.dollar:
        r = z3.Concat(body, z3.Option(z3.Re("\n")))
    else:
        r = z3.Concat(body, z3.Star(b.allc))
    names = {v: k for k, v in tree.state.groupdict.items()}
    groups = {}
    for gid, (gr, opt) in b.groups.items():
        groups[names.get(gid, gid)] = (gr, opt)
    _rx_cache[key] = (r, groups, body)
    return _rx_cache[key]


def rx_to_z3(pattern):
    """z3 regex for the MATCH language of `pattern`: {w | re.match(pattern, w)} (free suffix unless it ends in ``$``,
    which also tolerates one trailing newline).  ASCII meaning of \\d \\w \\s (assumption S1)."""
    return _rx_build(pattern)[0]


def rx_groups(pattern):
    """named/numbered groups of `pattern`: name -> (z3 regex over-approximating the captured text, may_be_None)"""
    return _rx_build(pattern)[1]


def rx_full(pattern):
    """z3 regex of the whole-string language of `pattern` (no free suffix; pattern must not use `$`)."""
    return _rx_build(pattern)[2]


def matches(pattern, v):
    """``re.match(pattern, v) is not None`` for a str value (False for non-str values)."""
    if isinstance(pattern, re.Pattern):
        pattern = pattern.pattern
    if not isinstance(v, SV):
        return isinstance(v, str) and re.match(pattern, v) is not None
    return as_bool(z3.And(Val.is_VStr(v.t), z3.InRe(Val.s(v.t), rx_to_z3(pattern))))


def startswith(v, prefix):
    if not isinstance(v, SV):
        return isinstance(v, str) and v.startswith(prefix)
    return as_bool(z3.And(Val.is_VStr(v.t), z3.PrefixOf(z3.StringVal(prefix), Val.s(v.t))))


def contains(v, sub):
    if not isinstance(v, SV):
        return isinstance(v, str) and sub in v
    anyre = z3.Star(z3.AllChar(RS))
    return as_bool(z3.And(Val.is_VStr(v.t), z3.InRe(Val.s(v.t), z3.Concat(anyre, z3.Re(sub), anyre))))


# ---- dual-mode string/int helpers for spec texts -----------------------------------------------------------------
def endswith(v, suffix):
    if not isinstance(v, SV):
        return isinstance(v, str) and v.endswith(suffix)
    return as_bool(z3.And(Val.is_VStr(v.t), z3.SuffixOf(z3.StringVal(suffix), Val.s(v.t))))


def concat(*parts):
    """concatenation of str values (python str / SV known to be str)"""
    if all(isinstance(p, str) for p in parts):
        return "".join(parts)
    return mk_str(z3.Concat(*[sstr(p) for p in parts]))


def drop_suffix(v, n):
    """v[:-n] for a str of length >= n"""
    if isinstance(v, str):
        return v[:-n]
    s = sstr(v)
    return mk_str(z3.SubString(s, 0, z3.Length(s) - n))


def drop_prefix(v, n):
    if isinstance(v, str):
        return v[n:]
    s = sstr(v)
    return mk_str(z3.SubString(s, n, z3.Length(s) - n))


def str_len(v):
    if isinstance(v, str):
        return len(v)
    return mk_int(z3.Length(sstr(v)))


def int_of_digits(v):
    """int(v) for v in [0-9]+"""
    if isinstance(v, str):
        return int(v)
    return mk_int(z3.StrToInt(sstr(v)))


_D = z3.Plus(z3.Range("0", "9"))
FLOAT_REPR_RE = z3.Concat(z3.Option(z3.Re("-")), _D, z3.Option(z3.Concat(z3.Re("."), _D)),
                          z3.Option(z3.Concat(z3.Re("e"), z3.Union(z3.Re("+"), z3.Re("-")), _D)))

INT_STR = {}       # id(str term) -> (str term, int term): A5  int(str(i)) == i


NONNEG_HOOK = [None]      # set by the engine: does the current path condition entail  t >= 0 ?


def int_str_term(t):
    """z3 String term of str(i) for the Int term t (registered so that int() of it gives t back).  When the path condition entails
    t >= 0 the term is the atomic IntToStr(t): an if-then-else numeral is hoisted out of concatenations by z3's simplifier, which
    defeats the structural (piece-wise) string reasoning."""
    if NONNEG_HOOK[0] is not None and not z3.is_int_value(t) and NONNEG_HOOK[0](t):
        s = z3.IntToStr(t)
    else:
        s = z3.simplify(z3.If(t >= 0, z3.IntToStr(t), z3.Concat(z3.StringVal("-"), z3.IntToStr(-t))))
    INT_STR[s.get_id()] = (s, t)
    return s


def str_of_int(i):
    """str(i) for an int"""
    if isinstance(i, int):
        return str(i)
    return mk_str(int_str_term(z3.simplify(sint(i))))


def in_lang(v, full_pattern):
    """v is a str in the WHOLE-STRING language of `full_pattern`"""
    if not isinstance(v, SV):
        return isinstance(v, str) and re.compile("(?:%s)\\Z" % full_pattern).match(v) is not None
    return as_bool(z3.And(Val.is_VStr(v.t), z3.InRe(Val.s(v.t), rx_full(full_pattern))))
