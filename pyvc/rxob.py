"""Helpers turning rx decisions into obligations with native replays."""
import re

from . import rx

PARSE_REPLAY = r'''
import re
from pyvc import rx
pattern = %(pattern)r
spec = %(spec)r
groups = %(groups)r
w = %(w)r
A = rx.build(spec, fullmatch=True)
intended = rx.all_parses(A, w, groups)
m = re.compile(pattern).match(w)
print("string:", repr(w)); print("intended parses:", intended)
if not intended: NOT_REPRODUCED("string is not in the intended language")
if m is None: REPRODUCED("re.match fails on a string of the intended language")
got = {g: (m.span(g) if m.span(g) != (-1, -1) else None) for g in groups}
print("re.match spans:  ", got, {g: m.group(g) for g in groups})
if any(p != got for p in intended): REPRODUCED("captured spans differ from the intended ones")
NOT_REPRODUCED()
'''


def parse_obligation(run, oid, pattern, spec, groups, functions=(), fn_replay=None):
    """for every word of L(spec): re.match(pattern) captures `groups` at the intended spans"""
    if isinstance(pattern, re.Pattern):
        pattern = pattern.pattern
    with run.obligation(oid, "rx", functions) as ob:
        cex, stats = rx.check_parse(pattern, spec, groups)
        ob.detail["nodes"] = stats["nodes"]
        if cex is None:
            ob.discharged()
        else:
            script = (fn_replay or PARSE_REPLAY) % {"pattern": pattern, "spec": spec, "groups": list(groups), "w": cex}
            ob.refuted("shortest counterexample string %r" % cex, replay_script=script, clause=oid)
    return ob


LANG_REPLAY = r'''
import re
pattern = %(pattern)r
spec = %(spec)r
w = %(w)r
a = re.compile(pattern).match(w) is not None
b = re.compile("(?:" + spec + r")\Z").match(w) is not None
print("string:", repr(w), " library pattern accepts:", a, " documented language contains it:", b)
if a != b: REPRODUCED("validator and documented language disagree on %%r" %% w)
NOT_REPRODUCED()
'''


def language_obligation(run, oid, pattern, spec, functions=(), exclude_newline=True, fn_replay=None):
    """match language of `pattern` == whole-string language `spec` (over newline-free strings)"""
    if isinstance(pattern, re.Pattern):
        pattern = pattern.pattern
    with run.obligation(oid, "rx", functions) as ob:
        r = rx.lang_compare(pattern, spec, exclude_chars=(10,) if exclude_newline else ())
        ob.detail["states"] = r["states"]
        w = r["only_a"] if r["only_a"] is not None else r["only_b"]
        if w is None:
            ob.discharged()
        else:
            script = (fn_replay or LANG_REPLAY) % {"pattern": pattern, "spec": spec, "w": w}
            ob.refuted("%r is %s" % (w, "accepted but not documented" if r["only_a"] is not None else "documented but refused"),
                       replay_script=script, clause=oid)
    return ob


def differential_check(run, patterns, maxlen):
    """ties the pNFA semantics to CPython's sre on every run (DESIGN 4.6)"""
    total = 0
    for name, p in patterns:
        n, bad = rx.differential(p, maxlen=maxlen, limit=60000)
        total += n
        if bad is not None:
            run.faults.append("rx differential test: pNFA and re.match disagree on %r for pattern %s" % (bad, name))
    run.assumed_check("rx~sre", "pNFA simulator vs re.match (all groups) on all strings up to length %d over each "
                      "pattern's minterm representatives" % maxlen, total, not run.faults)
    return total
