"""Models of Python built-ins, str/dict/list/set methods and the few stdlib calls productmd uses
(DESIGN 4.2, 5.3).  Everything not modelled raises Unsupported -> the function is undecided, never guessed."""
import ast
import builtins
import re
import types

import z3

from . import sym
from .sym import SV, Val, lift, as_bool, B
from .engine import (Unsupported, PyRaise, ExcVal, Obj, FuncRef, BoundMethod, ClassRef, SuperRef, NativeMethod, SymSeq,
                     SymDict, Entry, StrCount, SplitResult, ABSENT, _Gen, _DictView, Infeasible)

STR_METHODS = {"startswith", "endswith", "split", "rsplit", "strip", "rstrip", "lstrip", "lower", "upper", "replace",
               "join", "count", "find", "format", "index", "isdigit", "encode"}
DICT_METHODS = {"get", "setdefault", "keys", "values", "items", "update", "pop", "iteritems", "itervalues", "copy"}
LIST_METHODS = {"append", "extend", "sort", "index", "insert", "pop", "remove", "count", "reverse"}
SET_METHODS = {"add", "union", "update", "discard", "remove", "issubset", "intersection", "difference"}

WS = " \t\n\r\x0b\x0c\x1c\x1d\x1e\x1f\x85\xa0"
WS_ASCII = " \t\n\r\x0b\x0c\x1c\x1d\x1e\x1f"

lower_uf = z3.Function("py_lower", sym.S, sym.S)


def ReplaceAll(s, a, b):
    ctx = s.ctx
    return z3.SeqRef(z3.Z3_mk_seq_replace_all(ctx.ref(), s.as_ast(), a.as_ast(), b.as_ast()), ctx)


def int_to_str(i):
    return sym.int_str_term(z3.simplify(i))


DIGITS_RE = z3.Plus(z3.Range("0", "9"))
_ws = z3.Union(*[z3.Re(c) for c in WS_ASCII])
INT_MAYBE_RE = z3.Concat(z3.Star(_ws), z3.Option(z3.Union(z3.Re("+"), z3.Re("-"))),
                         z3.Plus(z3.Union(z3.Range("0", "9"), z3.Re("_"))), z3.Star(_ws))


class ListSet(object):
    """small set that may hold symbolic scalars: list of elements that are pairwise distinct ON THIS PATH"""

    def __init__(self, items=()):
        self.items = list(items)

    def __len__(self):
        return len(self.items)


class Spread(object):
    """marker element of a concrete list: the elements of a symbolic sequence, spliced in"""

    def __init__(self, t):
        self.t = t


class SymMatch(object):
    """result of a successful match of a symbolic string"""

    def __init__(self, pattern, s):
        self.pattern = pattern
        self.s = s


class Models(object):
    def __init__(self, engine):
        self.E = engine
        self.call_table = {}
        self.native_pure = {min, max, abs, round, divmod, ord, chr, repr, hash, id}
        self._register()

    # ------------------------------------------------------------------------------------------- conversion
    def from_native(self, v):
        if isinstance(v, dict):
            d = SymDict("const", closed=True, origin="const")
            for k, x in v.items():
                d.entries.append(Entry(k, True, self.from_native(x)))
            return d
        if isinstance(v, list):
            return [self.from_native(x) for x in v]
        return v

    def new_dict(self, name="dict"):
        return SymDict(name, closed=True, origin="code")

    # ------------------------------------------------------------------------------------------- truth / sets
    def truth(self, v):
        if isinstance(v, SymDict):
            if v.closed:
                pres = [e.present for e in v.entries]
                if all(isinstance(p, bool) for p in pres):
                    return any(pres)
                return self.E.decide(sym.Or(*pres))
            if any(e.present is True for e in v.entries):
                return True
            raise Unsupported("truthiness of an open symbolic dict")
        if isinstance(v, (StrCount,)):
            return not self.compare(ast.Eq(), v, 0)
        if isinstance(v, SymMatch):
            return True
        if isinstance(v, (FuncRef, BoundMethod, ClassRef)):
            return True
        if isinstance(v, SplitResult):
            return True     # split() never returns an empty list for a non-empty separator
        if isinstance(v, _Gen):
            return True
        return bool(v)

    def make_set(self, items):
        """every set created by the code under verification is a ListSet (it may later receive symbolic elements)"""
        ls = ListSet()
        for x in items:
            self.ls_add(ls, x)
        return ls

    def ls_add(self, ls, x):
        x = sym.concrete(x)
        for e in ls.items:
            if sym.liftable(x) and sym.liftable(e):
                if self.E.decide(sym.eq(x, e)):
                    return
            elif x is e:
                return
        ls.items.append(x)

    def to_listset(self, s):
        if isinstance(s, ListSet):
            return ListSet(s.items)
        return ListSet(sorted(s, key=repr))

    def set_order(self, s):
        """iteration order of a set is ARBITRARY: fork over the permutations (small concrete sets only)"""
        items = list(s.items) if isinstance(s, ListSet) else sorted(s, key=repr)
        if len(items) <= 1:
            return items
        if len(items) > 3:
            raise Unsupported("iteration over a concrete set with more than 3 elements")
        out = []
        rest = list(items)
        while len(rest) > 1:
            picked = None
            for i in range(len(rest) - 1):
                if self.E.decide(self.E.fresh("setorder", z3.BoolSort())):
                    picked = i
                    break
            if picked is None:
                picked = len(rest) - 1
            out.append(rest.pop(picked))
        out.append(rest[0])
        return out

    # ------------------------------------------------------------------------------------------- dict core
    def key_eq(self, a, b):
        if isinstance(a, SV) or isinstance(b, SV):
            return sym.eq(a, b)
        return a == b and type(a) == type(b) or (a == b and isinstance(a, (int, float)) and isinstance(b, (int, float)))

    def sd_lookup(self, d, k, create=True):
        k = sym.concrete(k)
        if not sym.liftable(k):
            if isinstance(k, tuple):
                for e in d.entries:
                    if isinstance(e.key, tuple) and len(e.key) == len(k) and \
                            self.E.decide(sym.And(*[sym.eq(x, y) for x, y in zip(e.key, k)])):
                        return e
                if d.closed or not create:
                    return None
                raise Unsupported("tuple key in open dict")
            if isinstance(k, Obj):
                # instances hash by identity unless their class says otherwise
                eqm, hm = self.E.src.find_method(k.cls, "__eq__"), self.E.src.find_method(k.cls, "__hash__")
                if eqm and not hm:
                    raise PyRaise(ExcVal(TypeError, ("unhashable type",)))
                if eqm or hm:
                    raise Unsupported("dict key with a repository-defined __eq__/__hash__")
                for e in d.entries:
                    if e.key is k:
                        return e
                if d.closed or not create:
                    return None
                raise Unsupported("object key in an open dict")
            raise PyRaise(ExcVal(TypeError, ("unhashable key",)))
        for e in d.entries:
            if isinstance(e.key, (tuple, Obj)):
                continue
            if self.E.decide(self.key_eq(e.key, k)):
                return e
        if d.closed or not create:
            return None
        e = Entry(k, self.E.fresh("%s[%s]?" % (d.name, _kname(k)), z3.BoolSort()),
                  SV(self.E.fresh("%s[%s]" % (d.name, _kname(k)))))
        t = e.value.t
        r = Val.r(t)
        if getattr(d, "json", True):
            # values of a decoded JSON document: scalars, dicts and lists only (tree-shaped)
            self.E.assume(z3.Implies(Val.is_VRef(t), z3.And(z3.Or(sym.ref_kind(r) == sym.K_DICT, sym.ref_kind(r) == sym.K_LIST),
                                                           sym.ref_len(r) >= 0)))
        else:
            self.E.assume(z3.Implies(Val.is_VRef(t), z3.And(sym.ref_kind(r) >= 1, sym.ref_kind(r) <= 5, sym.ref_len(r) >= 0)))
        shape = getattr(d, "shape", None)
        if isinstance(shape, dict):
            shape = shape.get(k) if isinstance(k, str) else None      # per-key shapes (other keys unconstrained)
        if shape:
            # data-structure invariant of nested manifests (re-established by every add): what this level holds
            if shape[0] == "dict":
                self.E.assume(sym.is_dict(e.value))
                child = self.E.ref_as_dict(e.value, "%s[%s]" % (d.name, _kname(k)))
                child.shape = shape[1] if len(shape) > 1 else None
                child.json = getattr(d, "json", True)
            elif shape[0] == "list":
                self.E.assume(sym.is_kind(e.value, sym.K_LIST))
            elif shape[0] == "str":
                self.E.assume(sym.is_str(e.value))
        d.entries.append(e)
        return e

    def sd_present(self, e):
        return e is not None and self.E.decide(e.present)

    def sd_set(self, d, k, v):
        e = self.sd_lookup(d, k)
        if e is None:
            e = Entry(sym.concrete(k), True, v)
            d.entries.append(e)
            self.E.path.effects.append(("dict_write", d, e, False, None, v))
        else:
            self.E.path.effects.append(("dict_write", d, e, e.present, e.value, v))
            e.present = True
            e.value = v

    def as_dict(self, v):
        """value -> SymDict if it is (on this path) a dict, else None"""
        if isinstance(v, SymDict):
            return v
        if isinstance(v, SV) and self.E.decide(sym.is_dict(v)):
            return self.E.ref_as_dict(v)
        return None

    def dict_items(self, d):
        if not d.closed:
            raise Unsupported("iteration over an open symbolic dict (needs a loop rule)")
        out = []
        for e in d.entries:
            if isinstance(e.present, bool):
                if e.present:
                    out.append((e.key, e.value))
            elif self.E.decide(e.present):
                out.append((e.key, e.value))
        return out

    # ------------------------------------------------------------------------------------------- items
    def getitem(self, o, k):
        E = self.E
        if isinstance(o, SymDict):
            e = self.sd_lookup(o, k)
            if not self.sd_present(e):
                raise PyRaise(ExcVal(KeyError, (k,)))
            return e.value
        if isinstance(o, (list, tuple)):
            k = sym.concrete(k)
            if isinstance(k, SV):
                raise Unsupported("symbolic list index")
            if not isinstance(k, int):
                raise PyRaise(ExcVal(TypeError, ("list indices must be integers",)))
            try:
                return o[k]
            except IndexError:
                raise PyRaise(ExcVal(IndexError, ()))
        if isinstance(o, str) and not isinstance(k, SV):
            try:
                return o[k]
            except IndexError:
                raise PyRaise(ExcVal(IndexError, ()))
            except TypeError:
                raise PyRaise(ExcVal(TypeError, ()))
        if isinstance(o, SplitResult):
            return self.split_index(o, k)
        if isinstance(o, Obj):
            found = E.src.find_method(o.cls, "__getitem__")
            if found:
                kk, fn = found
                return E.call(BoundMethod(o, FuncRef(kk[0], fn, owner=kk), "__getitem__"), [k])
            raise PyRaise(ExcVal(TypeError, ("not subscriptable",)))
        if isinstance(o, SV):
            if E.decide(sym.is_dict(o)):
                return self.getitem(E.ref_as_dict(o), k)
            if E.decide(sym.is_str(o)):
                k = sym.concrete(k)
                if isinstance(k, (SV,)) and not E.decide(sym.is_int(k)):
                    raise PyRaise(ExcVal(TypeError, ("string indices must be integers",)))
                if isinstance(k, str):
                    raise PyRaise(ExcVal(TypeError, ("string indices must be integers",)))
                s = sym.sstr(o)
                i = sym.sint(k)
                n = z3.Length(s)
                idx = z3.If(i < 0, n + i, i)
                if not E.decide(z3.And(idx >= 0, idx < n)):
                    raise PyRaise(ExcVal(IndexError, ()))
                return sym.mk_str(z3.SubString(s, idx, 1))
            if E.decide(sym.is_ref(o)):
                # list / tuple / set / object references: contents unmodelled
                if E.decide(sym.is_kind(o, sym.K_LIST)) or E.decide(sym.is_kind(o, sym.K_TUPLE)):
                    kk = sym.concrete(k)
                    if isinstance(kk, str) or (isinstance(kk, SV) and not E.decide(sym.is_int(kk))):
                        raise PyRaise(ExcVal(TypeError, ("list indices must be integers",)))
                    raise Unsupported("index into a symbolic list")
                raise PyRaise(ExcVal(TypeError, ("not subscriptable",)))
            raise PyRaise(ExcVal(TypeError, ("not subscriptable",)))
        if o is None or isinstance(o, (int, float, bool)):
            raise PyRaise(ExcVal(TypeError, ("not subscriptable",)))
        if hasattr(o, "__getitem__") and _all_concrete([k]):
            try:
                return o[k]
            except (KeyError, IndexError, TypeError) as ex:
                raise PyRaise(ExcVal(type(ex), ()))
        raise Unsupported("subscript of %s" % type(o).__name__)

    def setitem(self, o, k, v):
        E = self.E
        if isinstance(o, SymDict):
            self.sd_set(o, k, v)
            return
        if isinstance(o, list):
            k = sym.concrete(k)
            if isinstance(k, int):
                try:
                    o[k] = v
                    return
                except IndexError:
                    raise PyRaise(ExcVal(IndexError, ()))
            raise Unsupported("list store with symbolic index")
        if isinstance(o, SV):
            d = self.as_dict(o)
            if d is not None:
                self.sd_set(d, k, v)
                return
            raise PyRaise(ExcVal(TypeError, ("item assignment",)))
        if isinstance(o, Obj):
            found = E.src.find_method(o.cls, "__setitem__")
            if found:
                kk, fn = found
                return E.call(BoundMethod(o, FuncRef(kk[0], fn, owner=kk), "__setitem__"), [k, v])
        raise PyRaise(ExcVal(TypeError, ("item assignment",)))

    def delitem(self, o, k):
        if isinstance(o, SymDict):
            e = self.sd_lookup(o, k)
            if not self.sd_present(e):
                raise PyRaise(ExcVal(KeyError, (k,)))
            e.present = False
            return
        raise Unsupported("del item")

    def getslice(self, o, lo, hi):
        E = self.E
        lo = sym.concrete(lo)
        hi = sym.concrete(hi)
        if isinstance(o, (str, list, tuple)) and not isinstance(lo, SV) and not isinstance(hi, SV):
            return o[lo:hi]
        if isinstance(o, (str, SV)):
            s = E.need_str(o)
            # concat-aware shortcuts: cutting inside a literal end piece
            ps = self.pieces(s)
            if (lo is None or lo == 0) and isinstance(hi, int) and hi < 0 and ps and isinstance(ps[-1], str) \
                    and len(ps[-1]) >= -hi:
                return sym.mk_str(self.join_pieces(ps[:-1] + [ps[-1][:hi]]))
            if hi is None and isinstance(lo, int) and lo >= 0 and ps and isinstance(ps[0], str) and len(ps[0]) >= lo:
                return sym.mk_str(self.join_pieces([ps[0][lo:]] + ps[1:]))
            n = z3.Length(s)

            def norm(i, default):
                if i is None:
                    return default
                if isinstance(i, SV):
                    E.need_int(i)
                t = z3.simplify(sym.sint(i))
                if _nonneg(t):
                    return z3.If(t > n, n, t)
                t = z3.If(t < 0, n + t, t)
                return z3.If(t < 0, z3.IntVal(0), z3.If(t > n, n, t))
            a = norm(lo, z3.IntVal(0))
            b = norm(hi, n)
            ln = z3.If(b - a < 0, z3.IntVal(0), b - a)
            return sym.mk_str(z3.SubString(s, a, ln))
        raise Unsupported("slice of %s" % type(o).__name__)

    # ------------------------------------------------------------------------------------------- attributes
    def _opaque_attr(self, name):
        """a symbolic reference of kind OBJ denotes a plain object() instance (that is what the concretiser replays): it has the
        attributes of `object` and no others"""
        if hasattr(object(), name):
            raise Unsupported("attribute %s of an opaque object" % name)
        raise PyRaise(ExcVal(AttributeError, (name,)))

    def getattr(self, o, name, default=ABSENT):
        E = self.E
        if isinstance(o, SV):
            if name in STR_METHODS and E.decide(sym.is_str(o)):
                return NativeMethod(o, name)
            if name in DICT_METHODS and E.decide(sym.is_dict(o)):
                return NativeMethod(E.ref_as_dict(o), name)
            if (name in LIST_METHODS or name in SET_METHODS) and E.decide(sym.is_ref(o)):
                if E.decide(sym.is_kind(o, sym.K_OBJ)):
                    self._opaque_attr(name)
                if name in LIST_METHODS and E.decide(sym.is_kind(o, sym.K_LIST)):
                    if name in ("append", "extend"):
                        return NativeMethod(E.ref_as_seq(o), name)
                    raise Unsupported("method of a symbolic list")
                if name in SET_METHODS and E.decide(sym.is_kind(o, sym.K_SET)):
                    raise Unsupported("method of a symbolic set")
            if E.decide(sym.is_kind(o, sym.K_OBJ)):
                if default is not ABSENT and not hasattr(object(), name):
                    return default
                self._opaque_attr(name)
            if default is not ABSENT:
                return default
            raise PyRaise(ExcVal(AttributeError, (name,)))
        if isinstance(o, str):
            if name in STR_METHODS or hasattr("", name):
                return NativeMethod(o, name)
        elif isinstance(o, SymDict):
            if name in DICT_METHODS:
                return NativeMethod(o, name)
        elif isinstance(o, list):
            if name in LIST_METHODS:
                return NativeMethod(o, name)
        elif isinstance(o, (set, frozenset)):
            if hasattr(o, name):
                return NativeMethod(o, name)
        elif isinstance(o, ListSet):
            if name in SET_METHODS:
                return NativeMethod(o, name)
        elif isinstance(o, tuple):
            if hasattr(o, name) and not callable(getattr(o, name)):
                return getattr(o, name)          # namedtuple fields
            if hasattr(o, name):
                return NativeMethod(o, name)
        elif isinstance(o, (re.Pattern, SymMatch, re.Match)):
            if name == "pattern" and isinstance(o, re.Pattern):
                return o.pattern
            return NativeMethod(o, name)
        elif isinstance(o, ExcVal):
            if name == "args":
                return o.args
        elif o is None or isinstance(o, (bool, int, float)):
            pass
        elif isinstance(o, (FuncRef, BoundMethod)):
            if name == "__name__":
                return getattr(o.func.node if isinstance(o, BoundMethod) else o.node, "name", "<lambda>")
        else:
            h = self.attr_hooks.get(type(o))
            if h:
                return h(o, name, default)
            if isinstance(o, type) or callable(o):
                if hasattr(o, name):
                    return E.wrap_native(getattr(o, name))
        if default is not ABSENT:
            return default
        raise PyRaise(ExcVal(AttributeError, (name,)))

    attr_hooks = {}

    # ------------------------------------------------------------------------------------------- operators
    def binop(self, op, l, r):
        E = self.E
        l = sym.concrete(l)
        r = sym.concrete(r)
        if isinstance(op, ast.Mod) and isinstance(l, (str,)):
            return self.format_percent(l, r)
        if isinstance(op, ast.Mod) and isinstance(l, SV) and E.decide(sym.is_str(l)):
            raise Unsupported("% formatting with a symbolic format string")
        if isinstance(op, ast.Add):
            if isinstance(l, list) and isinstance(r, list):
                return l + r
            if isinstance(l, tuple) and isinstance(r, tuple):
                return l + r
            if isinstance(l, (str, SV)) and isinstance(r, (str, SV)) and (isinstance(l, str) or E.decide(sym.is_str(l))):
                if not (isinstance(r, str) or E.decide(sym.is_str(r))):
                    raise PyRaise(ExcVal(TypeError, ("can only concatenate str",)))
                return sym.mk_str(z3.Concat(sym.sstr(l), sym.sstr(r)))
        if isinstance(op, ast.BitOr) and (isinstance(l, ListSet) or isinstance(r, ListSet)) and \
                isinstance(l, (set, frozenset, ListSet)) and isinstance(r, (set, frozenset, ListSet)):
            out = self.to_listset(l)
            for x in (r.items if isinstance(r, ListSet) else sorted(r, key=repr)):
                self.ls_add(out, x)
            return out
        if isinstance(op, ast.BitOr) and isinstance(l, (set, frozenset)) and isinstance(r, (set, frozenset)):
            return l | r
        if isinstance(op, (ast.BitAnd, ast.Sub)) and (isinstance(l, ListSet) or isinstance(r, ListSet)) and \
                isinstance(l, (set, frozenset, ListSet)) and isinstance(r, (set, frozenset, ListSet)):
            li = l.items if isinstance(l, ListSet) else sorted(l, key=repr)
            return ListSet([x for x in li if self.contains(r, x) == isinstance(op, ast.BitAnd)])
        if isinstance(op, ast.BitAnd) and isinstance(l, (set, frozenset)) and isinstance(r, (set, frozenset)):
            return l & r
        if isinstance(op, ast.Sub) and isinstance(l, (set, frozenset)) and isinstance(r, (set, frozenset)):
            return l - r
        if isinstance(op, (ast.BitAnd, ast.BitOr)) and isinstance(l, bool) and isinstance(r, bool):
            return (l & r) if isinstance(op, ast.BitAnd) else (l | r)
        if not isinstance(l, SV) and not isinstance(r, SV) and _plain(l) and _plain(r):
            try:
                return _NATIVE_BINOP[type(op)](l, r)
            except KeyError:
                raise Unsupported("binary operator %s" % type(op).__name__)
            except TypeError:
                raise PyRaise(ExcVal(TypeError, ()))
            except ZeroDivisionError:
                raise PyRaise(ExcVal(ZeroDivisionError, ()))
        if isinstance(l, StrCount) or isinstance(r, StrCount):
            raise Unsupported("arithmetic on str.count()")
        # symbolic integers
        if isinstance(l, (SV, int)) and isinstance(r, (SV, int)) and not isinstance(l, str) and not isinstance(r, str):
            if (isinstance(l, int) or E.decide(sym.is_int(l))) and (isinstance(r, int) or E.decide(sym.is_int(r))):
                a, b = sym.sint(l), sym.sint(r)
                if isinstance(op, ast.Add):
                    return sym.mk_int(a + b)
                if isinstance(op, ast.Sub):
                    return sym.mk_int(a - b)
                if isinstance(op, ast.Mult):
                    return sym.mk_int(a * b)
                if isinstance(op, (ast.BitAnd, ast.BitOr)):
                    if E.decide(sym.is_bool(l) if isinstance(l, SV) else isinstance(l, bool)) and \
                            E.decide(sym.is_bool(r) if isinstance(r, SV) else isinstance(r, bool)):
                        x, y = sym.truthy(l), sym.truthy(r)
                        return sym.mk_bool(sym.B(sym.And(x, y)) if isinstance(op, ast.BitAnd) else sym.B(sym.Or(x, y)))
                raise Unsupported("integer operator %s" % type(op).__name__)
            if isinstance(l, SV) and E.decide(sym.is_float(l)) or isinstance(r, SV) and E.decide(sym.is_float(r)):
                raise Unsupported("float arithmetic")
            raise PyRaise(ExcVal(TypeError, ("unsupported operand",)))
        if isinstance(l, SV) or isinstance(r, SV):
            raise PyRaise(ExcVal(TypeError, ("unsupported operand",)))
        raise Unsupported("binary operator %s on %s, %s" % (type(op).__name__, type(l).__name__, type(r).__name__))

    def compare(self, op, l, r):
        E = self.E
        l = sym.concrete(l)
        r = sym.concrete(r)
        if isinstance(op, ast.Is):
            return self.is_(l, r)
        if isinstance(op, ast.IsNot):
            return not self.is_(l, r)
        if isinstance(op, ast.Eq):
            return self.eq(l, r)
        if isinstance(op, ast.NotEq):
            return not self.eq(l, r)
        if isinstance(op, ast.In):
            return self.contains(r, l)
        if isinstance(op, ast.NotIn):
            return not self.contains(r, l)
        # ordering
        if isinstance(l, (set, frozenset, ListSet)) and isinstance(r, (set, frozenset, ListSet)) and isinstance(op, (ast.LtE, ast.GtE)):
            a_, b_ = (l, r) if isinstance(op, ast.LtE) else (r, l)
            return all(self.contains(b_, x) for x in (a_.items if isinstance(a_, ListSet) else a_))
        if isinstance(l, tuple) and isinstance(r, tuple):
            return E.decide(self.lex(op, list(l), list(r)))
        if isinstance(l, list) and isinstance(r, list):
            return E.decide(self.lex(op, l, r))
        if _plain(l) and _plain(r) and not isinstance(l, SV) and not isinstance(r, SV):
            try:
                return _NATIVE_CMP[type(op)](l, r)
            except TypeError:
                raise PyRaise(ExcVal(TypeError, ()))
        if isinstance(l, StrCount) or isinstance(r, StrCount):
            raise Unsupported("ordering on str.count()")
        return E.decide(self.scalar_order(op, l, r))

    def scalar_order(self, op, l, r):
        E = self.E
        lint = isinstance(l, int) or (isinstance(l, SV) and E.decide(sym.is_int(l)))
        rint = isinstance(r, int) or (isinstance(r, SV) and E.decide(sym.is_int(r)))
        if lint and rint:
            a, b = sym.sint(l), sym.sint(r)
            return {ast.Lt: a < b, ast.LtE: a <= b, ast.Gt: a > b, ast.GtE: a >= b}[type(op)]
        lstr = isinstance(l, str) or (isinstance(l, SV) and E.decide(sym.is_str(l)))
        rstr = isinstance(r, str) or (isinstance(r, SV) and E.decide(sym.is_str(r)))
        if lstr and rstr:
            a, b = sym.sstr(l), sym.sstr(r)
            # structural decision first: strip the common prefix of the two concatenations and compare the first differing literal char
            x, y, neg = {ast.Lt: (a, b, False), ast.LtE: (b, a, True), ast.Gt: (b, a, False), ast.GtE: (a, b, True)}[type(op)]
            d = self.struct_str_lt(x, y)
            if d is not None:
                return z3.BoolVal(d != neg)
            return {ast.Lt: a < b, ast.LtE: a <= b, ast.Gt: b < a, ast.GtE: b <= a}[type(op)]
        if (lint or lstr) and (rint or rstr):
            raise PyRaise(ExcVal(TypeError, ("'<' not supported",)))
        if isinstance(l, SV) and E.decide(sym.is_float(l)) or isinstance(r, SV) and E.decide(sym.is_float(r)):
            raise Unsupported("float ordering")
        raise PyRaise(ExcVal(TypeError, ("'<' not supported",)))

    def struct_str_lt(self, a, b):
        """a < b (code-point lexicographic) decided on the concatenation structure alone; None when it is not decided that way"""
        pa, pb = list(self.pieces(a)), list(self.pieces(b))
        while pa and pb:
            x, y = pa[0], pb[0]
            if isinstance(x, str) and isinstance(y, str):
                n = 0
                while n < len(x) and n < len(y) and x[n] == y[n]:
                    n += 1
                if n < len(x) and n < len(y):
                    return x[n] < y[n]
                pa[0], pb[0] = x[n:], y[n:]
                if pa[0] == "":
                    pa.pop(0)
                if pb[0] == "":
                    pb.pop(0)
                continue
            if not isinstance(x, str) and not isinstance(y, str) and x.eq(y):
                pa.pop(0)
                pb.pop(0)
                continue
            return None
        if not pb:
            return False            # nothing is smaller than the empty remainder
        if not pa:
            return True if any(isinstance(y, str) and y for y in pb) else None
        return None

    def lex(self, op, l, r):
        """lexicographic comparison of sequences of int-like / str values"""
        strict = isinstance(op, (ast.Lt, ast.Gt))
        less = isinstance(op, (ast.Lt, ast.LtE))
        n = min(len(l), len(r))
        # tail: all n equal -> compare lengths
        if less:
            tail = (len(l) < len(r)) if strict else (len(l) <= len(r))
        else:
            tail = (len(l) > len(r)) if strict else (len(l) >= len(r))
        res = z3.BoolVal(tail)
        for i in range(n - 1, -1, -1):
            a, b = l[i], r[i]
            e = B(sym.eq(a, b))
            lt = self.scalar_order(ast.Lt() if less else ast.Gt(), a, b)
            res = z3.Or(B(lt), z3.And(e, res))
        return as_bool(res)

    def is_(self, l, r):
        if r is None or l is None:
            o = l if r is None else r
            if isinstance(o, SV):
                return self.E.decide(sym.is_none(o))
            return o is None
        if isinstance(l, SV) or isinstance(r, SV):
            if isinstance(l, SV) and isinstance(r, SV) and l.t.eq(r.t):
                return True
            for a, b in ((l, r), (r, l)):
                if isinstance(b, bool) and isinstance(a, SV):
                    return self.E.decide(z3.And(Val.is_VBool(a.t), Val.b(a.t) == b))
            raise Unsupported("identity of symbolic values")
        return l is r

    def eq(self, l, r):
        E = self.E
        if l is r and not isinstance(l, float):
            return True
        if isinstance(l, StrCount) or isinstance(r, StrCount):
            c, k = (l, r) if isinstance(l, StrCount) else (r, l)
            if not isinstance(k, int):
                raise Unsupported("str.count() compared with non-constant")
            return self.count_eq(c, k)
        if sym.liftable(l) and sym.liftable(r):
            st = self.str_eq_structural(l, r)
            if st is not None:
                return E.decide(st)
            return E.decide(sym.eq(l, r))
        if isinstance(l, (list, tuple)) and isinstance(r, (list, tuple)):
            if isinstance(l, list) != isinstance(r, list):
                return False
            if len(l) != len(r):
                return False
            # scalar element pairs are compared in ONE decision (equality has no side effects; the element-wise short circuit
            # of CPython is unobservable) -- identity tuples of 7 attributes would otherwise fork 7 ways per comparison
            pairs = list(zip(l, r))
            lifted = [(a, b) for a, b in pairs if sym.liftable(a) and sym.liftable(b) and (isinstance(a, SV) or isinstance(b, SV))]
            if len(lifted) > 1:
                if not E.decide(sym.And(*[sym.eq(a, b) for a, b in lifted])):
                    return False
                pairs = [(a, b) for a, b in pairs if not (sym.liftable(a) and sym.liftable(b) and (isinstance(a, SV) or isinstance(b, SV)))]
            for a, b in pairs:
                if not self.eq(a, b):
                    return False
            return True
        if isinstance(l, SymDict) and isinstance(r, SymDict):
            if l.closed and r.closed:
                li, ri = self.dict_items(l), self.dict_items(r)
                if len(li) != len(ri):
                    # symbolic keys could coincide; only handle concrete key sets
                    if all(not isinstance(k, SV) for k, _ in li + ri):
                        return False
                    raise Unsupported("dict equality with symbolic keys")
                rd = {}
                for k, v in ri:
                    if isinstance(k, SV):
                        raise Unsupported("dict equality with symbolic keys")
                    rd[k] = v
                for k, v in li:
                    if isinstance(k, SV):
                        raise Unsupported("dict equality with symbolic keys")
                    if k not in rd:
                        return False
                    if not self.eq(v, rd[k]):
                        return False
                return True
            raise Unsupported("equality of open symbolic dicts")
        if isinstance(l, (set, frozenset, ListSet)) and isinstance(r, (set, frozenset, ListSet)):
            if isinstance(l, ListSet) or isinstance(r, ListSet):
                li = l.items if isinstance(l, ListSet) else list(l)
                ri = r.items if isinstance(r, ListSet) else list(r)
                return len(li) == len(ri) and all(self.contains(r, x) for x in li)
            return l == r
        if isinstance(l, Obj) or isinstance(r, Obj):
            for o in (l, r):
                if isinstance(o, Obj) and E.src.find_method(o.cls, "__eq__"):
                    raise Unsupported("__eq__ of repository class")
            if isinstance(l, SV) or isinstance(r, SV):
                o = l if isinstance(l, SV) else r
                if E.decide(sym.is_ref(o)):
                    raise Unsupported("object compared with symbolic reference")
                return False
            return l is r
        if isinstance(l, SV) or isinstance(r, SV):
            s, o = (l, r) if isinstance(l, SV) else (r, l)
            if isinstance(o, SV):
                return E.decide(sym.eq(s, o))
            # symbolic scalar vs concrete container
            if E.decide(sym.is_ref(s)):
                E.havoc("container compared with a symbolic reference")
                return E.decide(E.fresh("ref_eq", z3.BoolSort()))
            return False
        if _plain(l) and _plain(r):
            return l == r
        if type(l) != type(r):
            return False
        raise Unsupported("equality of %s and %s" % (type(l).__name__, type(r).__name__))

    def contains(self, c, x):
        E = self.E
        x = sym.concrete(x)
        if isinstance(c, (list, tuple, set, frozenset, ListSet)):
            items = list(c.items) if isinstance(c, ListSet) else list(c)
            if sym.liftable(x) and all(sym.liftable(i) for i in items):
                if not isinstance(x, SV) and all(not isinstance(i, SV) for i in items):
                    return any(x == i for i in items)
                return E.decide(sym.Or(*[sym.eq(x, i) for i in items]))
            for i in items:
                if self.eq(x, i):
                    return True
            return False
        if isinstance(c, SymDict):
            e = self.sd_lookup(c, x)
            return self.sd_present(e)
        if isinstance(c, str) or (isinstance(c, SV) and E.decide(sym.is_str(c))):
            if not (isinstance(x, str) or (isinstance(x, SV) and E.decide(sym.is_str(x)))):
                raise PyRaise(ExcVal(TypeError, ("'in <string>' requires string",)))
            if isinstance(c, str) and isinstance(x, str):
                return x in c
            if isinstance(x, str) and x != "":
                return E.decide(self.contains_lit(sym.sstr(c), x))
            return E.decide(z3.Contains(sym.sstr(c), sym.sstr(x)))
        if isinstance(c, SV):
            d = self.as_dict(c)
            if d is not None:
                return self.contains(d, x)
            if E.decide(sym.is_ref(c)):
                raise Unsupported("membership in a symbolic list/set")
            raise PyRaise(ExcVal(TypeError, ("argument is not iterable",)))
        if isinstance(c, _DictView):
            if c.kind == "keys":
                return self.contains(c.d, x)
            return self.contains([v for v in c.items()], x)
        if isinstance(c, Obj):
            found = E.src.find_method(c.cls, "__contains__")
            if found:
                raise Unsupported("__contains__ of repository class")
            found = E.src.find_method(c.cls, "__iter__")
            if found:
                return self.contains(E.iterate(c), x)
        if c is None or isinstance(c, (int, float)):
            raise PyRaise(ExcVal(TypeError, ("argument is not iterable",)))
        raise Unsupported("membership in %s" % type(c).__name__)

    # ------------------------------------------------------------------------------------------- strings
    def to_str(self, v):
        """str(v) -> python str or SV(str)"""
        E = self.E
        v = sym.concrete(v)
        if isinstance(v, SV):
            t = v.t
            if E.decide(sym.is_str(v)):
                return v
            if E.decide(sym.is_none(v)):
                return "None"
            if E.decide(sym.is_bool(v)):
                return sym.mk_str(z3.If(Val.b(t), z3.StringVal("True"), z3.StringVal("False")))
            if E.decide(sym.is_strict_int(v)):
                return sym.mk_str(int_to_str(Val.i(t)))
            if E.decide(sym.is_float(v)):
                fs = sym.float_str(Val.f(t))
                # A5: repr of a finite float is a decimal numeral  -?d+(.d+)?(e[+-]d+)?
                E.assume(z3.InRe(fs, sym.FLOAT_REPR_RE))
                return sym.mk_str(fs)
            E.havoc("str() of a container reference")
            return SV(Val.VStr(E.fresh("str_of_ref", sym.S)))
        if isinstance(v, Obj):
            found = E.src.find_method(v.cls, "__str__")
            if found:
                k, fn = found
                return E.call_funcref(FuncRef(k[0], fn, owner=k), [v], {})
            E.havoc("str() of an object")
            return SV(Val.VStr(E.fresh("str_of_obj", sym.S)))
        if _plain(v):
            return str(v)
        if isinstance(v, (list, tuple, SymDict, set, ExcVal, type)):
            E.havoc("str() of a container")
            return SV(Val.VStr(E.fresh("str_of_container", sym.S)))
        raise Unsupported("str() of %s" % type(v).__name__)

    def format_percent(self, fmt, args):
        E = self.E
        specs = list(re.finditer(r"%(\(([^)]*)\))?([#0\- +]*)(\d*)(\.\d+)?([sdrif%])", fmt))
        pieces = []
        pos = 0
        named = any(m.group(2) is not None for m in specs)
        nvals = sum(1 for m in specs if m.group(6) != "%")
        if named:
            d = args
            if isinstance(d, SV):
                d = self.as_dict(d)
            if not isinstance(d, SymDict):
                raise PyRaise(ExcVal(TypeError, ("format requires a mapping",)))
            vals = None
        else:
            if isinstance(args, tuple):
                vals = list(args)
            elif isinstance(args, SV) and E.decide(sym.is_kind(args, sym.K_TUPLE)):
                raise Unsupported("% formatting with a symbolic tuple")
            else:
                vals = [args]
            if len(vals) != nvals:
                raise PyRaise(ExcVal(TypeError, ("format arity",)))
        vi = 0
        for m in specs:
            pieces.append(fmt[pos:m.start()])
            pos = m.end()
            conv = m.group(6)
            if conv == "%":
                pieces.append("%")
                continue
            if m.group(3) or m.group(4) or m.group(5):
                raise Unsupported("format flags")
            if named:
                v = self.getitem(d, m.group(2))
            else:
                v = vals[vi]
                vi += 1
            if conv == "s":
                pieces.append(self.to_str(v))
            elif conv in "di":
                if isinstance(v, SV):
                    if not E.decide(sym.is_int(v)):
                        if E.decide(sym.is_float(v)):
                            raise Unsupported("%d of float")
                        raise PyRaise(ExcVal(TypeError, ("%d format: a real number is required",)))
                    pieces.append(sym.mk_str(int_to_str(sym.sint(v))))
                elif isinstance(v, (int, float)):
                    pieces.append("%d" % v)
                else:
                    raise PyRaise(ExcVal(TypeError, ("%d format",)))
            else:
                E.havoc("%%%s formatting" % conv)
                pieces.append(SV(Val.VStr(E.fresh("fmt", sym.S))))
        pieces.append(fmt[pos:])
        return self.concat(pieces)

    def concat(self, pieces):
        pieces = [p for p in pieces if not (isinstance(p, str) and p == "")]
        if all(isinstance(p, str) for p in pieces):
            return "".join(pieces)
        ts = [sym.sstr(p) for p in pieces]
        return sym.mk_str(z3.Concat(*ts) if len(ts) > 1 else ts[0])

    def str_method(self, s, name, args, kwargs):
        E = self.E
        args = [sym.concrete(a) for a in args]
        if isinstance(s, str) and _all_concrete(args) and not kwargs and name != "join":
            try:
                return getattr(s, name)(*args)
            except (TypeError, ValueError, IndexError, KeyError) as ex:
                raise PyRaise(ExcVal(type(ex), ()))
        t = sym.sstr(s)
        if name in ("startswith", "endswith"):
            a = args[0]
            opts = list(a) if isinstance(a, tuple) else [a]
            fs = []
            ps = self.pieces(t)
            for o in opts:
                ot = E.need_str(o)
                if isinstance(o, str) and ps:
                    # concat-aware: decided by a literal end piece that is long enough
                    if name == "endswith" and isinstance(ps[-1], str) and len(ps[-1]) >= len(o):
                        fs.append(ps[-1].endswith(o))
                        continue
                    if name == "startswith" and isinstance(ps[0], str) and len(ps[0]) >= len(o):
                        fs.append(ps[0].startswith(o))
                        continue
                    if name == "startswith" and not isinstance(ps[0], str):
                        kp = E.known_prefix(ps[0])
                        if kp is not None:
                            n_ = min(len(kp), len(o))
                            if kp[:n_] != o[:n_]:
                                fs.append(False)     # the known literal prefix of the first piece already disagrees
                                continue
                fs.append(z3.PrefixOf(ot, t) if name == "startswith" else z3.SuffixOf(ot, t))
            return E.decide(sym.Or(*fs))
        if name == "lower":
            return self.lower(t)
        if name == "replace":
            a, b = E.need_str(args[0]), E.need_str(args[1])
            if len(args) > 2:
                raise Unsupported("replace with count")
            return sym.mk_str(ReplaceAll(t, a, b))
        if name in ("strip", "rstrip", "lstrip"):
            chars = args[0] if args else None
            if chars is not None and not isinstance(chars, str):
                raise Unsupported("strip with symbolic chars")
            return self.strip(t, chars, name)
        if name == "count":
            a = args[0]
            if isinstance(a, str) and len(a) == 1 and len(args) == 1:
                return StrCount(t, a)
            raise Unsupported("str.count with non single-char needle")
        if name == "find":
            a = E.need_str(args[0])
            if len(args) > 1:
                raise Unsupported("find with start")
            return sym.mk_int(z3.IndexOf(t, a, 0))
        if name in ("split", "rsplit"):
            sep = args[0] if args else kwargs.get("sep")
            if not isinstance(sep, str) or sep == "":
                raise Unsupported("split with symbolic/empty/default separator")
            maxsplit = args[1] if len(args) > 1 else kwargs.get("maxsplit", -1)
            if not isinstance(maxsplit, int):
                raise Unsupported("symbolic maxsplit")
            return SplitResult(t, sep, maxsplit, right=(name == "rsplit"))
        if name == "join":
            items = E.iterate(args[0])
            parts = []
            for i, it in enumerate(items):
                if i:
                    parts.append(s)
                if isinstance(it, SV):
                    if not E.decide(sym.is_str(it)):
                        raise PyRaise(ExcVal(TypeError, ("sequence item: expected str",)))
                elif not isinstance(it, str):
                    raise PyRaise(ExcVal(TypeError, ("sequence item: expected str",)))
                parts.append(it)
            return self.concat(parts) if parts else ""
        if name == "format":
            E.havoc("str.format")
            return SV(Val.VStr(E.fresh("format", sym.S)))
        raise Unsupported("str.%s on a symbolic string" % name)

    def lower(self, t):
        """ASCII lower-casing (S1): uninterpreted, pinned on the hint constants, idempotent, upper-case free"""
        E = self.E
        r = lower_uf(t)
        for c in E.lower_hints:
            r = z3.If(t == z3.StringVal(c), z3.StringVal(c.lower()), r)
        no_upper = z3.Star(sym.ranges_to_re(sym.complement_ranges([(65, 90)])))
        ax = [z3.InRe(lower_uf(t), no_upper),
              z3.Implies(z3.InRe(t, no_upper), lower_uf(t) == t),
              z3.Length(lower_uf(t)) == z3.Length(t)]
        for c in E.lower_hints:
            if c == c.lower() and c.isascii():
                caseless = z3.Concat(*[z3.Union(z3.Re(ch), z3.Re(ch.upper())) if ch.upper() != ch else z3.Re(ch) for ch in c]) \
                    if len(c) > 1 else (z3.Union(z3.Re(c), z3.Re(c.upper())) if c.upper() != c else z3.Re(c))
                ax.append((lower_uf(t) == z3.StringVal(c)) == z3.InRe(t, caseless))
        for a in ax:
            E.assume(a)
        E.path.assumed.append("A6:str.lower ASCII")
        return sym.mk_str(r)

    def strip(self, t, chars, which):
        E = self.E
        if chars is None:
            cls = z3.Union(*[z3.Re(c) for c in WS_ASCII])
            chars_l = WS_ASCII
        else:
            if chars == "":
                return sym.mk_str(t)
            cls = z3.Union(*[z3.Re(c) for c in chars]) if len(chars) > 1 else z3.Re(chars)
            chars_l = chars
        ck = ("strip", t.get_id(), chars, which)
        if ck in E.path.refs and E.path.refs[ck][0].eq(t):
            return sym.mk_str(E.path.refs[ck][1])
        # structural shortcut: when the path condition rules out a strippable first/last character, strip is the identity
        anyc = z3.Star(z3.AllChar(sym.RS))
        ends = []
        if which in ("strip", "lstrip"):
            ends.append(z3.InRe(t, z3.Concat(cls, anyc)))
        if which in ("strip", "rstrip"):
            ends.append(z3.InRe(t, z3.Concat(anyc, cls)))
        probe = z3.Or(*ends) if len(ends) > 1 else ends[0]

        def numeral(x):
            ih = sym.INT_STR.get(x.get_id())
            if ih is not None and ih[0].eq(x):
                return "0123456789-"
            if z3.is_app(x) and x.decl().name() == "float_str":
                return "0123456789-+.e"
            return None

        def end_free(x, first):
            if isinstance(x, str):
                return (x[0] if first else x[-1]) not in chars_l
            al = numeral(x)
            return al is not None and not any(ch in al for ch in chars_l)      # numerals are non-empty
        ps = self.pieces(t)
        struct = bool(ps) and (which == "rstrip" or end_free(ps[0], True)) and (which == "lstrip" or end_free(ps[-1], False))
        if struct or E.feasible(E.path.pc, timeout_ms=800, slice_for=probe) is False:
            E.path.refs[ck] = (t, t)
            return sym.mk_str(t)
        pre = E.fresh("strip_l", sym.S)
        mid = E.fresh("strip_m", sym.S)
        E.path.refs[ck] = (t, mid)
        suf = E.fresh("strip_r", sym.S)
        E.assume(t == z3.Concat(pre, mid, suf))
        if which in ("strip", "lstrip"):
            E.assume(z3.InRe(pre, z3.Star(cls)))
            E.assume(z3.Or(mid == z3.StringVal(""), z3.InRe(mid, z3.Concat(sym.not_chars(chars_l), z3.Star(z3.AllChar(sym.RS))))))
        else:
            E.assume(pre == z3.StringVal(""))
        if which in ("strip", "rstrip"):
            E.assume(z3.InRe(suf, z3.Star(cls)))
            E.assume(z3.Or(mid == z3.StringVal(""), z3.InRe(mid, z3.Concat(z3.Star(z3.AllChar(sym.RS)), sym.not_chars(chars_l)))))
        else:
            E.assume(suf == z3.StringVal(""))
        return sym.mk_str(mid)

    # split ---------------------------------------------------------------------------------------
    # Strings in productmd are built by concatenation and taken apart by split/rsplit/count.  Reasoning is
    # concat-aware: a term is flattened into literal and atomic pieces; atomic pieces that the path condition
    # makes separator-free are never cut, so most splits are computed structurally (no new variables); only an
    # atomic piece that may contain the separator is split with Skolem parts (unique decomposition).
    def pieces(self, t):
        t = z3.simplify(t)
        out = []

        def rec(x):
            if z3.is_string_value(x):
                v = sym.mk_str(x)
                if out and isinstance(out[-1], str):
                    out[-1] += v
                elif v != "":
                    out.append(v)
            elif z3.is_app(x) and x.decl().kind() == z3.Z3_OP_SEQ_CONCAT:
                for c in x.children():
                    rec(c)
            else:
                out.append(x)
        rec(t)
        return out

    def join_pieces(self, ps):
        ps = [p for p in ps if not (isinstance(p, str) and p == "")]
        if not ps:
            return z3.StringVal("")
        ts = [z3.StringVal(p) if isinstance(p, str) else p for p in ps]
        return z3.simplify(z3.Concat(*ts)) if len(ts) > 1 else ts[0]

    def sepfree(self, t, sep):
        """does the path condition force the atomic string term t to be free of `sep`?"""
        E = self.E
        key = ("sepfree", t.get_id(), sep, len(E.path.pc))
        hit = E.path.refs.get(key)
        if hit is not None and hit[0].eq(t):
            return hit[1]
        # numerals: str(int) is made of digits and '-', repr(float) of digits and "-+.e" (A5)
        ih = sym.INT_STR.get(t.get_id())
        if ih is not None and ih[0].eq(t) and any(ch not in "0123456789-" for ch in sep):
            return True
        if z3.is_app(t) and t.decl().name() == "float_str" and any(ch not in "0123456789-+.e" for ch in sep):
            return True
        r = E.feasible(E.path.pc, timeout_ms=800, slice_for=sym.B(self.contains_lit(t, sep))) is False
        E.path.refs[key] = (t, r)
        return r

    def str_eq_structural(self, l, r):
        """concat-aware equality of two strings built from pieces: if some character c occurs only in literal pieces (every atomic
        piece is c-free on this path), both sides split at c into the same number of segments that are pairwise equal"""
        E = self.E
        if not (isinstance(l, (str, SV)) and isinstance(r, (str, SV))):
            return None
        for v in (l, r):
            if isinstance(v, SV) and not z3.is_app(z3.simplify(Val.s(v.t))):
                return None
            if isinstance(v, SV) and E.decide(sym.is_str(v)) is not True:
                return None
        pl = self.pieces(sym.sstr(l))
        pr = self.pieces(sym.sstr(r))
        if len(pl) <= 1 and len(pr) <= 1:
            return None
        cands = sorted(set(ch for p in pl + pr if isinstance(p, str) for ch in p))
        for c in cands:
            if not all(isinstance(p, str) or self.sepfree(p, c) for p in pl + pr):
                continue

            def segs(ps):
                out, cur = [], []
                for p in ps:
                    if isinstance(p, str):
                        parts = p.split(c)
                        cur.append(parts[0])
                        for extra in parts[1:]:
                            out.append(cur)
                            cur = [extra]
                    else:
                        cur.append(p)
                out.append(cur)
                return out
            sl, sr = segs(pl), segs(pr)
            if len(sl) != len(sr):
                return False
            if len(sl) == 1:
                continue
            fs = []
            for a, b in zip(sl, sr):
                ta, tb = self.join_pieces(a), self.join_pieces(b)
                fs.append(sym.as_bool(ta == tb))
            return sym.And(*fs)
        return None

    def contains_lit(self, t, lit):
        """formula: string term t contains the literal `lit` -- as regular membership, distributed over the pieces
        of a concatenation when the needle is a single character (solvers decide these instantly)"""
        anyre = z3.Star(z3.AllChar(sym.RS))
        if len(lit) == 1:
            fs = []
            for p in self.pieces(t):
                if isinstance(p, str):
                    if lit in p:
                        return True
                else:
                    fs.append(z3.InRe(p, z3.Concat(anyre, z3.Re(lit), anyre)))
            return sym.Or(*fs) if fs else False
        return z3.InRe(t, z3.Concat(anyre, z3.Re(lit), anyre))

    def count_decompose(self, t, ch):
        """count of character ch in t = const + sum(count(x) for x in unknown atomic terms)"""
        const = 0
        unknown = []
        for p in self.pieces(t):
            if isinstance(p, str):
                const += p.count(ch)
            elif not self.sepfree(p, ch):
                unknown.append(p)
        return const, unknown

    def count_eq(self, c, k):
        """decide  c.s.count(c.ch) == k"""
        E = self.E
        const, unknown = self.count_decompose(c.s, c.ch)
        notc = sym.not_chars(c.ch)

        def exactly(n):
            rex = z3.Star(notc)
            for _ in range(n):
                rex = z3.Concat(rex, z3.Re(c.ch), z3.Star(notc))
            return rex
        if not unknown:
            return const == k
        if k - const < 0:
            return False
        if len(unknown) == 1:
            return E.decide(z3.InRe(unknown[0], exactly(k - const)))
        return E.decide(z3.InRe(c.s, exactly(k)))

    def _generic_split(self, s, sep, maxsplit, right, n):
        """decide whether the string term s splits into exactly n parts; on True return Skolem part terms"""
        E = self.E
        allc = z3.AllChar(sym.RS)
        if len(sep) != 1:
            raise Unsupported("multi-character separator split of a symbolic string")
        piece = z3.Star(sym.not_chars(sep))
        anyre = z3.Star(allc)
        if maxsplit >= 0 and n - 1 > maxsplit:
            return None
        limited = maxsplit >= 0 and n - 1 >= maxsplit
        if not limited:
            rex = piece
            for _ in range(n - 1):
                rex = z3.Concat(rex, z3.Re(sep), piece)
        elif right:
            rex = anyre
            for _ in range(n - 1):
                rex = z3.Concat(rex, z3.Re(sep), piece)
        else:
            rex = piece if n > 1 else anyre
            for _ in range(n - 2):
                rex = z3.Concat(rex, z3.Re(sep), piece)
            if n > 1:
                rex = z3.Concat(rex, z3.Re(sep), anyre)
        if n == 1 and limited:
            return [s]
        if not E.decide(z3.InRe(s, rex)):
            return None
        if n == 1:
            return [s]
        ck = ("gsplit", s.get_id(), sep, maxsplit, right, n)
        hit = E.path.refs.get(ck)
        if hit is not None and hit[0].eq(s):
            return hit[1]           # the decomposition is unique: reuse its Skolem parts
        parts = [E.fresh("part%d" % i, sym.S) for i in range(n)]
        E.path.refs[ck] = (s, parts)
        joined = []
        for i, p in enumerate(parts):
            if i:
                joined.append(z3.StringVal(sep))
            joined.append(p)
        E.assume(s == z3.Concat(*joined))
        for i, p in enumerate(parts):
            free = limited and ((right and i == 0) or (not right and i == n - 1))
            if not free:
                E.assume(z3.InRe(p, piece))
        return parts

    def _structural(self, sr):
        """scan the concatenation from the splitting side.  Returns (done_parts, cur_pieces, rest_pieces, remaining):
        done_parts: complete parts found so far (in scan order), cur_pieces: pieces of the part being built next to the
        unresolved rest, rest_pieces: [] if fully resolved else the pieces still to be split generically."""
        sep = sr.sep
        ps = self.pieces(sr.s)
        if sr.right:
            ps = [p[::-1] if isinstance(p, str) else p for p in reversed(ps)]     # scan a mirrored sequence
        INF = 10 ** 9
        remaining = sr.maxsplit if sr.maxsplit >= 0 else INF
        done = []
        cur = []
        i = 0
        msep = sep[::-1] if sr.right else sep
        while i < len(ps):
            p = ps[i]
            if remaining == 0:
                cur.extend(ps[i:])
                i = len(ps)
                break
            if isinstance(p, str):
                j = 0
                while remaining > 0:
                    k = p.find(msep, j)
                    if k == -1:
                        break
                    cur.append(p[j:k])
                    done.append(cur)
                    cur = []
                    remaining -= 1
                    j = k + len(msep)
                cur.append(p[j:])
            else:
                if self.sepfree(p, sep):
                    cur.append(p)
                else:
                    return done, cur, ps[i:], remaining
            i += 1
        return done, cur, [], remaining

    def _unmirror(self, sr, pieces_):
        if sr.right:
            return [p[::-1] if isinstance(p, str) else p for p in reversed(pieces_)]
        return pieces_

    def split_count_is(self, sr, n):
        """decide: does the split yield exactly n parts?  On True, materialise sr.parts (list of z3 String terms)."""
        E = self.E
        if sr.parts is not None:
            return len(sr.parts) == n
        if len(sr.sep) != 1:
            raise Unsupported("multi-character separator split of a symbolic string")
        done, cur, rest, remaining = self._structural(sr)
        if not rest:
            total = len(done) + 1
            if total != n:
                return False
            parts = [self.join_pieces(self._unmirror(sr, d)) for d in done] + [self.join_pieces(self._unmirror(sr, cur))]
            sr.parts = list(reversed(parts)) if sr.right else parts
            return True
        # unresolved rest: split it generically into n - len(done) parts; its first (scan order) part is glued to `cur`
        ng = n - len(done)
        if ng < 1:
            return False
        rest_t = self.join_pieces(self._unmirror(sr, rest))
        ms = remaining if remaining < 10 ** 9 else -1
        g = self._generic_split(rest_t, sr.sep, ms, sr.right, ng)
        if g is None:
            return False
        # g is in string order; in scan order the first generic part is the one adjacent to `cur`
        g_scan = list(reversed(g)) if sr.right else list(g)
        cur_t = self._unmirror(sr, cur)
        if sr.right:
            first = self.join_pieces([g_scan[0]] + cur_t)
        else:
            first = self.join_pieces(cur_t + [g_scan[0]])
        parts_scan = [self.join_pieces(self._unmirror(sr, d)) for d in done] + [first] + g_scan[1:]
        sr.parts = list(reversed(parts_scan)) if sr.right else parts_scan
        return True

    def split_exact(self, sr, n):
        if not self.split_count_is(sr, n):
            raise PyRaise(ExcVal(ValueError, ("unpack arity",)))
        return [sym.mk_str(p) for p in sr.parts]

    def split_index(self, sr, k):
        E = self.E
        k = sym.concrete(k)
        if not isinstance(k, int):
            raise Unsupported("symbolic index into split()")
        if sr.parts is None and k >= 0 and not sr.right and sr.maxsplit < 0 and len(sr.sep) == 1:
            # lazy left-to-right extraction: x_i = p_i ++ t_i, p_i separator-free, t_i empty or starting with the separator
            if not hasattr(sr, "lazy"):
                sr.lazy = []
                sr.x = sr.s
                sr.t = None
            piece = z3.Star(sym.not_chars(sr.sep))
            sept = z3.StringVal(sr.sep)
            while len(sr.lazy) <= k:
                if sr.t is not None:
                    if not E.decide(sr.t != z3.StringVal("")):
                        raise PyRaise(ExcVal(IndexError, ()))
                    nx = E.fresh("split_x", sym.S)
                    E.assume(sr.t == z3.Concat(sept, nx))
                    sr.x = nx
                ps = self.pieces(sr.x)
                if all(isinstance(p, str) or self.sepfree(p, sr.sep) for p in ps) and \
                        not any(isinstance(p, str) and sr.sep in p for p in ps):
                    pi, ti = sr.x, z3.StringVal("")
                elif ps and isinstance(ps[0], str) and sr.sep in ps[0]:
                    cut = ps[0].index(sr.sep)
                    pi = z3.StringVal(ps[0][:cut])
                    ti = self.join_pieces([ps[0][cut:]] + ps[1:])
                else:
                    pi = E.fresh("split_p", sym.S)
                    ti = E.fresh("split_t", sym.S)
                    E.assume(sr.x == z3.Concat(pi, ti))
                    E.assume(z3.InRe(pi, piece))
                    E.assume(z3.Or(ti == z3.StringVal(""), z3.PrefixOf(sept, ti)))
                sr.lazy.append(pi)
                sr.t = ti
            return sym.mk_str(sr.lazy[k])
        parts = self.split_list(sr)
        try:
            return parts[k]
        except IndexError:
            raise PyRaise(ExcVal(IndexError, ()))

    def split_list(self, sr, maxparts=6):
        if sr.parts is None:
            for n in range(1, maxparts + 1):
                if self.split_count_is(sr, n):
                    break
            else:
                raise Unsupported("split() with more than %d parts" % maxparts)
        return [sym.mk_str(p) for p in sr.parts]

    # ------------------------------------------------------------------------------------------- methods
    def method(self, recv, name, args, kwargs):
        E = self.E
        if isinstance(recv, (str, SV)) and (isinstance(recv, str) or name in STR_METHODS):
            return self.str_method(recv, name, args, kwargs)
        if isinstance(recv, SymDict):
            return self.dict_method(recv, name, args, kwargs)
        if isinstance(recv, list):
            return self.list_method(recv, name, args, kwargs)
        if isinstance(recv, SymSeq):
            return self.seq_method(recv, name, args, kwargs)
        if isinstance(recv, (set, frozenset)):
            return self.set_method(recv, name, args, kwargs)
        if isinstance(recv, ListSet):
            if name in ("add", "update", "discard", "remove", "clear", "pop"):
                E.path.effects.append(("set_write", recv, name))
            if name == "add":
                self.ls_add(recv, args[0])
                return None
            if name in ("update", "union"):
                tgt = recv if name == "update" else ListSet(recv.items)
                for a_ in args:
                    for x in (a_.items if isinstance(a_, ListSet) else E.iterate(a_)):
                        self.ls_add(tgt, x)
                return None if name == "update" else tgt
            if name == "issubset":
                other = args[0]
                return all(self.contains(other, x) for x in recv.items)
            if name in ("intersection", "difference"):
                other = args[0]
                keep = [x for x in recv.items if self.contains(other, x) == (name == "intersection")]
                return ListSet(keep)
            if name in ("discard", "remove"):
                for i, e in enumerate(recv.items):
                    if (sym.liftable(e) and sym.liftable(args[0]) and E.decide(sym.eq(e, args[0]))) or e is args[0]:
                        del recv.items[i]
                        return None
                if name == "remove":
                    raise PyRaise(ExcVal(KeyError, ()))
                return None
            raise Unsupported("set.%s with symbolic elements" % name)
        if isinstance(recv, re.Pattern):
            if name == "match":
                return self.re_match(recv, args[0])
            if name == "search" and not (recv.flags & re.MULTILINE) and "^" not in recv.pattern.replace("[^", ""):
                # search language = any prefix followed by the match language (no anchor inside the pattern)
                return self.re_match(recv, args[0], search=True)
            raise Unsupported("Pattern.%s" % name)
        if isinstance(recv, re.Match):
            return getattr(recv, name)(*args)
        if isinstance(recv, SymMatch):
            if name == "groupdict":
                return self.sym_groupdict(recv)
            raise Unsupported("Match.%s on a symbolic string" % name)
        if isinstance(recv, tuple):
            # namedtuple methods (_replace) and tuple methods
            if _all_concrete_shallow(args):
                try:
                    return getattr(recv, name)(*args, **kwargs)
                except (ValueError, TypeError) as ex:
                    raise PyRaise(ExcVal(type(ex), ()))
        h = self.method_hooks.get(type(recv))
        if h:
            return h(self, recv, name, args, kwargs)
        raise Unsupported("method %s of %s" % (name, type(recv).__name__))

    method_hooks = {}

    def sym_groupdict(self, m):
        """abstract capture groups of a symbolic match: one fresh value per named group, None allowed only for
        groups under an optional construct, text within the group's own sub-language.  WHERE the groups lie in the
        string is not stated here -- that is the rx-proved parse obligation of the contract that uses them."""
        E = self.E
        d = self.new_dict("groupdict")
        names = list(m.pattern.groupindex.keys())
        info = sym.rx_groups(m.pattern)
        m.groups = {}
        if not hasattr(m, "tag"):
            E.path.counter += 1
            m.tag = "m%d" % E.path.counter      # one set of ghost constants per match
        for n in names:
            gre, opt = info[n]
            v = SV(z3.Const("group.%s.%s" % (n, getattr(m, "tag", "m")), sym.Val))
            txt = z3.And(Val.is_VStr(v.t), z3.InRe(Val.s(v.t), gre), z3.Contains(m.s, Val.s(v.t)))
            E.assume(z3.Or(txt, Val.is_VNone(v.t)) if opt else txt)
            m.groups[n] = v
            d.entries.append(Entry(n, True, v))
        E.path.notes.append(("match", m))
        E.path.abstract = True       # ghost inputs: covers/counter-models of this path are not determined by the arguments
        return d

    def re_match(self, pattern, v, search=False):
        E = self.E
        v = sym.concrete(v)
        if isinstance(v, str):
            return pattern.search(v) if search else pattern.match(v)
        if isinstance(v, SV):
            if not E.decide(sym.is_str(v)):
                raise PyRaise(ExcVal(TypeError, ("expected string or bytes-like object",)))
            lang = sym.rx_to_z3(pattern)
            if search:
                lang = z3.Concat(z3.Star(z3.AllChar(sym.RS)), lang)
            if E.decide(z3.InRe(sym.sstr(v), lang)):
                return SymMatch(pattern, sym.sstr(v))
            return None
        raise PyRaise(ExcVal(TypeError, ("expected string or bytes-like object",)))

    def dict_method(self, d, name, args, kwargs):
        E = self.E
        if name == "get":
            e = self.sd_lookup(d, args[0])
            if self.sd_present(e):
                return e.value
            return args[1] if len(args) > 1 else kwargs.get("default")
        if name == "setdefault":
            e = self.sd_lookup(d, args[0])
            if self.sd_present(e):
                return e.value
            v = args[1] if len(args) > 1 else None
            self.sd_set(d, args[0], v)
            return v
        if name in ("keys", "values", "items"):
            if not d.closed:
                return _OpenView(d, name)
            its = self.dict_items(d)
            if name == "keys":
                return [k for k, _ in its]
            if name == "values":
                return [v for _, v in its]
            return [(k, v) for k, v in its]
        if name in ("iteritems", "itervalues"):
            raise PyRaise(ExcVal(AttributeError, (name,)))
        if name == "update":
            o = args[0]
            if isinstance(o, SV):
                o = self.as_dict(o)
            if isinstance(o, SymDict):
                for k, v in self.dict_items(o):
                    self.sd_set(d, k, v)
                return None
            for k, v in E.iterate(o):
                self.sd_set(d, k, v)
            return None
        if name == "pop":
            e = self.sd_lookup(d, args[0])
            if self.sd_present(e):
                e.present = False
                return e.value
            if len(args) > 1:
                return args[1]
            raise PyRaise(ExcVal(KeyError, ()))
        if name == "copy":
            n = SymDict(d.name + ".copy", closed=d.closed, origin=d.origin)
            n.entries = [Entry(e.key, e.present, e.value) for e in d.entries]
            if not d.closed:
                raise Unsupported("copy of an open symbolic dict")
            return n
        raise Unsupported("dict.%s" % name)

    def list_method(self, l, name, args, kwargs):
        E = self.E
        if name in ("append", "extend", "sort", "insert", "pop", "reverse"):
            E.path.effects.append(("list_write", l, name))
        if name == "append":
            l.append(args[0])
            return None
        if name == "extend":
            if isinstance(args[0], SymSeq):
                l.append(Spread(args[0].t))       # contents of a symbolic sequence spliced into a concrete list
                return None
            l.extend(E.iterate(args[0]))
            return None
        if name == "sort":
            l[:] = self.sorted_(l, kwargs.get("key"), kwargs.get("reverse", False))
            return None
        if name == "index":
            for i, x in enumerate(l):
                if self.eq(x, args[0]):
                    return i
            raise PyRaise(ExcVal(ValueError, ()))
        if name == "insert":
            l.insert(args[0], args[1])
            return None
        if name == "pop":
            try:
                return l.pop(*args)
            except IndexError:
                raise PyRaise(ExcVal(IndexError, ()))
        if name == "reverse":
            l.reverse()
            return None
        raise Unsupported("list.%s" % name)

    def val_term(self, v):
        """Val term of any interpreter value (heap objects by their allocated reference)"""
        v = sym.concrete(v)
        if sym.liftable(v):
            return lift(v)
        return self.E.ref_of(v)

    def seq_of(self, x):
        """z3 sequence term of a list-like value"""
        E = self.E
        if isinstance(x, SymSeq):
            return x.t
        if isinstance(x, (list, tuple)):
            if not x:
                return z3.Empty(z3.SeqSort(Val))
            us = [i.t if isinstance(i, Spread) else z3.Unit(self.val_term(i)) for i in x]
            return z3.Concat(*us) if len(us) > 1 else us[0]
        if isinstance(x, SV) and (E.decide(sym.is_kind(x, sym.K_LIST)) or E.decide(sym.is_kind(x, sym.K_TUPLE))):
            return E.ref_as_seq(x).t
        raise Unsupported("sequence view of %s" % type(x).__name__)

    def seq_method(self, q, name, args, kwargs):
        E = self.E
        E.path.effects.append(("list_write", q, name))
        if name == "append":
            q.t = z3.Concat(q.t, z3.Unit(self.val_term(args[0])))
            return None
        if name == "extend":
            q.t = z3.Concat(q.t, self.seq_of(args[0]))
            return None
        raise Unsupported("list.%s on a symbolic list" % name)

    def set_method(self, s, name, args, kwargs):
        E = self.E
        if name in ("add", "update", "discard", "remove", "clear", "pop", "difference_update", "intersection_update"):
            E.path.effects.append(("set_write", s, name))
        if name == "add":
            x = sym.concrete(args[0])
            if isinstance(x, SV):
                raise Unsupported("set.add of a symbolic element")
            try:
                s.add(x)
            except TypeError:
                raise PyRaise(ExcVal(TypeError, ("unhashable",)))
            return None
        if name in ("union", "update", "intersection", "difference", "issubset"):
            others = [self.make_set(E.iterate(a)) for a in args]
            return getattr(s, name)(*others)
        if name in ("discard", "remove"):
            try:
                return getattr(s, name)(sym.concrete(args[0]))
            except KeyError:
                raise PyRaise(ExcVal(KeyError, ()))
        raise Unsupported("set.%s" % name)

    def sorted_(self, items, key=None, reverse=False):
        E = self.E
        items = list(items)
        keys = [E.call(key, [x]) if key is not None else x for x in items]
        keys = [sym.concrete(k) for k in keys]
        if all(_plain(k) and not isinstance(k, SV) for k in keys):
            try:
                order = sorted(range(len(items)), key=lambda i: keys[i], reverse=bool(reverse))
            except TypeError:
                raise PyRaise(ExcVal(TypeError, ("'<' not supported",)))
            return [items[i] for i in order]
        if len(items) <= 1:
            return items
        # symbolic keys: insertion sort with forking comparisons (small lists only)
        if sum(1 for k in keys if isinstance(k, SV)) > 4 or len(items) > 16:
            raise Unsupported("sorting more than 4 symbolic keys (needs the sorted-bag abstraction)")
        out = []
        outk = []
        for x, k in zip(items, keys):
            pos = len(out)
            for j in range(len(out)):
                if self.compare(ast.Lt(), k, outk[j]):
                    pos = j
                    break
            out.insert(pos, x)
            outk.insert(pos, k)
        if reverse:
            out.reverse()
        return out

    # ------------------------------------------------------------------------------------------- builtins
    def _register(self):
        t = self.call_table
        t[isinstance] = self.b_isinstance
        t[getattr] = self.b_getattr
        t[hasattr] = self.b_hasattr
        t[setattr] = self.b_setattr
        t[callable] = self.b_callable
        t[dir] = self.b_dir
        t[len] = self.b_len
        t[sorted] = self.b_sorted
        t[list] = self.b_list
        t[tuple] = lambda a, k: tuple(self.E.iterate(a[0])) if a else ()
        t[set] = lambda a, k: self.make_set(self.E.iterate(a[0])) if a else ListSet()
        t[frozenset] = lambda a, k: self.make_set(self.E.iterate(a[0])) if a else ListSet()
        t[dict] = self.b_dict
        t[str] = lambda a, k: self.to_str(a[0]) if a else ""
        t[int] = self.b_int
        t[float] = self.b_float
        t[bool] = lambda a, k: self.b_bool(a[0]) if a else False
        t[type] = self.b_type
        t[super] = self.b_super
        t[any] = lambda a, k: any(self.E.truth(x) for x in self.E.iterate(a[0]))
        t[all] = lambda a, k: all(self.E.truth(x) for x in self.E.iterate(a[0]))
        t[enumerate] = lambda a, k: list(enumerate(self.E.iterate(a[0])))
        t[zip] = lambda a, k: list(zip(*[self.E.iterate(x) for x in a]))
        t[range] = lambda a, k: list(range(*a))
        t[reversed] = lambda a, k: list(reversed(self.E.iterate(a[0])))
        t[repr] = lambda a, k: self.to_str(a[0])
        t[re.compile] = self.b_re_compile
        t[re.match] = lambda a, k: self.re_match(self.b_re_compile([a[0]], {}), a[1])
        try:
            import six
            t[six.itervalues] = lambda a, k: self.dict_method(self._need_dict(a[0]), "values", [], {})
            t[six.iteritems] = lambda a, k: self.dict_method(self._need_dict(a[0]), "items", [], {})
            t[six.iterkeys] = lambda a, k: self.dict_method(self._need_dict(a[0]), "keys", [], {})
        except ImportError:
            pass
        import warnings
        t[warnings.warn] = lambda a, k: None

    def _need_dict(self, v):
        d = self.as_dict(v)
        if d is None:
            raise PyRaise(ExcVal(AttributeError, ("values",)))
        return d

    def call(self, f, args, kwargs):
        h = self.call_table.get(f) if _hashable(f) else None
        if h is not None:
            return h(args, kwargs)
        if isinstance(f, type) and issubclass(f, BaseException):
            return ExcVal(f, tuple(args))
        if isinstance(f, types.FunctionType) and getattr(f, "__module__", "") == "pyvc.engine":
            return f(*args, **kwargs)
        if callable(f) and _all_concrete(args) and _all_concrete(list(kwargs.values())):
            if f in self.native_pure or getattr(f, "__module__", None) in ("posixpath", "os.path", "collections") \
                    or (isinstance(f, type) and issubclass(f, tuple)):
                try:
                    return f(*args, **kwargs)
                except (TypeError, ValueError) as ex:
                    raise PyRaise(ExcVal(type(ex), ()))
        if isinstance(f, type) and issubclass(f, tuple) and hasattr(f, "_fields"):
            # namedtuple with symbolic members: tuples are plain python
            try:
                return f(*args, **kwargs)
            except TypeError:
                raise PyRaise(ExcVal(TypeError, ()))
        hook = self.call_hooks.get(f) if _hashable(f) else None
        if hook:
            return hook(self, args, kwargs)
        raise Unsupported("call of %r" % (f,))

    call_hooks = {}

    def b_sorted(self, a, k):
        x = a[0]
        # the result of sorting a set does not depend on its (arbitrary) iteration order: no need to fork over orders
        if isinstance(x, ListSet):
            items = list(x.items)
        elif isinstance(x, (set, frozenset)):
            items = sorted(x, key=repr)
        else:
            items = self.E.iterate(x)
        return self.sorted_(items, k.get("key"), k.get("reverse", False))

    def b_list(self, a, k):
        if not a:
            return []
        x = a[0]
        if isinstance(x, SV) and not isinstance(self.as_dict(x), SymDict) and \
                (self.E.decide(sym.is_kind(x, sym.K_LIST)) or self.E.decide(sym.is_kind(x, sym.K_TUPLE))):
            q = self.E.ref_as_seq(x)
            return SymSeq(q.name + ".copy", q.t)
        if isinstance(x, SymSeq):
            return SymSeq(x.name + ".copy", x.t)
        return list(self.E.iterate(x))

    def b_isinstance(self, a, k):
        v, T = a
        Ts = T if isinstance(T, tuple) else (T,)
        res = []
        for t in Ts:
            res.append(self.isinstance1(v, t))
        if all(isinstance(r, bool) for r in res):
            return any(res)
        return self.E.decide(sym.Or(*res))

    def isinstance1(self, v, t):
        v = sym.concrete(v)
        if isinstance(t, ClassRef):
            if isinstance(v, Obj):
                return t.key in self.E.src.mro(v.cls)
            if isinstance(v, SV):
                if self.E.decide(sym.is_kind(v, sym.K_OBJ)):
                    raise Unsupported("isinstance of a symbolic object reference")
                return False
            return False
        if not isinstance(t, type):
            raise PyRaise(ExcVal(TypeError, ("isinstance arg 2",)))
        if isinstance(v, SV):
            if t is str:
                return sym.is_str(v)
            if t is bool:
                return sym.is_bool(v)
            if t is int:
                return sym.is_int(v)
            if t is float:
                return sym.is_float(v)
            if t is type(None):
                return sym.is_none(v)
            if t is dict:
                return sym.is_kind(v, sym.K_DICT)
            if t is list:
                return sym.is_kind(v, sym.K_LIST)
            if t is set:
                return sym.is_kind(v, sym.K_SET)
            if t is tuple:
                return sym.is_kind(v, sym.K_TUPLE)
            if t is object:
                return True
            if t is bytes:
                return False
            raise Unsupported("isinstance(_, %s) on symbolic value" % t.__name__)
        if isinstance(v, SymDict):
            return t in (dict, object)
        if isinstance(v, ListSet):
            return t in (set, object)
        if isinstance(v, Obj):
            return t is object
        if isinstance(v, (FuncRef, BoundMethod, ClassRef, SplitResult, StrCount)):
            return t is object
        return isinstance(v, t)

    def b_getattr(self, a, k):
        name = sym.concrete(a[1])
        if not isinstance(name, str):
            raise Unsupported("getattr with symbolic name")
        if len(a) > 2:
            return self.E.getattr_(a[0], name, a[2])
        return self.E.getattr_(a[0], name)

    def b_hasattr(self, a, k):
        name = sym.concrete(a[1])
        if not isinstance(name, str):
            raise Unsupported("hasattr with symbolic name")
        o = a[0]
        if isinstance(o, Obj):
            if name in o.fields:
                return True
            return self.E.src.find_method(o.cls, name) is not None
        h = self.hasattr_hooks.get(type(o))
        if h:
            return h(o, name)
        if isinstance(o, (SV, SymDict)):
            try:
                self.getattr(o, name)
                return True
            except PyRaise:
                return False
        return hasattr(o, name)

    hasattr_hooks = {}

    def b_setattr(self, a, k):
        name = sym.concrete(a[1])
        if not isinstance(name, str):
            raise Unsupported("setattr with symbolic name")
        self.E.setattr_(a[0], name, a[2])

    def b_callable(self, a, k):
        v = a[0]
        if isinstance(v, (FuncRef, BoundMethod, ClassRef, NativeMethod)):
            return True
        if isinstance(v, (SV, SymDict, Obj, list, tuple, str, int, float, set)) or v is None:
            if isinstance(v, SV) and self.E.decide(sym.is_kind(v, sym.K_OBJ)):
                raise Unsupported("callable() of a symbolic object reference")
            if isinstance(v, Obj):
                return self.E.src.find_method(v.cls, "__call__") is not None
            return False
        return callable(v)

    def b_dir(self, a, k):
        o = a[0]
        if isinstance(o, Obj):
            names = set(o.fields.keys())
            for key in self.E.src.mro(o.cls):
                names.update(self.E.src.classes[key].methods.keys())
                for n in self.E.src.classes[key].node.body:
                    if isinstance(n, ast.Assign):
                        for t in n.targets:
                            if isinstance(t, ast.Name):
                                names.add(t.id)
            names.update(dir(object))
            return sorted(names)
        raise Unsupported("dir() of %s" % type(o).__name__)

    def b_len(self, a, k):
        E = self.E
        v = sym.concrete(a[0])
        if isinstance(v, SV):
            if E.decide(sym.is_str(v)):
                return sym.mk_int(z3.Length(sym.sstr(v)))
            if E.decide(sym.is_ref(v)) and not E.decide(sym.is_kind(v, sym.K_OBJ)):
                E.assume(sym.ref_len(Val.r(v.t)) >= 0)
                return sym.mk_int(sym.ref_len(Val.r(v.t)))
            raise PyRaise(ExcVal(TypeError, ("object has no len()",)))
        if isinstance(v, SymDict):
            if v.closed:
                return len(self.dict_items(v))
            raise Unsupported("len of an open symbolic dict")
        if isinstance(v, Obj):
            found = E.src.find_method(v.cls, "__len__")
            if found:
                kk, fn = found
                return E.call_funcref(FuncRef(kk[0], fn, owner=kk), [v], {})
            raise PyRaise(ExcVal(TypeError, ("object has no len()",)))
        if isinstance(v, ListSet):
            return len(v.items)
        if isinstance(v, SplitResult):
            raise Unsupported("len of split()")
        try:
            return len(v)
        except TypeError:
            raise PyRaise(ExcVal(TypeError, ("object has no len()",)))

    def b_dict(self, a, k):
        d = self.new_dict()
        if a:
            src = a[0]
            if isinstance(src, SV):
                src = self.as_dict(src)
            if isinstance(src, SymDict):
                for kk, v in self.dict_items(src):
                    self.sd_set(d, kk, v)
            else:
                for item in self.E.iterate(src):
                    kk, v = self.E.unpack(item, 2)
                    self.sd_set(d, kk, v)
        for kk, v in k.items():
            self.sd_set(d, kk, v)
        return d

    def b_bool(self, v):
        if isinstance(v, SV):
            return sym.mk_bool(B(sym.truthy(v)))
        return self.E.truth(v)

    def b_int(self, a, k):
        E = self.E
        if not a:
            return 0
        v = sym.concrete(a[0])
        if len(a) > 1:
            raise Unsupported("int() with base")
        if isinstance(v, SV):
            if E.decide(sym.is_int(v)):
                return sym.mk_int(sym.sint(v))
            if E.decide(sym.is_str(v)):
                return self.int_of_str(sym.sstr(v))
            if E.decide(sym.is_float(v)):
                f = Val.f(v.t)
                # int() truncates toward zero
                return sym.mk_int(z3.If(f >= 0, z3.ToInt(f), -z3.ToInt(-f)))
            raise PyRaise(ExcVal(TypeError, ("int() argument",)))
        if isinstance(v, (str, int, float)):
            try:
                return int(v)
            except ValueError:
                raise PyRaise(ExcVal(ValueError, ()))
            except OverflowError:
                raise PyRaise(ExcVal(OverflowError, ()))
        if isinstance(v, StrCount):
            raise Unsupported("int(str.count())")
        raise PyRaise(ExcVal(TypeError, ("int() argument",)))

    def int_of_str(self, s):
        E = self.E
        hit = sym.INT_STR.get(z3.simplify(s).get_id())
        if hit is not None and hit[0].eq(z3.simplify(s)):
            return sym.mk_int(hit[1])           # A5: int(str(i)) == i
        if E.decide(z3.InRe(s, DIGITS_RE)):
            return sym.mk_int(z3.StrToInt(s))
        if E.decide(z3.InRe(s, z3.Concat(z3.Re("-"), DIGITS_RE))):
            return sym.mk_int(-z3.StrToInt(z3.SubString(s, 1, z3.Length(s) - 1)))
        if E.decide(z3.InRe(s, z3.Concat(DIGITS_RE, z3.Re("\n")))):
            return sym.mk_int(z3.StrToInt(z3.SubString(s, 0, z3.Length(s) - 1)))
        if E.decide(z3.InRe(s, INT_MAYBE_RE)):
            # signs, blanks, underscores: accepted or rejected by int() depending on details we do not model
            E.havoc("int() of a non-canonical numeral")
            if E.decide(E.fresh("int_ok", z3.BoolSort())):
                return SV(Val.VInt(E.fresh("int_val", z3.IntSort())))
            raise PyRaise(ExcVal(ValueError, ()))
        raise PyRaise(ExcVal(ValueError, ("invalid literal for int()",)))

    def b_float(self, a, k):
        E = self.E
        v = sym.concrete(a[0]) if a else 0.0
        if isinstance(v, SV):
            if E.decide(sym.is_float(v)):
                return v
            if E.decide(sym.is_int(v)):
                return SV(Val.VFloat(z3.ToReal(sym.sint(v))))
            if E.decide(sym.is_str(v)):
                st_ = z3.simplify(sym.sstr(v))
                if z3.is_app(st_) and st_.decl().name() == "float_str" and st_.num_args() == 1:
                    return SV(Val.VFloat(st_.arg(0)))           # A5: float(repr(x)) == x for finite floats
                hit = sym.INT_STR.get(st_.get_id())
                if hit is not None and hit[0].eq(st_) and E.decide(as_bool(z3.And(hit[1] >= -2 ** 53, hit[1] <= 2 ** 53))):
                    return SV(Val.VFloat(z3.ToReal(hit[1])))     # A5: float(str(i)) is exact for |i| <= 2^53
                E.havoc("float() of a symbolic string")
                if E.decide(E.fresh("float_ok", z3.BoolSort())):
                    return SV(Val.VFloat(sym.str_float(sym.sstr(v))))
                raise PyRaise(ExcVal(ValueError, ()))
            raise PyRaise(ExcVal(TypeError, ("float() argument",)))
        try:
            return float(v)
        except ValueError:
            raise PyRaise(ExcVal(ValueError, ()))
        except TypeError:
            raise PyRaise(ExcVal(TypeError, ()))

    def b_type(self, a, k):
        v = sym.concrete(a[0])
        if len(a) != 1:
            raise Unsupported("type() with 3 arguments")
        if isinstance(v, SV):
            raise Unsupported("type() of a symbolic value")
        if isinstance(v, Obj):
            return ClassRef(v.cls)
        if isinstance(v, SymDict):
            return dict
        return type(v)

    def b_super(self, a, k):
        if len(a) != 2:
            raise Unsupported("super() without arguments")
        cls, obj = a
        if isinstance(cls, ClassRef) and isinstance(obj, Obj):
            if cls.key not in self.E.src.mro(obj.cls):
                # e.g. super(productmd.common.MetadataBase, self) in TreeInfo.__init__ : created, never used
                return SuperRef(self.E.src.mro(obj.cls)[-1], obj)
            return SuperRef(cls.key, obj)
        raise Unsupported("super(%r, %r)" % (cls, obj))

    def b_re_compile(self, a, k):
        p = sym.concrete(a[0])
        if isinstance(p, re.Pattern):
            return p
        if not isinstance(p, str):
            raise Unsupported("re.compile of a symbolic pattern")
        if len(a) > 1 or k:
            raise Unsupported("re flags")
        return re.compile(p)

    # ------------------------------------------------------------------------------------------- with
    def with_stmt(self, cm, target, body, env):
        E = self.E
        h = self.with_hooks.get(type(cm))
        if h:
            return h(self, cm, target, body, env)
        raise Unsupported("with %s" % type(cm).__name__)

    with_hooks = {}


class _OpenView(object):
    """keys()/values()/items() of an open symbolic dict; only membership and loop rules may consume it"""

    def __init__(self, d, kind):
        self.d = d
        self.kind = kind


def _nonneg(t):
    if z3.is_int_value(t):
        return t.as_long() >= 0
    if z3.is_app(t):
        k = t.decl().kind()
        if k == z3.Z3_OP_SEQ_LENGTH:
            return True
        if k == z3.Z3_OP_ADD:
            return all(_nonneg(c) for c in t.children())
    return False


def _kname(k):
    if isinstance(k, str):
        return k
    return str(k.t if isinstance(k, SV) else k)[:40]


def _plain(v):
    return v is None or isinstance(v, (bool, int, float, str, bytes))


def _all_concrete(vals):
    for v in vals:
        if isinstance(v, (SV, Obj, SymDict, SplitResult, StrCount, FuncRef, BoundMethod, ClassRef)):
            return False
        if isinstance(v, (list, tuple, set, frozenset)) and not _all_concrete(list(v)):
            return False
    return True


def _all_concrete_shallow(vals):
    return True


def _hashable(f):
    try:
        hash(f)
        return True
    except TypeError:
        return False


import operator as _op
_NATIVE_BINOP = {ast.Add: _op.add, ast.Sub: _op.sub, ast.Mult: _op.mul, ast.Mod: _op.mod, ast.FloorDiv: _op.floordiv,
                 ast.Div: _op.truediv, ast.Pow: _op.pow, ast.BitOr: _op.or_, ast.BitAnd: _op.and_}
_NATIVE_CMP = {ast.Lt: _op.lt, ast.LtE: _op.le, ast.Gt: _op.gt, ast.GtE: _op.ge}
