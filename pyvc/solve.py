"""SMT portfolio (DESIGN 4.5): z3 5.1 in process first; what it leaves ``unknown`` goes, as SMT-LIB text, to
cvc5 1.0.3 (--strings-exp), z3 4.8.12 and z3-new CLIs running concurrently.  ``unsat`` from any solver
discharges; ``sat`` needs a model (z3 in-process, or values parsed back from cvc5 and re-validated by z3)."""
import os
import re
import shutil
import subprocess
import tempfile
import threading
import time
from concurrent.futures import ThreadPoolExecutor

import z3

CVC5 = shutil.which("cvc5") or "/usr/bin/cvc5"
Z3_OLD = "/usr/bin/z3" if os.path.exists("/usr/bin/z3") else None
Z3_NEW = shutil.which("z3-new")

BUDGET = {"quick": {"inproc_ms": 1500, "ext_s": 10, "retry_s": 40, "batch_s": 240, "check_s": 300},
          "thorough": {"inproc_ms": 5000, "ext_s": 60, "retry_s": 240, "batch_s": 1500, "check_s": 6000}}

_pool = ThreadPoolExecutor(max_workers=6)
_cli_pool = ThreadPoolExecutor(max_workers=16)
_stats_lock = threading.Lock()
STATS = {"queries": 0, "inproc": 0, "external": 0, "seconds": 0.0, "by_solver": {}}


class Result(object):
    def __init__(self, status, model=None, solver=None, seconds=0.0, text=None):
        self.status = status      # 'sat' | 'unsat' | 'unknown'
        self.model = model        # z3 ModelRef (or dict name->python value from cvc5) or None
        self.solver = solver
        self.seconds = seconds
        self.text = text

    def __repr__(self):
        return "<%s by %s in %.2fs>" % (self.status, self.solver, self.seconds)


def _note(solver, secs):
    with _stats_lock:
        STATS["queries"] += 1
        STATS["seconds"] += secs
        d = STATS["by_solver"].setdefault(solver, [0, 0.0])
        d[0] += 1
        d[1] += secs


def to_smt2(formulas):
    s = z3.Solver()
    for f in formulas:
        s.add(f)
    txt = s.to_smt2()
    # z3 prints (set-info ...) and (check-sat); make it portable
    txt = "(set-logic ALL)\n" + "\n".join(l for l in txt.splitlines() if not l.startswith("(set-info") and l.strip() != "(check-sat)")
    return txt + "\n(check-sat)\n"


_RE_CACHE = {}


def _has_re(t):
    k = t.get_id()
    c = _RE_CACHE.get(k)
    if c is not None and c[0].eq(t):
        return c[1]
    found = False
    seen = set()
    st = [t]
    while st and not found:
        x = st.pop()
        i = x.get_id()
        if i in seen:
            continue
        seen.add(i)
        if z3.is_app(x):
            if x.decl().kind() == z3.Z3_OP_SEQ_IN_RE:
                found = True
            else:
                st.extend(x.children())
        elif z3.is_quantifier(x):
            st.append(x.body())
    _RE_CACHE[k] = (t, found)
    return found


def _enc(v):
    """z3 model value -> picklable python structure (None when the value has a shape we do not transport)"""
    if z3.is_string_value(v):
        return ("s", v.as_string())
    if z3.is_int_value(v):
        return ("i", v.as_long())
    if z3.is_rational_value(v):
        return ("r", v.numerator_as_long(), v.denominator_as_long())
    if z3.is_true(v) or z3.is_false(v):
        return ("b", z3.is_true(v))
    if z3.is_app(v) and v.sort().kind() == z3.Z3_DATATYPE_SORT:
        args = [_enc(c) for c in v.children()]
        if any(a is None for a in args):
            return None
        return ("c", v.decl().name(), args)
    return None


def _dec(e, sort):
    k = e[0]
    if k == "s":
        return z3.StringVal(_unesc(e[1]))
    if k == "i":
        return z3.IntVal(e[1])
    if k == "r":
        return z3.RealVal("%d/%d" % (e[1], e[2]))
    if k == "b":
        return z3.BoolVal(e[1])
    if k == "c":
        for i in range(sort.num_constructors()):
            c = sort.constructor(i)
            if c.name() == e[1]:
                if c.arity() == 0:
                    return c()
                return c(*[_dec(a, c.domain(j)) for j, a in enumerate(e[2])])
    raise ValueError("cannot rebuild %r" % (e,))


def _unesc(t):
    return re.sub(r"\\u\{([0-9a-fA-F]+)\}", lambda m: chr(int(m.group(1), 16)), t)


def _const_decls(formulas):
    out = {}
    seen = set()
    st = list(formulas)
    while st:
        x = st.pop()
        i = x.get_id()
        if i in seen:
            continue
        seen.add(i)
        if z3.is_quantifier(x):
            st.append(x.body())
        elif z3.is_app(x):
            if x.num_args() == 0 and x.decl().kind() == z3.Z3_OP_UNINTERPRETED:
                out[x.decl().name()] = x
            else:
                st.extend(x.children())
    return out


def guarded_check(s, timeout_ms, want_model=True):
    """s.check() that cannot hang; returns z3.sat / z3.unsat / z3.unknown and leaves the model (when asked for) in ``s.pyvc_model``.
    z3's own `timeout` is not honoured inside some regular-expression loops (observed: a 150 ms feasibility query that ran for 40
    minutes) and Context.interrupt() crashed z3 5.1 in exactly that state, so a query with regular memberships is solved in a FORKED
    child (copy-on-write image of this process) that is killed after 3x the budget + 2 s: no answer counts as unknown.  The child
    sends back the verdict and, for `sat`, the values of the constants; the parent rebuilds the model by pinning those values and
    re-checking the query (an evaluation, not a search)."""
    s.pyvc_model = None
    asserts = list(s.assertions())
    if not any(_has_re(a) for a in asserts):
        try:
            r = s.check()
        except z3.Z3Exception:
            return z3.unknown
        if r == z3.sat and want_model:
            s.pyvc_model = s.model()
        return r
    import pickle
    import select
    rfd, wfd = os.pipe()
    pid = os.fork()
    if pid == 0:
        payload = pickle.dumps(("k", None))
        try:
            os.close(rfd)
            res = s.check()
            if res == z3.unsat:
                payload = pickle.dumps(("u", None))
            elif res == z3.sat:
                pins = {}
                if want_model:
                    m = s.model()
                    for d in m.decls():
                        if d.arity() == 0:
                            e = _enc(m[d])
                            if e is not None:
                                pins[d.name()] = e
                payload = pickle.dumps(("s", pins))
        except BaseException:
            pass
        try:
            os.write(wfd, payload)
        finally:
            os._exit(0)
    os.close(wfd)
    buf = b""
    deadline = time.time() + 3.0 * timeout_ms / 1000.0 + 2.0
    try:
        while True:
            left = deadline - time.time()
            if left <= 0:
                buf = b""
                break
            ready, _, _ = select.select([rfd], [], [], left)
            if not ready:
                buf = b""
                break
            chunk = os.read(rfd, 1 << 16)
            if not chunk:
                break
            buf += chunk
    finally:
        os.close(rfd)
        if not buf:
            WATCHDOG["fired"] += 1
            try:
                os.kill(pid, 9)
            except OSError:
                pass
        try:
            os.waitpid(pid, 0)
        except OSError:
            pass
    if not buf:
        return z3.unknown
    try:
        verdict, pins = pickle.loads(buf)
    except Exception:
        return z3.unknown
    if verdict == "u":
        return z3.unsat
    if verdict != "s":
        return z3.unknown
    if not want_model:
        return z3.sat
    # rebuild the model: pin the constants, re-check (bounded by z3's timeout; a pinned query is an evaluation)
    decls = _const_decls(asserts)
    s2 = z3.Solver()
    s2.set("timeout", int(max(timeout_ms, 2000)))
    for a in asserts:
        s2.add(a)
    try:
        for n, e in pins.items():
            c = decls.get(n)
            if c is not None:
                s2.add(c == _dec(e, c.sort()))
        if s2.check() == z3.sat:
            s.pyvc_model = s2.model()
    except (z3.Z3Exception, ValueError):
        pass
    return z3.sat


WATCHDOG = {"fired": 0}


def check_inproc(formulas, timeout_ms):
    s = z3.Solver()
    s.set("timeout", int(timeout_ms))
    for f in formulas:
        s.add(f)
    t = time.time()
    r = guarded_check(s, timeout_ms)
    dt = time.time() - t
    _note("z3-5.1-api", dt)
    if r == z3.sat:
        return Result("sat", s.pyvc_model, "z3-5.1-api", dt)
    if r == z3.unsat:
        return Result("unsat", None, "z3-5.1-api", dt)
    try:
        why = s.reason_unknown()
    except z3.Z3Exception:
        why = "interrupted"
    return Result("unknown", None, "z3-5.1-api", dt, why)


def _run_cli(cmd, path, timeout_s, name):
    t = time.time()
    try:
        p = subprocess.run(cmd + [path], capture_output=True, text=True, timeout=timeout_s + 5)
        out = (p.stdout or "").strip()
    except subprocess.TimeoutExpired:
        out = "timeout"
    dt = time.time() - t
    _note(name, dt)
    first = out.splitlines()[0].strip() if out else ""
    if first in ("sat", "unsat"):
        return Result(first, None, name, dt, out)
    return Result("unknown", None, name, dt, out[:300])


def check_external_text(txt, timeout_s):
    """Run the CLI solvers concurrently on SMT-LIB text (thread-safe: no z3 API objects involved)."""
    fd, path = tempfile.mkstemp(suffix=".smt2", prefix="pyvc_")
    with os.fdopen(fd, "w") as f:
        f.write(txt)
    jobs = []
    import concurrent.futures as cf
    try:
        if os.path.exists(CVC5):
            jobs.append(_cli_pool.submit(_run_cli, [CVC5, "--strings-exp", "--tlimit=%d" % (timeout_s * 1000), "--lang=smt2"],
                                         path, timeout_s, "cvc5-1.0.3"))
        if Z3_OLD:
            jobs.append(_cli_pool.submit(_run_cli, [Z3_OLD, "-T:%d" % timeout_s], path, timeout_s, "z3-4.8.12"))
        if Z3_NEW:
            jobs.append(_cli_pool.submit(_run_cli, [Z3_NEW, "-T:%d" % timeout_s], path, timeout_s, "z3-5.1-cli"))
        results = []
        pending = set(jobs)
        best = None
        while pending and best is None:
            done, pending = cf.wait(pending, return_when=cf.FIRST_COMPLETED)
            for d in done:
                r = d.result()
                results.append(r)
                if r.status in ("sat", "unsat") and best is None:
                    best = r
        if best is None:
            return Result("unknown", None, "portfolio", max([r.seconds for r in results] or [0]),
                          "; ".join("%s:%s" % (r.solver, (r.text or "")[:60]) for r in results))
        return best
    finally:
        try:
            os.unlink(path)
        except OSError:
            pass


def _ext_with_retry(txt, tier):
    b = BUDGET[tier]
    r = check_external_text(txt, b["ext_s"])
    if r.status == "unknown":
        r = check_external_text(txt, b["retry_s"])      # one retry at 4x (verdicts must not flip on a loaded machine)
    return r


def _finish_sat(formulas, r2, tier):
    """external solver said sat: obtain a model from z3 with the long budget (main thread only)"""
    b = BUDGET[tier]
    r3 = check_inproc(formulas, b["retry_s"] * 1000 // 4)
    if r3.status == "sat":
        r3.solver = r2.solver + "+z3-model"
        return r3
    if r3.status == "unsat":
        return Result("unknown", None, "portfolio", r2.seconds + r3.seconds,
                      "solver disagreement: %s sat vs z3 unsat" % r2.solver)
    return r2


def check(formulas, tier="quick", want_model=True):
    """Full portfolio for one query (call from the main thread).  Returns Result."""
    b = BUDGET[tier]
    r = check_inproc(formulas, b["inproc_ms"])
    if r.status != "unknown":
        return r
    r2 = _ext_with_retry(to_smt2(formulas), tier)
    if r2.status == "sat" and want_model:
        return _finish_sat(formulas, r2, tier)
    return r2


# ---- independence decomposition --------------------------------------------------------------------------------------------------
# A query is a conjunction.  Conjuncts that share no uninterpreted CONSTANT are independent: if one group is unsat the query is unsat
# (sound unconditionally), and if every group is sat the group models are pinned and re-checked against the WHOLE query (so an
# interaction through uninterpreted functions cannot produce a wrong `sat`); anything else falls back to the undecomposed query.
_SYM_CACHE = {}
_COMP_CACHE = {}
DECOMP_STATS = {"queries": 0, "decomposed": 0, "comp_hits": 0, "comp_solved": 0, "fallback": 0}


def _consts(f):
    k = f.get_id()
    hit = _SYM_CACHE.get(k)
    if hit is not None and hit[0].eq(f):
        return hit[1]
    out = set()
    seen = set()
    st = [f]
    while st:
        x = st.pop()
        i = x.get_id()
        if i in seen:
            continue
        seen.add(i)
        if z3.is_quantifier(x):
            st.append(x.body())
            continue
        if z3.is_app(x):
            if x.num_args() == 0 and x.decl().kind() == z3.Z3_OP_UNINTERPRETED:
                out.add(x.decl().name())
            else:
                st.extend(x.children())
    out = frozenset(out)
    _SYM_CACHE[k] = (f, out)
    return out


def components(formulas):
    """partition into groups connected by shared constants; const-free formulas form one group of their own"""
    parent = {}

    def find(a):
        while parent.get(a, a) != a:
            parent[a] = parent.get(parent[a], parent[a])
            a = parent[a]
        return a
    ground = []
    syms = []
    for f in formulas:
        cs = _consts(f)
        syms.append(cs)
        if not cs:
            ground.append(f)
            continue
        cs = list(cs)
        r = find(cs[0])
        for c in cs[1:]:
            r2 = find(c)
            if r2 != r:
                parent[r2] = r
    groups = {}
    for f, cs in zip(formulas, syms):
        if cs:
            groups.setdefault(find(next(iter(cs))), []).append(f)
    out = list(groups.values())
    if ground:
        out.append(ground)
    return out


def _comp_key(fs):
    return tuple(sorted(f.get_id() for f in fs))


def _comp_lookup(fs):
    k = _comp_key(fs)
    hit = _COMP_CACHE.get(k)
    if hit is not None and len(hit[0]) == len(fs) and all(any(a.eq(b) for b in hit[0]) for a in fs):
        DECOMP_STATS["comp_hits"] += 1
        return hit[1]
    return None


def _comp_store(fs, r):
    if r.status != "unknown":
        _COMP_CACHE[_comp_key(fs)] = (list(fs), r)


def _merge_models(formulas, comps, results, timeout_ms):
    s = z3.Solver()
    s.set("timeout", int(timeout_ms))
    for f in formulas:
        s.add(f)
    for r in results:
        m = r.model
        if m is None:
            return None
        for d in m.decls():
            if d.arity() == 0:
                try:
                    s.add(d() == m[d])
                except z3.Z3Exception:
                    pass
    if guarded_check(s, timeout_ms) == z3.sat:
        return s.pyvc_model
    return None


def check_many(queries, tier="quick"):
    """Decomposed front end of the portfolio (see above); `_check_many_whole` is the undecomposed portfolio."""
    b = BUDGET[tier]
    out = [None] * len(queries)
    plan = []
    flat = []           # component formula-lists still to be solved
    flat_ix = {}
    for qi, q in enumerate(queries):
        DECOMP_STATS["queries"] += 1
        comps = components(q)
        if len(comps) <= 1:
            plan.append(None)
            continue
        DECOMP_STATS["decomposed"] += 1
        slots = []
        for c in comps:
            hit = _comp_lookup(c)
            if hit is not None:
                slots.append(hit)
            else:
                k = _comp_key(c)
                if k not in flat_ix:
                    flat_ix[k] = len(flat)
                    flat.append(c)
                slots.append(("pending", flat_ix[k]))
        plan.append((comps, slots))
    whole = [qi for qi, pl in enumerate(plan) if pl is None]
    if flat:
        DECOMP_STATS["comp_solved"] += len(flat)
        ans = _check_many_whole(flat, tier, want_model=True)
        for c, r in zip(flat, ans):
            _comp_store(c, r)
    else:
        ans = []
    for qi, pl in enumerate(plan):
        if pl is None:
            continue
        comps, slots = pl
        rs = [ans[x[1]] if isinstance(x, tuple) else x for x in slots]
        uns = [r for r in rs if r.status == "unsat"]
        if uns:
            out[qi] = Result("unsat", None, uns[0].solver, sum(r.seconds for r in rs if not getattr(r, "_counted", False)))
            continue
        if all(r.status == "sat" for r in rs):
            m = _merge_models(queries[qi], comps, rs, b["inproc_ms"])
            if m is not None:
                out[qi] = Result("sat", m, "+".join(sorted(set(r.solver or "" for r in rs))), sum(r.seconds for r in rs))
                continue
        DECOMP_STATS["fallback"] += 1
        whole.append(qi)
    if whole:
        ans2 = _check_many_whole([queries[i] for i in whole], tier)
        for i, r in zip(whole, ans2):
            out[i] = r
    return out


def check_decomposed(formulas, timeout_ms):
    """in-process only (covers, feasibility-like uses): decomposed check with the given per-component budget"""
    comps = components(formulas)
    if len(comps) <= 1:
        return check_inproc(formulas, timeout_ms)
    rs = []
    for c in comps:
        r = _comp_lookup(c)
        if r is None:
            r = check_inproc(c, timeout_ms)
            _comp_store(c, r)
        if r.status == "unsat":
            return r
        rs.append(r)
    if all(r.status == "sat" for r in rs):
        m = _merge_models(formulas, comps, rs, timeout_ms)
        if m is not None:
            return Result("sat", m, "z3-5.1-api", sum(r.seconds for r in rs))
    return check_inproc(formulas, timeout_ms)


def _check_many_whole(queries, tier="quick", want_model=True):
    """queries: list of formula-lists.  In-process z3 first (sequential, cheap); what it leaves unknown is sent as
    SMT-LIB text to the CLI portfolio, all leftovers concurrently."""
    out = [None] * len(queries)
    b = BUDGET[tier]
    left = []
    t_start = time.time()
    cap = b.get("batch_s", 300)
    # wall clock for ALL solver batches of one check (like the exploration budget of the engine): once it is used up a batch gets 5 s (10 s with the external retries);
    # on the unchanged tree the whole solving of the largest check stays under a minute
    total = b.get("check_s", 900)
    if _solver_wall[0] > total:
        cap = min(cap, 5)
    try:
        return _check_many_capped(queries, tier, want_model, out, b, left, t_start, cap)
    finally:
        _solver_wall[0] += time.time() - t_start


_solver_wall = [0.0]


def _check_many_capped(queries, tier, want_model, out, b, left, t_start, cap):
    for i, q in enumerate(queries):
        if time.time() - t_start > cap:
            # a batch that needs more than its wall-clock share is cut off: the remaining queries stay undecided (never `sat`/`unsat`)
            out[i] = Result("unknown", None, "portfolio", 0.0, "solver budget of the batch (%d s) exhausted" % cap)
            continue
        r = check_inproc(q, b["inproc_ms"])
        if r.status == "unknown":
            left.append(i)
        else:
            out[i] = r
    if left and cap <= 5:
        # the check's solver budget is used up: no external portfolio (10 s + 40 s per query) any more
        for i in left:
            out[i] = Result("unknown", None, "portfolio", 0.0, "solver budget of the check exhausted")
        left = []
    if left:
        futs = {}
        for i in left:
            futs[i] = _pool.submit(_ext_with_retry, to_smt2(queries[i]), tier)
        attempts = 0
        for i, f in futs.items():
            if time.time() - t_start > 2 * cap:
                f.cancel()
                if f.cancelled():
                    out[i] = Result("unknown", None, "portfolio", 0.0, "solver budget of the batch (%d s) exhausted" % cap)
                    continue
            r2 = f.result()
            if r2.status == "sat" and attempts < 3:
                # model search for an externally-sat query is expensive (z3 already gave up on it once): a few per batch are enough
                # to obtain a counterexample; the others stay `sat` without a model
                attempts += 1
                r2 = _finish_sat(queries[i], r2, tier)
            out[i] = r2
    return out
