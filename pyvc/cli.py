"""Command line: vcheck <Cxx> [--tier quick|thorough] [--repo PATH] ; vcheck replay <file> [--repo PATH]"""
import argparse
import importlib
import os
import sys
import traceback


def main(argv=None):
    argv = list(sys.argv[1:] if argv is None else argv)
    if argv and argv[0] == "replay":
        ap = argparse.ArgumentParser(prog="vcheck replay")
        ap.add_argument("file")
        ap.add_argument("--repo", default=os.environ.get("VERIF_REPO", "/repo"))
        a = ap.parse_args(argv[1:])
        from .report import run_replay_file
        ok, out = run_replay_file(a.file, a.repo)
        print(out.strip())
        print("confirmed" if ok else ("not-reproduced" if ok is False else "replay-error"))
        return 1 if ok else (0 if ok is False else 3)
    ap = argparse.ArgumentParser(prog="vcheck")
    ap.add_argument("prop")
    ap.add_argument("--tier", default=os.environ.get("VERIF_TIER", "quick"), choices=["quick", "thorough"])
    ap.add_argument("--repo", default=os.environ.get("VERIF_REPO", "/repo"))
    ap.add_argument("--only", default=None, help="substring filter on obligation groups (debugging; never used by MANIFEST)")
    a = ap.parse_args(argv)
    try:
        seed = int(os.environ.get("VERIF_SEED", "0"))
    except ValueError:
        seed = 0
    from .report import Run
    run = Run(a.prop, a.tier, a.repo, seed, argv=["bin/vcheck"] + argv)
    run.only = a.only
    try:
        sys.path.insert(0, run.repo)
        mod = importlib.import_module("props." + a.prop)
        mod.check(run)
    except SystemExit:
        raise
    except BaseException:
        run.faults.append("check crashed: " + traceback.format_exc()[-2000:])
    return run.finish()


if __name__ == "__main__":
    sys.exit(main())
