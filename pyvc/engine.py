"""pyvc engine: symbolic execution of the REAL productmd AST, path by path (DESIGN 4, Appendix B).

Values are concrete Python values whenever possible; unknown scalars are ``SV`` terms of the tagged union
``Val``; instances of repository classes are ``Obj`` cells; dicts are Python dicts when their key set is
known and ``SymDict`` (lazily initialised, symbolic keys allowed) otherwise.  Path exploration is by
re-execution with a decision prefix; Python exceptions are outcomes."""
import ast
import builtins
import copy
import re
import time
import types

import z3

from . import sym
from .sym import SV, Val, lift, as_bool, B


class Unsupported(Exception):
    pass


class LoopCut(Exception):
    """end of an arbitrary-iteration path of a loop verified by invariant"""


class Infeasible(Exception):
    """raised when the current path condition is found contradictory"""


class ExcVal(object):
    def __init__(self, cls, args=(), cause=None):
        self.cls = cls          # python exception class
        self.args = args

    def __repr__(self):
        return "<exc %s>" % self.cls.__name__


class PyRaise(Exception):
    def __init__(self, exc):
        if isinstance(exc, type):
            exc = ExcVal(exc)
        self.exc = exc

    @property
    def cls(self):
        return self.exc.cls


class Return(Exception):
    def __init__(self, v):
        self.v = v


class Break(Exception):
    pass


class Continue(Exception):
    pass


ABSENT = type("ABSENT", (), {"__repr__": lambda s: "ABSENT"})()


# ---------------------------------------------------------------------------------------------------------------
# heap
# ---------------------------------------------------------------------------------------------------------------
class Obj(object):
    """instance of a repository class"""

    def __init__(self, cls, name, oid):
        self.cls = cls        # (module, classname)
        self.name = name
        self.oid = oid
        self.fields = {}

    def __repr__(self):
        return "<Obj %s.%s %s>" % (self.cls[0], self.cls[1], self.name)


class FuncRef(object):
    def __init__(self, module, node, closure=None, owner=None):
        self.module = module
        self.node = node
        self.closure = closure
        self.owner = owner      # class key when the function is a method

    def __repr__(self):
        return "<func %s.%s>" % (self.module, getattr(self.node, "name", "<lambda>"))


class BoundMethod(object):
    def __init__(self, obj, func, name):
        self.obj = obj
        self.func = func        # FuncRef
        self.name = name

    def __repr__(self):
        return "<bound %r.%s>" % (self.obj, self.name)


class ClassRef(object):
    def __init__(self, key):
        self.key = key

    def __repr__(self):
        return "<class %s.%s>" % self.key


class SuperRef(object):
    def __init__(self, start_after, obj):
        self.start_after = start_after
        self.obj = obj


class NativeMethod(object):
    """method of a modelled value (str/dict/list/...) bound to its receiver"""

    def __init__(self, recv, name):
        self.recv = recv
        self.name = name


class Entry(object):
    __slots__ = ("key", "present", "value")

    def __init__(self, key, present, value):
        self.key = key            # python str or z3 String term
        self.present = present    # python bool or z3 Bool term
        self.value = value


class SymDict(object):
    """lazily initialised dict with str keys: known entries + (if not closed) an unknown remainder"""

    def __init__(self, name, closed=False, origin="input"):
        self.name = name
        self.entries = []
        self.closed = closed
        self.origin = origin

    def __repr__(self):
        return "<SymDict %s %d entries%s>" % (self.name, len(self.entries), "" if self.closed else " +rest")


class SymSeq(object):
    """symbolic list of unbounded length: z3 sequence of Val (heap objects appear as allocated VRef ids)"""

    def __init__(self, name, term=None):
        self.name = name
        self.t = term if term is not None else z3.Const(name, z3.SeqSort(Val))
        self.t0 = self.t


class SymSet(object):
    """symbolic set of scalars: membership predicate as a z3 array Val -> Bool"""

    def __init__(self, name, arr=None):
        self.name = name
        self.arr = arr if arr is not None else z3.Const(name, z3.ArraySort(Val, z3.BoolSort()))


class StrCount(object):
    """lazy ``s.count(ch)`` (single-character needle)"""

    def __init__(self, s, ch):
        self.s = s
        self.ch = ch


class SplitResult(object):
    """lazy ``s.split(sep[, maxsplit])`` / ``rsplit`` of a symbolic string; materialised when its length is decided"""

    def __init__(self, s, sep, maxsplit=-1, right=False):
        self.s = s            # z3 String term
        self.sep = sep        # python str
        self.maxsplit = maxsplit
        self.right = right
        self.parts = None


def exc_matches(exc_cls, handler_cls):
    try:
        return issubclass(exc_cls, handler_cls)
    except TypeError:
        return False


# ---------------------------------------------------------------------------------------------------------------
class Path(object):
    def __init__(self, prefix):
        self.prefix = prefix
        self.decisions = []
        self.pc = []
        self.pc_ids = {}
        self.pending = []
        self.havoc = []           # reasons: values on this path are not fully modelled
        self.assumed = []         # library assumptions used (ids)
        self.effects = []         # effect log (open-for-write etc.)
        self.counter = 0
        self.refs = {}            # z3 ref-term id -> container
        self.notes = []
        self.abstract = False
        self.side_goals = []


class PathResult(object):
    def __init__(self, path, kind, value, extra=None):
        self.pc = list(path.pc)
        self.kind = kind          # 'return' | 'raise'
        self.value = value        # return value | ExcVal
        self.havoc = list(path.havoc)
        self.assumed = list(path.assumed)
        self.effects = list(path.effects)
        self.decisions = list(path.decisions)
        self.extra = extra or {}
        self.notes = list(path.notes)
        self.abstract = path.abstract
        self.pc_ids = dict(path.pc_ids)
        self.side_goals = list(path.side_goals)


class Engine(object):
    MAX_INLINE_DEPTH = 12

    def __init__(self, source, feas_timeout_ms=150):
        self.src = source
        self.mods = source.mods or source.import_native()
        self.feas_timeout_ms = feas_timeout_ms
        self.loop_invariants = {}  # (module, function name, line|"while") -> object with havoc(E, env), invariant(E, env)
        self.summaries = {}        # (class key, method name) -> callable(engine, obj, args, kwargs)
        self.func_summaries = {}   # (module, function name) -> callable(engine, args, kwargs)
        self.lower_hints = []
        self.stats = {"paths": 0, "feas_queries": 0, "feas_s": 0.0, "infeasible_dropped": 0}
        self.depth = 0
        self.path = None
        self.native_models = None
        from . import models
        self.models = models.Models(self)
        sym.NONNEG_HOOK[0] = self._entails_nonneg
        self.explore_budget_s = 300    # wall clock per contract: beyond it the function counts as outside the supported subset (undecided)
        self.axioms = []           # global axioms (about uninterpreted functions) added to every query
        # wall clock for ALL explorations of one check: once it is used up every further contract gets 5 s (a changed tree that makes
        # each of 28 lemmas expensive must end in a verdict, not in hours of exploration); unchanged tree: < 150 s in every check
        self.explore_total_budget_s = 600
        self.explore_total_s = 0.0

    # ------------------------------------------------------------------------------------------------- paths
    def explore(self, thunk, max_paths=4000, pc0=()):
        """run thunk() along every feasible path; thunk returns (kind, value[, extra]) or raises PyRaise"""
        work = [[]]
        out = []
        t_start = time.time()
        budget = min(self.explore_budget_s, max(5, self.explore_total_budget_s - self.explore_total_s))
        try:
            return self._explore(thunk, max_paths, pc0, work, out, t_start, budget)
        finally:
            self.explore_total_s += time.time() - t_start

    def _explore(self, thunk, max_paths, pc0, work, out, t_start, budget):
        while work:
            if time.time() - t_start > budget:
                raise Unsupported("path exploration exceeded its budget of %d s (%d paths kept, %d infeasible dropped so far)"
                                  % (budget, len(out), self.stats["infeasible_dropped"]))
            prefix = work.pop()
            self.path = Path(prefix)
            sym._counter[0] = 0
            for c in pc0:
                self._add_pc(c)
            self.depth = 0
            try:
                res = thunk()
                if isinstance(res, tuple):
                    kind, value = res[0], res[1]
                    extra = res[2] if len(res) > 2 else None
                else:
                    kind, value, extra = "return", res, None
                out.append(PathResult(self.path, kind, value, extra))
            except PyRaise as e:
                out.append(PathResult(self.path, "raise", e.exc))
            except Infeasible:
                self.stats["infeasible_dropped"] += 1
            except LoopCut:
                out.append(PathResult(self.path, "loopcut", None))
            except Unsupported:
                # an unsupported construct on an infeasible path is irrelevant
                if self.feasible(self.path.pc, self.feas_timeout_ms * 20) is False:
                    self.stats["infeasible_dropped"] += 1
                else:
                    raise
            work.extend(self.path.pending)
            self.stats["paths"] += 1
            if len(out) > max_paths:
                raise Unsupported("more than %d paths" % max_paths)
        return out

    def feasible(self, cs, timeout_ms=None, slice_for=None):
        """True / False / None(unknown).  With slice_for=<term>, only the conjuncts that (transitively) share
        symbols with the term are sent to the solver (the rest of the path condition is independent of it)."""
        cs = list(cs)
        if slice_for is not None:
            cs = self._slice(cs, slice_for) + [slice_for]
        s = z3.Solver()
        s.set("timeout", int(timeout_ms or self.feas_timeout_ms))
        for c in cs:
            s.add(c)
        for a in self.axioms:
            s.add(a)
        t = time.time()
        from . import solve as _solve
        r = _solve.guarded_check(s, int(timeout_ms or self.feas_timeout_ms), want_model=False)
        self.stats["feas_queries"] += 1
        self.stats["feas_s"] += time.time() - t
        if r == z3.sat:
            return True
        if r == z3.unsat:
            return False
        return None

    def _entails_nonneg(self, t):
        p = self.path
        if p is None:
            return False
        key = ("nonneg", t.get_id(), len(p.pc))
        hit = p.refs.get(key)
        if hit is not None and hit[0].eq(t):
            return hit[1]
        r = self.feasible(p.pc, slice_for=t < 0) is False
        p.refs[key] = (t, r)
        return r

    _re_cache = {}

    def _has_re(self, t):
        k = t.get_id()
        c = Engine._re_cache.get(k)
        if c is not None and c[0].eq(t):
            return c[1]
        found = False
        seen = set()
        st = [t]
        while st and not found:
            x = st.pop()
            i = x.get_id()
            if i in seen:
                continue
            seen.add(i)
            if z3.is_app(x):
                if x.decl().kind() == z3.Z3_OP_SEQ_IN_RE:
                    found = True
                else:
                    st.extend(x.children())
            elif z3.is_quantifier(x):
                st.append(x.body())
        Engine._re_cache[k] = (t, found)
        return found

    _sym_cache = {}

    def _symbols(self, t):
        k = t.get_id()
        c = Engine._sym_cache.get(k)
        if c is not None and c[0].eq(t):
            return c[1]
        out = set()
        seen = set()
        st = [t]
        while st:
            x = st.pop()
            i = x.get_id()
            if i in seen:
                continue
            seen.add(i)
            if z3.is_app(x):
                if x.num_args() == 0 and x.decl().kind() == z3.Z3_OP_UNINTERPRETED:
                    out.add(x.decl().name())
                else:
                    st.extend(x.children())
            elif z3.is_quantifier(x):
                st.append(x.body())
        out = frozenset(out)
        Engine._sym_cache[k] = (t, out)       # keeping the term alive keeps its id from being reused
        return out

    def _slice(self, cs, term):
        want = set(self._symbols(term))
        rest = [(c, self._symbols(c)) for c in cs]
        picked = []
        changed = True
        while changed:
            changed = False
            keep = []
            for c, sy in rest:
                if sy & want:
                    picked.append(c)
                    want |= sy
                    changed = True
                else:
                    keep.append((c, sy))
            rest = keep
        return picked

    def _add_pc(self, c):
        c = B(c)
        self.path.pc.append(c)
        self.path.pc_ids[c.get_id()] = True
        if z3.is_not(c):
            self.path.pc_ids[c.arg(0).get_id()] = False
        elif z3.is_and(c):
            for a in c.children():
                self.path.pc_ids[a.get_id()] = True
                if z3.is_not(a):
                    self.path.pc_ids[a.arg(0).get_id()] = False

    def assume(self, cond):
        raw = B(cond)
        c2 = as_bool(raw)
        if c2 is True:
            return
        if c2 is False:
            raise Infeasible()
        self._add_pc(raw if (z3.is_and(raw) or z3.is_or(raw)) else c2)

    def decide(self, cond):
        """Fork on a boolean condition (python bool / z3 Bool / SBool)."""
        if isinstance(cond, sym.SBool):
            cond = cond.t
        if not isinstance(cond, bool):
            raw = B(cond)
            c2 = as_bool(raw)
            if isinstance(c2, bool):
                return c2
            # keep the un-simplified term on the path: z3.simplify fuses regular memberships of one string into a single
            # intersection, from which the solvers can no longer read off the individual conjuncts
            cond = raw if (z3.is_and(raw) or z3.is_or(raw)) else c2
        if isinstance(cond, bool):
            return cond
        p = self.path
        known = p.pc_ids.get(cond.get_id())
        if known is not None:
            return known
        if z3.is_not(cond):
            known = p.pc_ids.get(cond.arg(0).get_id())
            if known is not None:
                return not known
        i = len(p.decisions)
        if i < len(p.prefix):
            d = p.prefix[i]
        else:
            t_ok = self.feasible(p.pc, slice_for=cond)
            f_ok = self.feasible(p.pc, slice_for=z3.Not(cond))
            if t_ok is False and f_ok is False:
                raise Infeasible()
            if t_ok is False:
                d = False
            elif f_ok is False:
                d = True
            else:
                p.pending.append(p.decisions + [False])
                d = True
        p.decisions.append(d)
        self._add_pc(cond if d else z3.Not(cond))
        return d

    def assume_prefix(self, v, lit):
        """assume the str value v starts with the literal `lit` and remember it for concat-aware startswith decisions"""
        t = sym.sstr(v)
        self.assume(z3.PrefixOf(z3.StringVal(lit), t))
        self.path.refs[("prefix", t.get_id())] = (t, lit)

    def known_prefix(self, t):
        hit = self.path.refs.get(("prefix", t.get_id()))
        if hit is not None and hit[0].eq(t):
            return hit[1]
        return None

    def havoc(self, reason):
        if reason not in self.path.havoc:
            self.path.havoc.append(reason)

    def fresh(self, name, sort=None):
        return sym.fresh(name, sort)

    def fresh_val(self, name):
        return SV(sym.fresh(name))

    # ------------------------------------------------------------------------------------------------- objects
    def new_obj(self, key, name=None):
        self.path.counter += 1
        return Obj(key, name or ("%s#%d" % (key[1], self.path.counter)), self.path.counter)

    def instantiate(self, key, args=(), kwargs=None, name=None):
        o = self.new_obj(key, name)
        found = self.src.find_method(key, "__init__")
        if found:
            k, fn = found
            self.call_funcref(FuncRef(k[0], fn, owner=k), [o] + list(args), kwargs or {})
        return o

    def deref(self, v):
        """SV known to be a reference -> container object (lazily created, tree-shaped input assumption)."""
        t = z3.simplify(Val.r(v.t))
        key = t.get_id()
        if key not in self.path.refs:
            name = str(t)
            kind = z3.simplify(sym.ref_kind(t))
            self.path.refs[key] = ("pending", name, t)
        return self.path.refs[key]

    def ref_as_seq(self, v, name=None):
        t = z3.simplify(Val.r(v.t))
        key = ("q", t.get_id())
        if key not in self.path.refs:
            self.path.refs[key] = SymSeq("seq.%s" % (name or _pretty(t)))
            self.path.refs[("qterm", t.get_id())] = t
        return self.path.refs[key]

    def ref_of(self, obj):
        """Val term naming a heap object allocated by the code (concrete, pairwise distinct reference ids)"""
        key = ("alloc", id(obj))
        if key not in self.path.refs:
            self.path.counter += 1
            self.path.refs[key] = (obj, Val.VRef(z3.IntVal(10 ** 9 + self.path.counter)))
        return self.path.refs[key][1]

    def ref_as_dict(self, v, name=None):
        t = z3.simplify(Val.r(v.t))
        key = ("d", t.get_id())
        if key not in self.path.refs:
            self.path.refs[key] = SymDict(name or _pretty(t))
        return self.path.refs[key]

    # ------------------------------------------------------------------------------------------------- calls
    def call(self, f, args, kwargs=None):
        kwargs = kwargs or {}
        if isinstance(f, BoundMethod):
            o = f.obj
            if isinstance(o, Obj):
                owner = f.func.owner
                for key in ((o.cls, f.name), (owner, f.name)):
                    if key in self.summaries:
                        return self.summaries[key](self, o, args, kwargs)
            return self.call_funcref(f.func, [o] + list(args), kwargs)
        if isinstance(f, FuncRef):
            if f.owner is None and f.closure is None:
                key = (f.module, getattr(f.node, "name", None))
                if key in self.func_summaries:
                    return self.func_summaries[key](self, args, kwargs)
            return self.call_funcref(f, list(args), kwargs)
        if isinstance(f, ClassRef):
            return self.instantiate(f.key, args, kwargs)
        if isinstance(f, NativeMethod):
            return self.models.method(f.recv, f.name, args, kwargs)
        return self.models.call(f, args, kwargs)

    def call_funcref(self, f, args, kwargs):
        node = f.node
        self.depth += 1
        if self.depth > self.MAX_INLINE_DEPTH:
            self.depth -= 1
            raise Unsupported("inline depth exceeded at %s (recursion needs a contract)" % getattr(node, "name", "?"))
        try:
            env = {"__mod__": f.module, "__owner__": f.owner, "__fn__": getattr(node, "name", None),
                   "__locals__": _local_names(node)}
            if f.closure:
                env["__closure__"] = f.closure
            a = node.args
            params = [p.arg for p in a.args]
            defaults = a.defaults
            if isinstance(node, ast.FunctionDef) and f.owner and node.name in self.src.classes[f.owner].staticmethods:
                pass
            nargs = len(args)
            if nargs > len(params) and not a.vararg:
                raise PyRaise(ExcVal(TypeError, ("too many positional arguments",)))
            for i, p in enumerate(params):
                if i < nargs:
                    env[p] = args[i]
                elif p in kwargs:
                    env[p] = kwargs[p]
                else:
                    di = i - (len(params) - len(defaults))
                    if di < 0:
                        raise PyRaise(ExcVal(TypeError, ("missing argument %s" % p,)))
                    env[p] = self.eval(defaults[di], {"__mod__": f.module, "__owner__": f.owner})
            if a.vararg:
                env[a.vararg.arg] = tuple(args[len(params):])
            extra = {k: v for k, v in kwargs.items() if k not in params}
            for ko, kd in zip(a.kwonlyargs, a.kw_defaults):
                if ko.arg in extra:
                    env[ko.arg] = extra.pop(ko.arg)
                else:
                    env[ko.arg] = self.eval(kd, env)
            if a.kwarg:
                env[a.kwarg.arg] = self.models.from_native(dict(extra))
                env[a.kwarg.arg].origin = "code"
            elif extra:
                raise PyRaise(ExcVal(TypeError, ("unexpected keyword argument",)))
            if isinstance(node, ast.Lambda):
                return self.eval(node.body, env)
            try:
                self.block(node.body, env)
            except Return as r:
                return r.v
            return None
        finally:
            self.depth -= 1

    # ------------------------------------------------------------------------------------------------- statements
    def block(self, stmts, env):
        for s in stmts:
            self.stmt(s, env)

    def stmt(self, s, env):
        m = getattr(self, "s_" + type(s).__name__, None)
        if m is None:
            raise Unsupported("statement %s" % type(s).__name__)
        return m(s, env)

    def s_Expr(self, s, env):
        if isinstance(s.value, ast.Constant):
            return
        self.eval(s.value, env)

    def s_Pass(self, s, env):
        return

    def s_Assign(self, s, env):
        v = self.eval(s.value, env)
        for t in s.targets:
            self.assign(t, v, env)

    def s_AugAssign(self, s, env):
        cur = self.eval(_load(s.target), env)
        v = self.eval(s.value, env)
        if isinstance(s.op, ast.Add) and isinstance(cur, list) and not isinstance(s.target, ast.Name):
            cur.extend(v)
            return
        if isinstance(s.op, ast.Add) and isinstance(cur, list):
            cur.extend(list(v))
            return
        self.assign(s.target, self.binop(s.op, cur, v), env)

    def s_Return(self, s, env):
        raise Return(self.eval(s.value, env) if s.value is not None else None)

    def s_If(self, s, env):
        if self.truth(self.eval(s.test, env)):
            self.block(s.body, env)
        else:
            self.block(s.orelse, env)

    def s_While(self, s, env):
        spec = self.loop_invariants.get((env.get("__mod__"), env.get("__fn__"), s.lineno)) or \
            self.loop_invariants.get((env.get("__mod__"), env.get("__fn__"), "while"))
        if spec is not None:
            return self.while_with_invariant(s, env, spec)
        n = 0
        try:
            while self.truth(self.eval(s.test, env)):
                n += 1
                if n > 64:
                    raise Unsupported("while loop without invariant exceeded 64 iterations")
                try:
                    self.block(s.body, env)
                except Continue:
                    pass
            else:
                self.block(s.orelse, env)
        except Break:
            pass

    def s_For(self, s, env):
        it = self.eval(s.iter, env)
        seq = self.iterate(it, s, env)
        try:
            for x in seq:
                self.assign(s.target, x, env)
                try:
                    self.block(s.body, env)
                except Continue:
                    pass
            else:
                self.block(s.orelse, env)
        except Break:
            pass

    def while_with_invariant(self, s, env, spec):
        """Hoare rule for a `while` loop with an inductive invariant given by the contract (DESIGN 4.3):
        establish (side goal), havoc the loop-modified state, assume the invariant, run the body ONCE from that arbitrary
        iteration: a `break`/false test leaves the loop with the invariant as the only knowledge; a completed body must
        re-establish the invariant (side goal) and the path ends there (covered by induction).  Termination is not proved."""
        self.path.side_goals.append(("loop.establish", spec.invariant(self, env)))
        spec.havoc(self, env)
        self.assume(spec.invariant(self, env))
        if not self.truth(self.eval(s.test, env)):
            self.block(s.orelse, env)
            return
        try:
            self.block(s.body, env)
        except Break:
            return
        except Continue:
            pass
        self.path.side_goals.append(("loop.preserve", spec.invariant(self, env)))
        raise LoopCut()

    def iterate(self, it, node=None, env=None):
        """concrete finite sequence of the elements of `it` (rule R1); symbolic collections need a loop rule"""
        if isinstance(it, (list, tuple)):
            if any(type(x).__name__ == "Spread" for x in it):
                raise Unsupported("iteration over a list with a symbolic part (needs a loop rule)")
            return list(it)
        if isinstance(it, SymDict):
            return [k for k, _ in self.models.dict_items(it)]
        if isinstance(it, SV):
            d = self.models.as_dict(it)
            if d is not None:
                return [k for k, _ in self.models.dict_items(d)]
            if self.decide(sym.is_str(it)):
                raise Unsupported("iteration over the characters of a symbolic string")
            if self.decide(sym.is_ref(it)):
                raise Unsupported("iteration over a symbolic list/set (needs a loop rule)")
            raise PyRaise(ExcVal(TypeError, ("object is not iterable",)))
        if it is None or isinstance(it, (int, float)):
            raise PyRaise(ExcVal(TypeError, ("object is not iterable",)))
        if isinstance(it, (set, frozenset)) or type(it).__name__ == "ListSet":
            return self.models.set_order(it)
        if isinstance(it, str):
            return list(it)
        if isinstance(it, _DictView):
            return it.items()
        if isinstance(it, _Gen):
            return it.items
        if isinstance(it, Obj):
            found = self.src.find_method(it.cls, "__iter__")
            if found:
                k, fn = found
                return self.run_generator(FuncRef(k[0], fn, owner=k), [it])
        if isinstance(it, SplitResult):
            return self.models.split_list(it)
        raise Unsupported("iteration over %s" % type(it).__name__)

    def run_generator(self, f, args):
        """generators are executed eagerly: collect yielded values"""
        out = []
        saved = getattr(self, "_yield_sink", None)
        self._yield_sink = out
        try:
            self.call_funcref(f, args, {})
        finally:
            self._yield_sink = saved
        return out

    def s_Raise(self, s, env):
        if s.exc is None:
            cur = env.get("__exc__")
            if cur is None:
                raise Unsupported("bare raise outside handler")
            raise PyRaise(cur)
        e = s.exc
        if isinstance(e, ast.Call):
            cls = self.eval(e.func, env)
            if isinstance(cls, type) and issubclass(cls, BaseException):
                # message construction is not executed (assumed not to raise; DESIGN assumption M1)
                raise PyRaise(ExcVal(cls, ("<message>",)))
        v = self.eval(e, env)
        if isinstance(v, type) and issubclass(v, BaseException):
            raise PyRaise(ExcVal(v))
        if isinstance(v, ExcVal):
            raise PyRaise(v)
        raise Unsupported("raise of %r" % (v,))

    def s_Try(self, s, env):
        try:
            try:
                self.block(s.body, env)
            except PyRaise as e:
                for h in s.handlers:
                    if h.type is None:
                        ok = True
                    else:
                        hc = self.eval(h.type, env)
                        hcs = hc if isinstance(hc, tuple) else (hc,)
                        ok = any(isinstance(c, type) and exc_matches(e.cls, c) for c in hcs)
                    if ok:
                        if h.name:
                            env[h.name] = e.exc
                        saved = env.get("__exc__")
                        env["__exc__"] = e.exc
                        try:
                            self.block(h.body, env)
                        finally:
                            env["__exc__"] = saved
                        break
                else:
                    raise
            else:
                self.block(s.orelse, env)
        finally:
            if s.finalbody:
                self.block(s.finalbody, env)

    def s_With(self, s, env):
        if len(s.items) != 1:
            raise Unsupported("with: several items")
        item = s.items[0]
        cm = self.eval(item.context_expr, env)
        self.models.with_stmt(cm, item.optional_vars, s.body, env)

    def s_Break(self, s, env):
        raise Break()

    def s_Continue(self, s, env):
        raise Continue()

    def s_Delete(self, s, env):
        for t in s.targets:
            if isinstance(t, ast.Subscript):
                o = self.eval(t.value, env)
                k = self.eval(t.slice, env)
                self.models.delitem(o, k)
            elif isinstance(t, ast.Name):
                env.pop(t.id, None)
            else:
                raise Unsupported("del target")

    def s_Assert(self, s, env):
        if not self.truth(self.eval(s.test, env)):
            raise PyRaise(ExcVal(AssertionError))

    def s_FunctionDef(self, s, env):
        env[s.name] = FuncRef(env["__mod__"], s, closure=env, owner=None)

    def s_Import(self, s, env):
        raise Unsupported("import inside function")

    def s_Global(self, s, env):
        raise Unsupported("global")

    # ------------------------------------------------------------------------------------------------- assignment
    def assign(self, t, v, env):
        if isinstance(t, ast.Name):
            env[t.id] = v
            return
        if isinstance(t, ast.Attribute):
            o = self.eval(t.value, env)
            self.setattr_(o, t.attr, v)
            return
        if isinstance(t, ast.Subscript):
            o = self.eval(t.value, env)
            k = self.eval(t.slice, env)
            self.models.setitem(o, k, v)
            return
        if isinstance(t, (ast.Tuple, ast.List)):
            vals = self.unpack(v, len(t.elts))
            for tt, vv in zip(t.elts, vals):
                self.assign(tt, vv, env)
            return
        raise Unsupported("assignment target %s" % type(t).__name__)

    def unpack(self, v, n):
        if isinstance(v, (list, tuple)):
            if len(v) != n:
                raise PyRaise(ExcVal(ValueError, ("unpack arity",)))
            return list(v)
        if isinstance(v, SplitResult):
            return self.models.split_exact(v, n)
        if isinstance(v, _Gen):
            return self.unpack(v.items, n)
        if isinstance(v, SV):
            # unpacking a symbolic value: str of length n unpacks to chars, containers unmodelled
            if self.decide(sym.is_none(v)):
                raise PyRaise(ExcVal(TypeError, ("cannot unpack None",)))
            raise Unsupported("unpack of symbolic value")
        raise Unsupported("unpack of %s" % type(v).__name__)

    def setattr_(self, o, name, v):
        if isinstance(o, Obj):
            self.path.effects.append(("attr_write", o, name, o.fields.get(name, ABSENT), v))
            o.fields[name] = v
            return
        raise Unsupported("attribute store on %r" % (o,))

    # ------------------------------------------------------------------------------------------------- expressions
    def eval(self, e, env):
        m = getattr(self, "e_" + type(e).__name__, None)
        if m is None:
            raise Unsupported("expression %s" % type(e).__name__)
        return m(e, env)

    def e_Constant(self, e, env):
        return e.value

    def e_Name(self, e, env):
        n = e.id
        scope = env
        while scope is not None:
            if n in scope:
                return scope[n]
            scope = scope.get("__closure__")
        if n in env.get("__locals__", ()):
            raise PyRaise(ExcVal(UnboundLocalError, (n,)))      # a local that is not assigned on this path
        return self.global_name(env["__mod__"], n)

    def global_name(self, mod, n):
        if (mod, n) in self.src.funcs:
            return FuncRef(mod, self.src.funcs[(mod, n)])
        if (mod, n) in self.src.classes:
            return ClassRef((mod, n))
        native = self.mods[mod]
        if hasattr(native, n):
            return self.wrap_native(getattr(native, n))
        if hasattr(builtins, n):
            return getattr(builtins, n)
        raise PyRaise(ExcVal(NameError, (n,)))

    def wrap_native(self, v):
        """native python object from the imported tree -> interpreter value"""
        if isinstance(v, (types.FunctionType,)) and (v.__module__ or "").startswith("productmd."):
            m = v.__module__.split(".")[1]
            if (m, v.__name__) in self.src.funcs:
                return FuncRef(m, self.src.funcs[(m, v.__name__)])
            raise Unsupported("native function %s" % v.__qualname__)
        if isinstance(v, type) and (v.__module__ or "").startswith("productmd."):
            m = v.__module__.split(".")[1]
            if (m, v.__name__) in self.src.classes:
                return ClassRef((m, v.__name__))
            # dynamically created classes (namedtuple UniqueImage): keep native
            return v
        if isinstance(v, (list, dict)):
            return self.models.from_native(copy.deepcopy(v))   # module-level tables are program constants
        if isinstance(v, set):
            from .models import ListSet
            try:
                g = ListSet(sorted(v, key=repr))
            except Exception:
                return copy.deepcopy(v)
            g.origin = "const"          # a module-level set: writes to it are state shared by every caller in the process
            return g
        return v

    def e_Attribute(self, e, env):
        o = self.eval(e.value, env)
        return self.getattr_(o, e.attr)

    def getattr_(self, o, name, default=ABSENT):
        if isinstance(o, Obj):
            if name in o.fields:
                return o.fields[name]
            found = self.src.find_method(o.cls, name)
            if found:
                k, fn = found
                if name in self.src.classes[k].properties:
                    key = (o.cls, name)
                    if key in self.summaries:
                        return self.summaries[key](self, o, [], {})
                    if (k, name) in self.summaries:
                        return self.summaries[(k, name)](self, o, [], {})
                    return self.call_funcref(FuncRef(k[0], fn, owner=k), [o], {})
                if name in self.src.classes[k].staticmethods:
                    return FuncRef(k[0], fn, owner=None)
                return BoundMethod(o, FuncRef(k[0], fn, owner=k), name)
            if name == "__class__":
                return ClassRef(o.cls)
            # class-level attributes (plain constants assigned in a class body): read from the class as CPython built it
            try:
                ncls = self.src.native_class(o.cls)
                cv = getattr(ncls, name, ABSENT) if not name.startswith("__") else ABSENT
            except Exception:
                cv = ABSENT
            if cv is None or isinstance(cv, (bool, int, float, str)):
                return cv
            if default is not ABSENT:
                return default
            raise PyRaise(ExcVal(AttributeError, (name,)))
        if isinstance(o, SuperRef):
            mro = self.src.mro(o.obj.cls)
            idx = mro.index(o.start_after) + 1
            for k in mro[idx:]:
                ci = self.src.classes[k]
                if name in ci.methods:
                    return BoundMethod(o.obj, FuncRef(k[0], ci.methods[name], owner=k), name)
            if name == "__init__":
                tgt = o.obj

                def ext_init(*a, **k):
                    tgt.fields["__ext_init__"] = (a, k)      # arguments handed to the external (stdlib) base class
                    return None
                return ext_init
            if name == "__repr__":
                return lambda *a, **k: "<object>"
            raise PyRaise(ExcVal(AttributeError, (name,)))
        if isinstance(o, ClassRef):
            if name == "__name__":
                return o.key[1]
            found = self.src.find_method(o.key, name)
            if found:
                k, fn = found
                return FuncRef(k[0], fn, owner=k if name not in self.src.classes[k].staticmethods else None)
            raise PyRaise(ExcVal(AttributeError, (name,)))
        if isinstance(o, types.ModuleType):
            if not hasattr(o, name):
                raise PyRaise(ExcVal(AttributeError, (name,)))
            return self.wrap_native(getattr(o, name))
        return self.models.getattr(o, name, default)

    def e_List(self, e, env):
        out = []
        for x in e.elts:
            if isinstance(x, ast.Starred):
                out.extend(self.iterate(self.eval(x.value, env)))
            else:
                out.append(self.eval(x, env))
        return out

    def e_Tuple(self, e, env):
        return tuple(self.e_List(e, env))

    def e_Set(self, e, env):
        return self.models.make_set([self.eval(x, env) for x in e.elts])

    def e_Dict(self, e, env):
        d = self.models.new_dict()
        for k, v in zip(e.keys, e.values):
            if k is None:
                raise Unsupported("dict unpacking in literal")
            kk = self.eval(k, env)
            vv = self.eval(v, env)
            self.models.setitem(d, kk, vv)
        return d

    def e_IfExp(self, e, env):
        if self.truth(self.eval(e.test, env)):
            return self.eval(e.body, env)
        return self.eval(e.orelse, env)

    def e_Lambda(self, e, env):
        return FuncRef(env["__mod__"], e, closure=env, owner=None)

    def e_BoolOp(self, e, env):
        cur = self.eval(e.values[0], env)
        for nxt in e.values[1:]:
            t = self.truth(cur)
            if isinstance(e.op, ast.Or):
                if t:
                    return cur
            else:
                if not t:
                    return cur
            cur = self.eval(nxt, env)
        return cur

    def e_UnaryOp(self, e, env):
        v = self.eval(e.operand, env)
        if isinstance(e.op, ast.Not):
            return not self.truth(v)
        if isinstance(e.op, ast.USub):
            if isinstance(v, SV):
                self.need_int(v)
                return sym.mk_int(-sym.sint(v))
            return -v
        raise Unsupported("unary op")

    def e_BinOp(self, e, env):
        return self.binop(e.op, self.eval(e.left, env), self.eval(e.right, env))

    def binop(self, op, l, r):
        return self.models.binop(op, l, r)

    def e_Compare(self, e, env):
        l = self.eval(e.left, env)
        res = True
        for op, rn in zip(e.ops, e.comparators):
            r = self.eval(rn, env)
            res = self.models.compare(op, l, r)
            if not res:
                return False
            l = r
        return res

    def e_Subscript(self, e, env):
        o = self.eval(e.value, env)
        if isinstance(e.slice, ast.Slice):
            lo = self.eval(e.slice.lower, env) if e.slice.lower is not None else None
            hi = self.eval(e.slice.upper, env) if e.slice.upper is not None else None
            if e.slice.step is not None:
                raise Unsupported("slice step")
            return self.models.getslice(o, lo, hi)
        k = self.eval(e.slice, env)
        return self.models.getitem(o, k)

    def e_Call(self, e, env):
        # super() without arguments is not used by productmd (py2 compatible code)
        f = self.eval(e.func, env)
        args = []
        for a in e.args:
            if isinstance(a, ast.Starred):
                args.extend(self.iterate(self.eval(a.value, env)))
            else:
                args.append(self.eval(a, env))
        kwargs = {}
        for k in e.keywords:
            if k.arg is None:
                d = self.eval(k.value, env)
                if not isinstance(d, SymDict):
                    raise Unsupported("** of non-dict")
                for kk, vv in self.models.dict_items(d):
                    if not isinstance(kk, str):
                        raise Unsupported("** with symbolic key")
                    kwargs[kk] = vv
            else:
                kwargs[k.arg] = self.eval(k.value, env)
        return self.call(f, args, kwargs)

    def _comp(self, gens, env, emit):
        def rec(i, env):
            if i == len(gens):
                emit(env)
                return
            g = gens[i]
            for x in self.iterate(self.eval(g.iter, env)):
                env2 = {"__closure__": env, "__mod__": env["__mod__"], "__owner__": env.get("__owner__")}
                self.assign(g.target, x, env2)
                if all(self.truth(self.eval(c, env2)) for c in g.ifs):
                    rec(i + 1, env2)
        rec(0, env)

    def e_ListComp(self, e, env):
        out = []
        self._comp(e.generators, env, lambda en: out.append(self.eval(e.elt, en)))
        return out

    def e_GeneratorExp(self, e, env):
        return _Gen(self.e_ListComp(e, env))

    def e_SetComp(self, e, env):
        return self.models.make_set(self.e_ListComp(e, env))

    def e_DictComp(self, e, env):
        out = self.models.new_dict()
        self._comp(e.generators, env, lambda en: self.models.setitem(out, self.eval(e.key, en), self.eval(e.value, en)))
        return out

    def e_Yield(self, e, env):
        sink = getattr(self, "_yield_sink", None)
        if sink is None:
            raise Unsupported("yield outside a generator run")
        sink.append(self.eval(e.value, env) if e.value is not None else None)
        return None

    def e_JoinedStr(self, e, env):
        raise Unsupported("f-string")

    # ------------------------------------------------------------------------------------------------- truthiness
    def truth(self, v):
        """Python truthiness, forking when symbolic; dispatches to __bool__/__len__ of repository classes"""
        if isinstance(v, Obj):
            found = self.src.find_method(v.cls, "__bool__")
            if found:
                k, fn = found
                return self.truth(self.call_funcref(FuncRef(k[0], fn, owner=k), [v], {}))
            found = self.src.find_method(v.cls, "__len__")
            if found:
                k, fn = found
                n = self.call_funcref(FuncRef(k[0], fn, owner=k), [v], {})
                return self.truth(n)
            return True
        if isinstance(v, SV):
            return self.decide(sym.truthy(v))
        if isinstance(v, sym.SBool):
            return self.decide(v.t)
        if z3.is_expr(v) and z3.is_bool(v):
            return self.decide(v)
        return self.models.truth(v)

    def need_int(self, v):
        if isinstance(v, SV) and not self.decide(sym.is_int(v)):
            raise PyRaise(ExcVal(TypeError, ("int expected",)))

    def need_str(self, v, exc=TypeError):
        """require a str on this path, else raise `exc`; returns z3 String term"""
        if isinstance(v, str):
            return z3.StringVal(v)
        if isinstance(v, SV):
            if not self.decide(sym.is_str(v)):
                raise PyRaise(ExcVal(exc, ("str expected",)))
            return sym.sstr(v)
        raise PyRaise(ExcVal(exc, ("str expected",)))


class _Gen(object):
    def __init__(self, items):
        self.items = items


class _DictView(object):
    def __init__(self, d, kind):
        self.d = d
        self.kind = kind

    def items(self):
        if self.kind == "keys":
            return list(self.d.keys())
        if self.kind == "values":
            return list(self.d.values())
        return [(k, v) for k, v in self.d.items()]


_locals_cache = {}


def _local_names(node):
    k = id(node)
    if k not in _locals_cache:
        names = set()
        body = node.body if isinstance(node.body, list) else [node.body]
        for st in body:
            for n in ast.walk(st):
                if isinstance(n, ast.Name) and isinstance(n.ctx, ast.Store):
                    names.add(n.id)
        _locals_cache[k] = (node, frozenset(names))
    return _locals_cache[k][1]


def _load(t):
    t2 = copy.copy(t)
    t2.ctx = ast.Load()
    return t2


def _pretty(t):
    s = str(t)
    return s if len(s) < 60 else s[:57] + "..."
