"""Bounded stand-ins for the write/read properties (C01-C04, C08): random valid objects through the REAL
dumps/loads, compared on order-free views; second dump byte-identical.  Labelled bounded."""
import time

from . import gen

RT_SCRIPT = r'''
from pyvc.source import Source
from bounded import gen
src = Source(os.environ.get("VERIF_REPO", "/repo")); mods = src.import_native()
kind = %(kind)r
view = getattr(gen, "view_" + kind, None)
junk = []
# The generated object is rebuilt up to 40 times: sets of objects iterate in an order that depends on object addresses, so a failure
# that needs one particular iteration order does not show on every rebuild (the property quantifies over all of them).
for attempt in range(40):
    junk.append([object() for _ in range(attempt * 7 + 1)])       # perturb addresses between attempts
    g = gen.G(mods, %(seed)d)
    obj = getattr(g, kind)()
    if isinstance(obj, tuple): obj = obj[0]
    try:
        s = obj.dumps()
    except Exception as ex:
        REPRODUCED("a valid %%s (generator seed %(seed)d) is refused by dumps(): %%r" %% (kind, ex))
    o2 = type(obj)()
    try:
        o2.loads(s)
    except Exception as ex:
        REPRODUCED("the library cannot re-read what it wrote (seed %(seed)d): %%r" %% (ex,))
    if view is not None:
        a, b = view(obj), view(o2)
    else:
        a, b = getattr(obj, kind), getattr(o2, kind)
    if a != b:
        print("written :", a); print("re-read :", b)
        REPRODUCED("content differs after a write/read cycle (seed %(seed)d, rebuild %%d)" %% attempt)
    if o2.dumps() != s: REPRODUCED("second dump differs from the first (seed %(seed)d, rebuild %%d)" %% attempt)
NOT_REPRODUCED()
'''


def roundtrip(run, mods, kind, n, label=None):
    """kind in composeinfo/images/rpms/modules/extra_files/treeinfo/discinfo"""
    t0 = time.time()
    fails = []
    distinct = set()
    view = getattr(gen, "view_" + kind, None)
    for i in range(n):
        seed = run.seed * 1000003 + i
        g = gen.G(mods, seed)
        obj = getattr(g, kind)()
        if isinstance(obj, tuple):
            obj = obj[0]
        try:
            s = obj.dumps()
            o2 = type(obj)()
            o2.loads(s)
            a, b = (view(obj), view(o2)) if view else (getattr(obj, kind), getattr(o2, kind))
            distinct.add(s)
            if a != b:
                fails.append((seed, "content differs after reload"))
            elif o2.dumps() != s:
                fails.append((seed, "second dump differs"))
        except Exception as ex:
            fails.append((seed, "exception %r" % (ex,)))
    run.add_bounded("%s dumps/loads" % kind, "random valid objects, view equality + byte-identical second dump",
                    label or "generator bounded/gen.py G.%s, %d seeds" % (kind, n), n, fails, nontrivial=len(distinct),
                    seconds=time.time() - t0)
    if fails:
        seed, what = fails[0]
        run.violation("bounded:%s.roundtrip" % kind, "write/read cycle preserves content", "%s seed %d: %s" % (kind, seed, what),
                      RT_SCRIPT % {"seed": seed, "kind": kind})
    return fails
