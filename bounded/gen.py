"""Native generators of valid productmd objects, order-free views and the documented normalisations.
Used by the BOUNDED stand-ins (labelled bounded, never counted as proved) and by replay scripts.
Everything here drives the REAL classes of the tree under check."""
import itertools
import random

PATH_FIELDS = ["os_tree", "packages", "repository", "isos", "images", "jigdos", "source_tree", "source_packages",
               "source_repository", "source_isos", "source_jigdos", "debug_tree", "debug_packages", "debug_repository"]
TI_PATH_FIELDS = ["packages", "repository", "source_packages", "source_repository", "debug_packages", "debug_repository", "identity"]
ARCHES = ["x86_64", "i386", "ppc64le", "aarch64", "s390x"]


class G(object):
    def __init__(self, mods, seed=0):
        self.m = mods
        self.rng = random.Random(seed)
        self.CI = mods["composeinfo"]
        self.IM = mods["images"]
        self.TI = mods["treeinfo"]
        self.C = mods["common"]

    # ---- scalars -------------------------------------------------------------------------------------------
    def word(self, alphabet="abcXYZ019 _.", lo=1, hi=8):
        r = self.rng
        return "".join(r.choice(alphabet) for _ in range(r.randint(lo, hi))).strip() or "w"

    def version(self):
        r = self.rng
        if r.random() < 0.6:
            return ".".join(str(r.randint(0, 30)) for _ in range(r.randint(1, 3)))
        return r.choice(["Rawhide", "rawhide.23", "beta-1", "v2", "Rolling 1"])

    def date(self):
        return "%04d%02d%02d" % (self.rng.randint(1990, 2100), self.rng.randint(1, 12), self.rng.randint(1, 28))

    def label(self):
        r = self.rng
        if r.random() < 0.4:
            return None
        return "%s-%d.%d" % (r.choice(self.CI.LABEL_NAMES), r.randint(0, 12), r.randint(0, 30))

    # ---- composeinfo sections --------------------------------------------------------------------------------
    def fill_compose(self, c):
        r = self.rng
        c.date = self.date()
        c.type = r.choice(self.CI.COMPOSE_TYPES)
        c.respin = r.choice([0, 1, 2, 17, 12345])
        c.id = "%s-%s-%s%s.%d" % (self.word("abcF", 1, 5), self.version().replace(" ", ""), c.date, c.type_suffix, c.respin)
        c.label = self.label()
        c.final = r.random() < 0.5

    def fill_release(self, rel, layered=None):
        r = self.rng
        rel.name = self.word("abcXYZ 019", 1, 12)
        rel.short = self.word("abcXYZ019-", 1, 6).strip("-") or "s"
        rel.version = self.version()
        rel.type = r.choice(self.C.RELEASE_TYPES)
        if hasattr(rel, "is_layered") and layered is not None:
            rel.is_layered = layered
        if hasattr(rel, "internal"):
            rel.internal = r.random() < 0.3

    def variant(self, ci, vid, parent=None, arches=None, vtype=None, depth=1, maxdepth=3, dashed_uid=None):
        r = self.rng
        v = self.CI.Variant(ci)
        v.id = vid
        v.uid = dashed_uid or (vid if parent is None else "%s-%s" % (parent.uid, vid))
        v.name = self.word("abc XYZ", 1, 10)
        v.type = vtype or r.choice(self.CI.VARIANT_TYPES)
        if parent is None:
            v.arches = set(arches or r.sample(ARCHES, r.randint(1, 3)))
        else:
            pa = sorted(parent.arches)
            v.arches = set(r.sample(pa, r.randint(1, len(pa))))
        if v.type == "layered-product":
            self.fill_release(v.release, layered=True)
        for f in r.sample(PATH_FIELDS, r.randint(0, 4)):
            d = getattr(v.paths, f)
            for a in sorted(v.arches):
                if r.random() < 0.8:
                    d[a] = "%s/%s/%s" % (v.uid, a, f)
            # documented normalisations: paths of arches outside the variant's arch set and empty paths are not stored
            if r.random() < 0.3:
                d[r.choice([a for a in ARCHES + ["src"] if a not in v.arches])] = "%s/foreign/%s" % (v.uid, f)
            if r.random() < 0.15 and v.arches:
                d[sorted(v.arches)[0]] = ""
        return v

    def composeinfo(self, nvariants=None, layered=None, maxdepth=3, dashed=True):
        r = self.rng
        ci = self.CI.ComposeInfo()
        self.fill_compose(ci.compose)
        lay = (r.random() < 0.3) if layered is None else layered
        self.fill_release(ci.release, layered=lay)
        if lay:
            self.fill_release(ci.base_product)
        n = r.randint(0, 7) if nvariants is None else nvariants
        ids = ["Server", "Client", "Workstation", "optional", "HA", "RT", "A1", "B2", "Extras", "Gluster"]
        r.shuffle(ids)
        nodes = []
        used_top = set()
        for i in range(n):
            vid = ids[i]
            # choose a parent among existing nodes with depth < maxdepth, or top level
            cands = [(p, d) for p, d in nodes if d < maxdepth and not getattr(p, "_dashed", False)]
            if cands and r.random() < 0.55:
                p, d = r.choice(cands)
                v = self.variant(ci, vid, parent=p)
                v.parent = p
                p.add(v)
                nodes.append((v, d + 1))
            else:
                if dashed and used_top and r.random() < 0.25:
                    # dashed top-level UID on a childless variant (documented 'Server-optional' case)
                    base = r.choice(sorted(used_top))
                    v = self.variant(ci, base + vid, dashed_uid="%s-%s" % (base, vid), vtype="optional")
                    v._dashed = True
                    ci.variants.add(v)
                else:
                    v = self.variant(ci, vid)
                    ci.variants.add(v)
                    used_top.add(vid)
                nodes.append((v, 1))
        return ci

    # ---- images -----------------------------------------------------------------------------------------------
    def image(self, parent, path=None):
        r = self.rng
        im = self.IM.Image(parent)
        t = r.choice(sorted(k for k, v in self.IM.IMAGE_TYPE_FORMAT_MAPPING.items() if v))
        im.type = t
        im.format = r.choice(self.IM.IMAGE_TYPE_FORMAT_MAPPING[t])
        im.arch = r.choice(ARCHES + ["src"])
        im.path = path or "%s/%s/%s.%s" % (self.word("abc", 1, 4), im.arch, self.word("abc019-", 1, 9), im.format)
        im.mtime = r.choice([0, 1417653911, 2 ** 33])
        im.size = r.choice([1, 4096, 2 ** 33 + 5])
        im.volume_id = r.choice([None, "Fedora-21", "v"])
        im.disc_number = r.randint(1, 3)
        im.disc_count = im.disc_number + r.randint(0, 2)
        im.checksums = dict((k, "%064x" % r.getrandbits(256)) for k in r.sample(["sha256", "md5", "sha1"], r.randint(1, 3)))
        im.implant_md5 = r.choice([None, "%032x" % r.getrandbits(128)])
        im.bootable = r.random() < 0.5
        im.subvariant = r.choice(["", "KDE", "Server", "Workstation"])
        if r.random() < 0.25:
            im.unified = True
            im.additional_variants = r.sample(["Server", "Client", "Workstation"], r.randint(0, 2))
        return im

    def images(self, nvar=None, maximg=3):
        r = self.rng
        m = self.IM.Images()
        m.header.set_current_version()
        self.fill_compose(m.compose)
        seen = {}
        for v in r.sample(["Server", "Client", "Server-optional", "W"], r.randint(0, 3) if nvar is None else nvar):
            for a in r.sample(ARCHES, r.randint(1, 2)):
                for i in range(r.randint(1, maximg)):
                    # the same path may occur in different cells with different attributes (paths are distinct per cell only)
                    pth = "%s/%s/iso/img%d-%d" % (v, a, i, r.randint(0, 10 ** 6)) if r.random() < 0.7 else "shared/iso/img%d" % i
                    im = self.image(m, path=pth)
                    key = tuple(self.IM.identify_image(im)[:5]) + (im.unified, tuple(im.additional_variants))
                    if key in seen:
                        im.checksums = seen[key]
                    seen[key] = im.checksums

                    def put(v_, a_):
                        # precondition of the property: distinct paths within one (variant, arch) cell
                        if any(x.path == im.path for x in m.images.get(v_, {}).get(a_, ())):
                            return
                        try:
                            m.add(v_, a_, im)
                        except ValueError:
                            pass
                    put(v, a)
                    if r.random() < 0.15:
                        put(r.choice(["Server", "Other"]), r.choice(ARCHES))   # same object under several cells
        return m

    # ---- rpms / modules / extra files ---------------------------------------------------------------------------
    def nevra(self, arch=None, epoch=None):
        r = self.rng
        # half of the names are made of tokens that occur in real package names (sub-package suffixes, arch-like and
        # category-like words), the other half of random characters
        real = ["kernel", "debug", "debuginfo", "debugsource", "devel", "libs", "common", "core", "python3", "src", "noarch", "source",
                "binary", "x86_64", "modules", "extra", "doc", "static", "rpm", "0", "1.2"]
        if r.random() < 0.5:
            name = "-".join(r.choice(real) for _ in range(r.randint(1, 4)))
        else:
            name = "-".join(self.word("abc019._+", 1, 5) for _ in range(r.randint(1, 3)))
        e = r.choice([0, 1, 12]) if epoch is None else epoch
        return "%s-%d:%s-%s.%s" % (name, e, self.word("019.a~^", 1, 5), self.word("019.el_", 1, 6),
                                   arch or r.choice(["x86_64", "noarch", "i686"]))

    def rpms(self):
        r = self.rng
        m = self.m["rpms"].Rpms()
        m.header.set_current_version()
        self.fill_compose(m.compose)
        calls = []
        for _ in range(r.randint(0, 8)):
            v = r.choice(["Server", "Client", "S-optional"])
            a = r.choice(ARCHES)
            srpm = self.nevra("src")
            sig = r.choice([None, "246110C1", "aabb00ff"])
            calls.append((v, a, srpm, "%s/source/SRPMS/x.src.rpm" % v, sig, "source", None))
            for _ in range(r.randint(0, 3)):
                cat = r.choice(["binary", "debug"])
                calls.append((v, a, self.nevra(), "%s/%s/os/Packages/p.rpm" % (v, a), sig, cat, srpm))
        r.shuffle(calls)
        for c in calls:
            m.add(*c)
        return m, calls

    def modules(self):
        r = self.rng
        m = self.m["modules"].Modules()
        m.header.set_current_version()
        self.fill_compose(m.compose)
        calls = []
        for _ in range(r.randint(0, 6)):
            parts = [self.word("abc-", 1, 5).strip("-") or "m", self.word("019.", 1, 3), "2018", "cafe"]
            uid = ":".join(parts[:r.randint(2, 4)])
            for cat in r.sample(["binary", "debug", "source"], r.randint(1, 3)):
                calls.append((r.choice(["Server", "AppStream"]), r.choice(ARCHES), uid, "koji-" + parts[0],
                              "Server/x/os/repodata/%s.yaml" % cat, cat, [self.nevra() for _ in range(r.randint(0, 2))]))
        for c in calls:
            m.add(*c)
        return m, calls

    def extra_files(self):
        r = self.rng
        m = self.m["extra_files"].ExtraFiles()
        m.header.set_current_version()
        self.fill_compose(m.compose)
        calls = []
        for _ in range(r.randint(0, 6)):
            calls.append((r.choice(["Server", "Client"]), r.choice(ARCHES), "Server/x86_64/os/%s" % self.word("abcGPL", 1, 6),
                          r.randint(0, 2 ** 34), dict((k, "%x" % r.getrandbits(64)) for k in r.sample(["md5", "sha256"], r.randint(1, 2)))))
        for c in calls:
            m.add(*c)
        return m, calls

    # ---- treeinfo ----------------------------------------------------------------------------------------------
    def text(self, lo=1, hi=10):
        # representable in the file syntax: single line, no leading/trailing blanks, no '%'
        return self.word("abcXYZ019 ._-", lo, hi)

    def ti_variant(self, ti, vid, parent=None, vtype=None, dashed_uid=None):
        r = self.rng
        v = self.TI.Variant(ti)
        v.id = vid
        v.uid = dashed_uid or (vid if parent is None else "%s-%s" % (parent.uid, vid))
        v.name = self.text()
        v.type = vtype or r.choice(self.TI.VARIANT_TYPES)
        for f in r.sample(TI_PATH_FIELDS, r.randint(0, 4)):
            setattr(v.paths, f, "%s/%s" % (v.uid, f))
        return v

    def treeinfo(self, ntop=None, child_types=("addon",)):
        r = self.rng
        ti = self.TI.TreeInfo()
        ti.release.name = self.text()
        ti.release.short = self.text(1, 5)
        ti.release.version = r.choice(["21", "7.0", "Rawhide", "1.2.3"])
        lay = r.random() < 0.3
        ti.release.is_layered = lay
        if lay:
            ti.base_product.name = self.text()
            ti.base_product.short = self.text(1, 5)
            ti.base_product.version = r.choice(["7", "21", "Rawhide"])
        ti.tree.arch = r.choice(ARCHES + ["src"])
        ti.tree.build_timestamp = r.choice([1417653911, 1, 2 ** 33])
        ti.tree.platforms = set(r.sample(["xen", "x86_64", "i386", "ppc64le", "xen-" + ti.tree.arch], r.randint(0, 2)))
        if r.random() < 0.7:
            ti.tree.platforms.add(ti.tree.arch)
        tops = r.sample(["Server", "Client", "Workstation"], r.randint(1, 3) if ntop is None else ntop)
        for t in tops:
            v = self.ti_variant(ti, t, vtype="variant")
            ti.variants.add(v)
            for cid in r.sample(["HA", "LB", "RS", "optional"], r.randint(0, 2)):
                ch = self.ti_variant(ti, cid, parent=v, vtype=r.choice(list(child_types)))
                v.add(ch)
        if r.random() < 0.3:
            base = tops[0]
            # UIDs are unique in a tree: no dashed top-level 'X-optional' next to a child 'optional' of X
            if "optional" not in ti.variants.variants[base].variants:
                v = self.ti_variant(ti, "optional", dashed_uid="%s-optional" % base, vtype="optional")
                ti.variants.add(v, variant_id=v.uid)
        for p in sorted(ti.tree.platforms):
            if r.random() < 0.6:
                ti.images.images[p] = dict((self.word("abcXYZ.", 1, 8), "images/%s/%s" % (p, self.word("abc.", 1, 6)))
                                           for _ in range(r.randint(1, 3)))
        if r.random() < 0.5:
            ti.stage2.mainimage = "images/install.img"
            if r.random() < 0.3:
                ti.stage2.instimage = "images/inst.img"
        if r.random() < 0.5:
            ti.media.discnum = r.randint(1, 3)
            ti.media.totaldiscs = ti.media.discnum + r.randint(0, 2)
        for _ in range(r.randint(0, 3)):
            ti.checksums.checksums["images/%s" % self.word("abcXYZ.", 1, 8)] = (r.choice(["sha256", "md5", "sha1"]), "%064x" % r.getrandbits(256))
        return ti

    def discinfo(self):
        r = self.rng
        d = self.m["discinfo"].DiscInfo()
        d.timestamp = r.choice([1417653453.026288, 1.5, 0.25, 2.0 ** 40 + 0.5, 123456789.0, 1758880000.1234567, 3e-7, r.random() * 10 ** r.randint(0, 12)])
        d.description = self.text()
        d.arch = r.choice(ARCHES)
        d.disc_numbers = r.choice([["ALL"], [1], [1, 2, 3], [2, 10]])
        return d


# ---------------------------------------------------------------------------------------------------------------------
# order-free views (what "content" means)
# ---------------------------------------------------------------------------------------------------------------------
def view_release(r, fields=("name", "short", "version", "type", "is_layered", "internal")):
    return tuple((f, getattr(r, f)) for f in fields if hasattr(r, f))


def view_compose(c):
    return (c.id, c.type, c.date, c.respin, c.label, c.final if c.label else False)


def view_variant(v):
    paths = []
    for f in PATH_FIELDS:
        d = getattr(v.paths, f)
        for a in sorted(d):
            if d[a] and a in v.arches:         # documented normalisation: empty paths / foreign arches are not stored
                paths.append((f, a, d[a]))
    rel = view_release(v.release) if v.type == "layered-product" else None
    return (v.id, v.uid, v.name, v.type, tuple(sorted(v.arches)), tuple(paths), rel,
            v.parent.uid if v.parent is not None else None,
            tuple(sorted((k, view_variant(c)) for k, c in v.variants.items())))


def view_composeinfo(ci):
    return (view_compose(ci.compose), view_release(ci.release),
            view_release(ci.base_product, ("name", "short", "version", "type")) if ci.release.is_layered else None,
            tuple(sorted((k, view_variant(v)) for k, v in ci.variants.variants.items())))


def image_tuple(im):
    return (im.path, im.mtime, im.size, im.volume_id, im.type, im.format, im.arch, im.disc_number, im.disc_count,
            tuple(sorted(im.checksums.items())), im.implant_md5, im.bootable, im.subvariant, im.unified, tuple(im.additional_variants))


def view_images(m):
    cells = {}
    for v in m.images:
        for a in m.images[v]:
            cells[(v, a)] = tuple(sorted(image_tuple(i) for i in m.images[v][a]))
    return (view_compose(m.compose), tuple(sorted(cells.items())))


def view_ti_variant(v):
    return (v.id, v.uid, v.name, v.type, tuple((f, getattr(v.paths, f)) for f in TI_PATH_FIELDS),
            v.parent.uid if v.parent is not None else None,
            tuple(sorted((k, view_ti_variant(c)) for k, c in v.variants.items())))


def view_treeinfo(ti):
    return (view_release(ti.release, ("name", "short", "version", "is_layered")),
            view_release(ti.base_product, ("name", "short", "version")) if ti.release.is_layered else None,
            (ti.tree.arch, int(ti.tree.build_timestamp), tuple(sorted(ti.tree.platforms | set([ti.tree.arch])))),
            tuple(sorted((k, view_ti_variant(v)) for k, v in ti.variants.variants.items())),
            tuple(sorted((p, tuple(sorted(d.items()))) for p, d in ti.images.images.items())),
            (ti.stage2.mainimage, ti.stage2.instimage), (ti.media.discnum, ti.media.totaldiscs),
            tuple(sorted((p, tuple(v)) for p, v in ti.checksums.checksums.items())))


def view_discinfo(d):
    return (d.timestamp, d.description, d.arch, tuple(d.disc_numbers))
