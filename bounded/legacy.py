"""Down-conversion of current documents to older formats (C05, C10) -- per the 'Changes from' sections of doc/*.rst and the
C05 statement: fields that did not exist yet removed, legacy section names, source images / source RPMs filed under 'src'."""
import copy
import json

from . import gen


def images_legacy(mods, seed, version):
    """images 1.0 / 1.1 document with some images moved under a 'src' arch; returns (document text, expectation)"""
    g = gen.G(mods, seed)
    m = g.images(nvar=None)
    r = g.rng
    doc = json.loads(m.dumps())
    doc["header"]["version"] = version
    if version == "1.0":
        doc["header"].pop("type", None)
    exp = {}
    uniq = [0]
    for v, arches in list(doc["payload"]["images"].items()):
        bins = sorted(arches)
        if r.random() < 0.7 and bins:
            # move the 'src'-arch images (or one arbitrary image) of one cell under a 'src' tree arch
            a = r.choice(bins)
            moved = [i for i in arches[a] if i["arch"] == "src"] or arches[a][:1]
            arches[a] = [i for i in arches[a] if i not in moved]
            arches["src"] = copy.deepcopy(moved)
            for x in arches["src"]:
                x["arch"] = "src"
                # arch is an identity attribute: two images of different variants must not become identical by this edit (a document
                # with an identity clash is legitimately refused from 1.1 on -- C09), so the moved images get unique disc numbers
                uniq[0] += 1
                x["disc_number"] = 100 + uniq[0]
                x["disc_count"] = max(x.get("disc_count") or 0, x["disc_number"])
            exp[v] = [x["path"] for x in arches["src"]]
            for a2 in list(arches):
                if a2 != "src" and not arches[a2]:
                    pass
        for a, imgs in arches.items():
            for i in imgs:
                if version == "1.0":
                    i.pop("subvariant", None)
                    i.pop("unified", None)
                    i.pop("additional_variants", None)
    return json.dumps(doc), exp, doc


def rpms_03(mods, seed):
    """rpms 0.3 manifest: payload.manifest[variant][arch][srpm][rpm] = {path, sigkey, type: package|debug}; source RPMs under 'src'"""
    g = gen.G(mods, seed)
    r = g.rng
    c = mods["rpms"].Rpms().compose
    g.fill_compose(c)
    manifest = {}
    exp = {}
    for v in r.sample(["Server", "Client", "S-optional"], r.randint(1, 3)):
        arches = r.sample(gen.ARCHES, r.randint(1, 3))
        srpms = [g.nevra("src") for _ in range(r.randint(1, 3))]
        manifest[v] = {}
        with_src = r.random() < 0.8
        if with_src:
            manifest[v]["src"] = dict((s, {"path": "%s/source/SRPMS/%s.rpm" % (v, s.split(":")[0]), "sigkey": r.choice([None, "AABB", "ccdd"])})
                                      for s in srpms)
        for a in arches:
            manifest[v][a] = {}
            for s in r.sample(srpms, r.randint(1, len(srpms))):
                manifest[v][a][s] = dict((g.nevra(), {"path": "%s/%s/os/Packages/x.rpm" % (v, a), "sigkey": r.choice([None, "AABB"]),
                                                      "type": r.choice(["package", "debug"])}) for _ in range(r.randint(1, 3)))
    doc = {"header": {"version": "0.3"},
           "payload": {"compose": {"id": c.id, "type": c.type, "date": c.date, "respin": c.respin}, "manifest": manifest}}
    return json.dumps(doc), doc


def composeinfo_legacy(mods, seed, version):
    """composeinfo 0.x / 1.0 / 1.1 document down-converted from a random valid current one (doc/composeinfo-1.1.rst 'Changes from 1.0',
    C05 statement): 1.0: no header type, no release/base_product type; 0.x: 'product' section instead of 'release', no 'variants' child lists
    (variants related by UID prefix only), compose date/type/respin only inside the id"""
    g = gen.G(mods, seed)
    vt = tuple(int(x) for x in version.split("."))
    # before 1.0 variants are related by UID prefix only: such documents can only express depth <= 2 without dashed top-level UIDs
    ci = g.composeinfo(maxdepth=2, dashed=False) if vt < (1, 0) else g.composeinfo()
    doc = json.loads(ci.dumps())
    doc["header"]["version"] = version
    if vt < (1, 1):
        doc["header"].pop("type", None)
        doc["payload"]["release"].pop("type", None)
        if "base_product" in doc["payload"]:
            doc["payload"]["base_product"].pop("type", None)
        for v in doc["payload"]["variants"].values():
            if "release" in v:
                v["release"].pop("type", None)
    if vt <= (0, 3):
        doc["payload"]["product"] = doc["payload"].pop("release")
        doc["payload"]["product"].pop("internal", None)
        for v in doc["payload"]["variants"].values():
            if "release" in v:
                v["product"] = v.pop("release")
                v["product"].pop("internal", None)
    if vt < (1, 0):
        for v in doc["payload"]["variants"].values():
            v.pop("variants", None)
    if vt < (0, 3):
        c = doc["payload"]["compose"]
        c.pop("date", None)
        c.pop("respin", None)
    return json.dumps(doc), ci, doc
