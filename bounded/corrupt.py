"""Bounded stand-ins for C06/C07/C18: one-field corruptions of valid objects (dump side) and of valid documents
(load side), through the REAL dumps/loads.  Labelled bounded."""
import copy
import io
import json
import time

from . import gen

# field -> values from the complement of its documented domain
BAD = {
    "compose": {"id": [None, 5, "", "abc"], "type": ["bogus", None], "date": ["2015", 20150101, "2015010a"],
                "respin": ["1", None, 1.5],
                # near misses of the label grammar <Name>-<N>.<N>: missing / extra / non-numeric parts, wrong case, unknown name, junk around
                "label": ["RC", "Foo-1.0", 5, "", "RC-1", "RC-1.0.1", "Beta", "Update-2.x", "rc-1.0", "xRC-1.0", "RC-1.0x", "RC-.0", "RC-1.",
                          "GA", "Gold-1.0", "RC 1.0", "RC_1.0"], "final": ["x", None]},
    "release": {"name": [None, 5], "version": ["1.", "", None, "1.a", "1..2", "1.2.", "1 2"], "short": [None, 5],
                "type": ["bogus", None, "GA", "ga ", "g"],
                "is_layered": [None, "x"], "internal": ["x", None]},
    "base_product": {"name": [None], "version": ["1.", None], "short": [None], "type": ["bogus", None]},
    "variant": {"id": ["a-b", "", None, 5, "a b", "a_b", "a."], "uid": ["Bogus-x", None], "name": ["", None, 5], "type": ["bogus", None],
                "arches": [set()]},
    "image": {"path": ["", None, 5], "mtime": ["1", None], "size": [0, "1", None], "volume_id": ["", 5], "type": ["bogus", None],
              "format": ["bogus", None], "arch": ["", None, 5], "disc_number": ["1", None], "disc_count": [None, "2"],
              "checksums": [{}, None, []], "implant_md5": ["abc", "G" * 32, 5, "", "a" * 31, "a" * 33, "A" * 32, "a" * 31 + " "], "bootable": ["yes", None], "subvariant": [None, 5],
              "unified": ["x", None], "additional_variants": [None, "Server"]},
    "ti_release": {"name": [None, 5], "version": ["1.", None, "1.a", 5], "short": [None], "is_layered": ["x", None]},
    "ti_base_product": {"name": [None], "version": ["1.", None], "short": [None]},
    "ti_tree": {"arch": ["", None, 5], "build_timestamp": [0, "1", None]},
    "ti_variant": {"id": ["a-b", None, 5], "type": ["bogus", None]},
    "ti_stage2": {"mainimage": ["/abs/install.img", 5]},
    "ti_media": {"discnum": ["1", 1.5], "totaldiscs": ["x"]},
    "discinfo": {"timestamp": [None, 0.0, 5, "1.0"], "description": ["", None, 5], "arch": ["", None, 5],
                 "disc_numbers": [[], None, "ALL"]},
}


def _variants_all(container):
    out = []
    for v in container.variants.values():
        out.append(v)
        out.extend(_variants_all(v))
    return out


def sites(kind, obj):
    """yield (description, object, field, bad values) for every corruptible field position of a valid object"""
    if kind in ("composeinfo", "images", "rpms", "modules", "extra_files"):
        for f, bad in BAD["compose"].items():
            if f == "final" and not obj.compose.label:
                continue
            yield ("compose.%s" % f, obj.compose, f, bad)
    if kind == "composeinfo":
        for f, bad in BAD["release"].items():
            yield ("release.%s" % f, obj.release, f, bad)
        if obj.release.is_layered:
            for f, bad in BAD["base_product"].items():
                yield ("base_product.%s" % f, obj.base_product, f, bad)
        for v in _variants_all(obj.variants):
            for f, bad in BAD["variant"].items():
                yield ("variant[%s].%s" % (v.uid, f), v, f, bad)
            if v.parent is not None:
                yield ("variant[%s].arches (foreign arch)" % v.uid, v, "arches", [set(["zzz"]), set(v.arches) | set(["noarch"])])
            if v.type == "layered-product":
                for f, bad in BAD["release"].items():
                    if f not in ("is_layered",):
                        yield ("variant[%s].release.%s" % (v.uid, f), v.release, f, bad)
    if kind == "images":
        seen = set()
        for v in obj.images:
            for a in obj.images[v]:
                for im in obj.images[v][a]:
                    if id(im) in seen:
                        continue
                    seen.add(id(im))
                    for f, bad in BAD["image"].items():
                        vals = bad
                        if f == "additional_variants":
                            vals = [None, "Server"] + ([["Server"]] if not im.unified else [])
                        yield ("image[%s/%s/%s].%s" % (v, a, im.path, f), im, f, vals)
    if kind == "treeinfo":
        for f, bad in BAD["ti_release"].items():
            yield ("release.%s" % f, obj.release, f, bad)
        if obj.release.is_layered:
            for f, bad in BAD["ti_base_product"].items():
                yield ("base_product.%s" % f, obj.base_product, f, bad)
        for f, bad in BAD["ti_tree"].items():
            yield ("tree.%s" % f, obj.tree, f, bad)
        for v in _variants_all(obj.variants):
            for f, bad in BAD["ti_variant"].items():
                yield ("variant[%s].%s" % (v.uid, f), v, f, bad)
            if v.parent is not None:
                yield ("variant[%s].uid (misaligned)" % v.uid, v, "uid", ["Bogus-" + v.id])
        if obj.stage2.mainimage:
            for f, bad in BAD["ti_stage2"].items():
                yield ("stage2.%s" % f, obj.stage2, f, bad)
        if obj.media.discnum:
            for f, bad in BAD["ti_media"].items():
                yield ("media.%s" % f, obj.media, f, bad)
        for p in sorted(obj.images.images):
            d = obj.images.images[p]
            k = sorted(d)[0]
            yield ("images[%s][%s] (absolute path)" % (p, k), _DictItem(d, k), "value", ["/abs/" + k])
        if obj.images.images:
            yield ("images platform not referenced", _Platform(obj), "value", ["zzz-unreferenced"])
        for p in sorted(obj.checksums.checksums)[:1]:
            yield ("checksums[%s] (absolute path)" % p, _RenameKey(obj.checksums.checksums, p), "value", ["/abs/" + p])
    if kind == "discinfo":
        for f, bad in BAD["discinfo"].items():
            yield (f, obj, f, bad)


class _DictItem(object):
    def __init__(self, d, k):
        object.__setattr__(self, "_d", d)
        object.__setattr__(self, "_k", k)

    @property
    def value(self):
        return self._d[self._k]

    def __setattr__(self, n, v):
        self._d[self._k] = v


class _Platform(object):
    """adds / removes an image platform that the tree does not reference"""
    def __init__(self, ti):
        object.__setattr__(self, "_ti", ti)

    @property
    def value(self):
        return None

    def __setattr__(self, n, v):
        if v is None:
            self._ti.images.images.pop("zzz-unreferenced", None)
        else:
            self._ti.images.images[v] = {"x": "images/x"}


class _RenameKey(object):
    def __init__(self, d, k):
        object.__setattr__(self, "_d", d)
        object.__setattr__(self, "_k", k)
        object.__setattr__(self, "_cur", k)

    @property
    def value(self):
        return self._k

    def __setattr__(self, n, v):
        val = self._d.pop(self._cur)
        self._d[v] = val
        object.__setattr__(self, "_cur", v)


DUMP_SCRIPT = r'''
from pyvc.source import Source
from bounded import gen, corrupt
src = Source(os.environ.get("VERIF_REPO", "/repo")); mods = src.import_native()
kind, seed, site, idx = %(kind)r, %(seed)d, %(site)r, %(idx)d
obj = getattr(gen.G(mods, seed), kind)()
if isinstance(obj, tuple): obj = obj[0]
obj.dumps()
for desc, o, f, bad in corrupt.sites(kind, obj):
    if desc == site:
        setattr(o, f, bad[idx])
        print("corrupted %%s := %%r" %% (desc, bad[idx]))
        try:
            obj.dumps()
        except (TypeError, ValueError) as ex:
            NOT_REPRODUCED("refused with %%r" %% (ex,))
        except Exception as ex:
            REPRODUCED("dumps() of an object with an out-of-domain field raises %%r instead of TypeError/ValueError" %% (ex,))
        REPRODUCED("dumps() returned text for an object with an out-of-domain field")
NOT_REPRODUCED("site not found")
'''


def dump_side(run, mods, kind, nobj):
    """every field position x every bad value: dumps() must raise TypeError/ValueError"""
    t0 = time.time()
    fails = []
    n = 0
    distinct = set()
    for i in range(nobj):
        seed = run.seed * 7919 + i
        obj = getattr(gen.G(mods, seed), kind)()
        if isinstance(obj, tuple):
            obj = obj[0]
        try:
            obj.dumps()
        except Exception as ex:
            fails.append((seed, "<valid object>", 0, "valid object refused: %r" % (ex,)))
            continue
        for desc, o, f, bad in sites(kind, obj):
            old = getattr(o, f)
            old = copy.copy(old) if isinstance(old, (set, dict, list)) else old
            for idx, b in enumerate(bad):
                n += 1
                distinct.add((desc.split("[")[0], f, repr(b)))
                setattr(o, f, copy.copy(b) if isinstance(b, (set, dict, list)) else b)
                try:
                    obj.dumps()
                    fails.append((seed, desc, idx, "accepted %r" % (b,)))
                except (TypeError, ValueError):
                    pass
                except Exception as ex:
                    fails.append((seed, desc, idx, "raises %r" % (ex,)))
                finally:
                    if isinstance(o, (_RenameKey, _Platform)):
                        setattr(o, f, old)
                    else:
                        setattr(o, f, old)
        try:
            obj.dumps()
        except Exception as ex:
            fails.append((seed, "<restore>", 0, "object not restored: %r" % (ex,)))
    run.add_bounded("%s dumps() of one-field corruptions" % kind, "every field position x out-of-domain values",
                    "%d valid objects (bounded/gen.py), fields and values from bounded/corrupt.py BAD" % nobj, n, fails,
                    nontrivial=len(distinct), seconds=time.time() - t0)
    return fails


def dump_violation(run, kind, fail):
    seed, desc, idx, what = fail
    run.violation("bounded:%s.dump.%s" % (kind, desc), "out-of-domain field refused with TypeError/ValueError",
                  "%s seed %d, %s: %s" % (kind, seed, desc, what),
                  DUMP_SCRIPT % {"kind": kind, "seed": seed, "site": desc, "idx": idx})


# ---------------------------------------------------------------------------------------------------------------------
# load side (C07)
# ---------------------------------------------------------------------------------------------------------------------
POOL = {str: [None, 5, "", "bogus!", "x/../y", "GA"], int: ["x", None, 1.5, -1], bool: ["x", None, 0], list: [None, "x", {}, []],
        dict: [None, [], "x", {}], type(None): [5, "x", ""], float: ["x", None]}

REQUIRED = {
    "composeinfo": [("header",), ("header", "version"), ("header", "type"), ("payload",), ("payload", "compose"),
                    ("payload", "compose", "id"), ("payload", "compose", "type"), ("payload", "compose", "date"),
                    ("payload", "compose", "respin"), ("payload", "release"), ("payload", "release", "name"),
                    ("payload", "release", "version"), ("payload", "release", "short"), ("payload", "variants")],
    "images": [("header",), ("header", "version"), ("header", "type"), ("payload",), ("payload", "compose"),
               ("payload", "compose", "id"), ("payload", "images")],
    "rpms": [("header",), ("header", "version"), ("header", "type"), ("payload",), ("payload", "compose"), ("payload", "rpms")],
    "modules": [("header",), ("header", "version"), ("header", "type"), ("payload",), ("payload", "compose"), ("payload", "modules")],
    "extra_files": [("header",), ("header", "version"), ("header", "type"), ("payload",), ("payload", "compose"),
                    ("payload", "extra_files")],
}
VARIANT_REQUIRED = ["id", "uid", "name", "type", "arches", "paths"]
IMAGE_REQUIRED = ["path", "mtime", "size", "volume_id", "type", "arch", "disc_number", "disc_count", "checksums", "implant_md5",
                  "bootable", "subvariant"]
HEADER_TYPES = {"composeinfo": "productmd.composeinfo", "images": "productmd.images", "rpms": "productmd.rpms",
                "modules": "productmd.modules", "extra_files": "productmd.extra_files", "treeinfo": "productmd.treeinfo"}
VALIDATED_PAYLOAD = {"rpms": False, "modules": False, "extra_files": False}     # payload tables are stored as given


def _walk(doc, path=()):
    if isinstance(doc, dict):
        for k in sorted(doc):
            yield path + (k,), doc, k
            for x in _walk(doc[k], path + (k,)):
                yield x
    elif isinstance(doc, list):
        for i, v in enumerate(doc):
            yield path + (i,), doc, i
            for x in _walk(v, path + (i,)):
                yield x


def json_mutations(kind, doc):
    """yield (description, mutated document, must_reject: bool)"""
    # header type swap / version mangling
    for other in sorted(set(HEADER_TYPES.values()) - set([HEADER_TYPES[kind]])) + ["", None, 5]:
        d = copy.deepcopy(doc)
        d["header"]["type"] = other
        yield ("header.type := %r" % (other,), d, True)
    for bad in ["1", "1.", "a.b", "1.2.3", "", None, 1.2, "1,2"]:
        d = copy.deepcopy(doc)
        d["header"]["version"] = bad
        yield ("header.version := %r" % (bad,), d, True)
    req = set(REQUIRED[kind])
    for path, cont, k in _walk(doc):
        if kind in VALIDATED_PAYLOAD and len(path) >= 2 and path[0] == "payload" and path[1] == kind:
            if len(path) > 2:
                continue        # payload tables of rpms/modules/extra files are stored as given
        must = path in req
        if kind == "composeinfo" and len(path) == 4 and path[:2] == ("payload", "variants") and path[3] in VARIANT_REQUIRED:
            must = True
        if kind == "images" and len(path) == 6 and path[:2] == ("payload", "images") and path[5] in IMAGE_REQUIRED:
            must = True
        # deletion
        if isinstance(cont, dict):
            d = copy.deepcopy(doc)
            c = d
            for p in path[:-1]:
                c = c[p]
            del c[k]
            yield ("delete %s" % ".".join(map(str, path)), d, must)
        # replacement
        for bad in POOL.get(type(cont[k]), []):
            if type(bad) is type(cont[k]) and bad == cont[k]:
                continue
            d = copy.deepcopy(doc)
            c = d
            for p in path[:-1]:
                c = c[p]
            c[k] = bad
            yield ("%s := %r" % (".".join(map(str, path)), bad), d, False)


LOAD_SCRIPT = r'''
import json
from pyvc.source import Source
from bounded import gen, corrupt
src = Source(os.environ.get("VERIF_REPO", "/repo")); mods = src.import_native()
kind, seed, want = %(kind)r, %(seed)d, %(desc)r
obj = getattr(gen.G(mods, seed), kind)()
if isinstance(obj, tuple): obj = obj[0]
text = obj.dumps()
for desc, mutated, must in corrupt.mutations(kind, text):
    if desc != want: continue
    print("corruption:", desc)
    o2 = type(obj)()
    try:
        o2.loads(mutated)
    except Exception as ex:
        NOT_REPRODUCED("rejected with %%r" %% (ex,))
    if must: REPRODUCED("a document with `%%s` is returned as a successfully loaded object" %% desc)
    try:
        o2.dumps()
    except (TypeError, ValueError) as ex:
        REPRODUCED("loads() returned an object that violates a field rule writing enforces: %%r" %% (ex,))
    NOT_REPRODUCED("loaded object is valid (the reader coerced or ignored the value)")
NOT_REPRODUCED("mutation not found")
'''


def ini_mutations(text):
    import configparser

    def parse(t):
        p = configparser.RawConfigParser()
        p.optionxform = str
        p.read_string(t)
        return p

    def render(p):
        f = io.StringIO()
        p.write(f)
        return f.getvalue()
    base = parse(text)
    for other in ["productmd.images", "", "x"]:
        p = parse(text)
        p.set("header", "type", other)
        yield ("header.type := %r" % other, render(p), True)
    for bad in ["1", "1.", "a.b", "1.2.3", "", "1,2"]:
        p = parse(text)
        p.set("header", "version", bad)
        yield ("header.version := %r" % bad, render(p), True)
    for sec in base.sections():
        if sec == "general":
            continue
        must_sec = sec == "release" or sec.startswith("variant-") or sec.startswith("addon-")
        if sec not in ("header", "tree"):
            p = parse(text)
            p.remove_section(sec)
            yield ("delete [%s]" % sec, render(p), must_sec)
        for opt in base.options(sec):
            must = (sec == "release" and opt in ("name", "version")) or \
                ((sec.startswith("variant-") or sec.startswith("addon-")) and opt in ("id", "uid", "name", "type"))
            if sec == "header":
                continue
            p = parse(text)
            p.remove_option(sec, opt)
            yield ("delete [%s] %s" % (sec, opt), render(p), must)
            for bad in ["", "bogus!", "/abs/path", "1.", "-1", "x,y", "a-b"]:
                if base.get(sec, opt) == bad:
                    continue
                p = parse(text)
                p.set(sec, opt, bad)
                yield ("[%s] %s := %r" % (sec, opt, bad), render(p), False)


def disc_mutations(text):
    lines = text.split("\n")
    for i in range(len(lines)):
        for bad in ["", "x", "1,a", "0", " "]:
            l2 = list(lines)
            l2[i] = bad
            yield ("line %d := %r" % (i, bad), "\n".join(l2), False)
        l2 = lines[:i] + lines[i + 1:]
        yield ("delete line %d" % i, "\n".join(l2), len(l2) < 3)


def mutations(kind, text):
    if kind == "treeinfo":
        return ini_mutations(text)
    if kind == "discinfo":
        return disc_mutations(text)
    doc = json.loads(text)
    return ((d, json.dumps(m), must) for d, m, must in json_mutations(kind, doc))


def load_side(run, mods, kind, nobj, per_obj=None):
    t0 = time.time()
    fails = []
    n = 0
    rejected = 0
    distinct = set()
    import random
    rng = random.Random(run.seed)
    for i in range(nobj):
        seed = run.seed * 104729 + i
        obj = getattr(gen.G(mods, seed), kind)()
        if isinstance(obj, tuple):
            obj = obj[0]
        text = obj.dumps()
        muts = list(mutations(kind, text))
        if per_obj and len(muts) > per_obj:
            opt = [m for m in muts if not m[2]]
            muts = [m for m in muts if m[2]] + rng.sample(opt, min(per_obj, len(opt)))
        for desc, mutated, must in muts:
            n += 1
            distinct.add(desc.split(" := ")[0].split("[")[0] if kind != "treeinfo" else desc.split(" := ")[0])
            o2 = type(obj)()
            try:
                o2.loads(mutated)
            except Exception:
                rejected += 1
                continue
            if must:
                fails.append((seed, desc, "document accepted"))
                continue
            try:
                o2.dumps()
            except (TypeError, ValueError) as ex:
                fails.append((seed, desc, "loaded object is invalid: %r" % (ex,)))
            except Exception:
                pass
    run.add_bounded("%s loads() of one-corruption documents" % kind, "header swap, version mangling, key deletion, value replacement",
                    "%d valid documents (bounded/gen.py); returned objects must be writable, listed corruptions must be rejected; %d rejected"
                    % (nobj, rejected), n, fails, nontrivial=len(distinct), seconds=time.time() - t0)
    return fails


def load_violation(run, kind, fail):
    seed, desc, what = fail
    run.violation("bounded:%s.load.%s" % (kind, desc), "corrupted document rejected / loaded object valid",
                  "%s seed %d, %s: %s" % (kind, seed, desc, what), LOAD_SCRIPT % {"kind": kind, "seed": seed, "desc": desc})
