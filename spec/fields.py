"""valid_X: the documented field rules of every metadata class -- the ORACLE of C06/C07 (DESIGN 5.1/5.2).

Written from the property statements, doc/*.rst and the enumeration tables *as imported* from the tree under
check (documented enumeration values are additionally pinned as lower bounds in DOCUMENTED_ENUMS).  Dual mode:
the same text is an SMT formula over symbolic fields (pyvc) and a Python predicate over real objects."""
from pyvc import sym
from pyvc.sym import And, Or, Not, Implies, is_str, is_int, is_bool, is_none, is_float, matches, isin, truthy

# documented enumeration values that must always be ACCEPTED (lower bounds; additions are legal evolution)
DOCUMENTED_ENUMS = {
    "COMPOSE_TYPES": ["test", "ci", "nightly", "production", "development"],
    "RELEASE_TYPES": ["fast", "ga", "updates", "updates-testing", "eus", "aus", "els", "tus", "e4s"],
    "LABEL_NAMES": ["EA", "DevelPhaseExit", "InternalAlpha", "Alpha", "InternalSnapshot", "Beta", "Snapshot", "RC",
                    "Update", "SecurityFix"],
    "VARIANT_TYPES": ["variant", "optional", "addon", "layered-product"],
    "TREE_VARIANT_TYPES": ["variant", "optional", "addon"],
    "IMAGE_TYPES": ["boot", "cd", "docker", "dvd", "dvd-ostree", "ec2", "kvm", "live", "netinst", "p2v", "qcow",
                    "qcow2", "raw", "raw-xz", "rescue", "vagrant-libvirt", "vagrant-virtualbox", "vdi", "vmdk", "vpc"],
    "IMAGE_FORMATS": ["iso", "qcow", "qcow2", "raw", "raw.xz", "tar.gz", "tar.xz", "vagrant-libvirt.box",
                      "vagrant-virtualbox.box", "vdi", "vmdk", "vhd"],
}


class Tables(object):
    """enumerations as imported from the tree under check"""

    def __init__(self, mods):
        self.COMPOSE_TYPES = list(mods["composeinfo"].COMPOSE_TYPES)
        self.LABEL_NAMES = list(mods["composeinfo"].LABEL_NAMES)
        self.VARIANT_TYPES = list(mods["composeinfo"].VARIANT_TYPES)
        self.RELEASE_TYPES = list(mods["common"].RELEASE_TYPES)
        self.RPM_ARCHES = list(mods["common"].RPM_ARCHES)
        self.IMAGE_TYPES = list(mods["images"].SUPPORTED_IMAGE_TYPES)
        self.IMAGE_FORMATS = list(mods["images"].SUPPORTED_IMAGE_FORMATS)
        self.TREE_VARIANT_TYPES = list(mods["treeinfo"].VARIANT_TYPES)
        self.VERSION = tuple(mods["common"].VERSION)


# documented patterns (re.match semantics; `$` tolerates one trailing newline -- INFO note, DESIGN 5.1)
HEADER_VERSION = r"^\d+\.\d+$"
COMPOSE_DATE = r"^\d{8}$"
COMPOSE_ID = r"[^\n]*\d{8}"                      # "an id embeds an 8-digit date"
RELEASE_VERSION = r"^([0-9]+(\.[0-9]+)*|[^0-9].*)$"  # dotted integers or anything not starting with a digit
VARIANT_ID = r"^[a-zA-Z0-9]+$"
IMPLANT_MD5 = r"^[a-z0-9]{32}$"
TREE_NUMERIC_VERSION = r"^\d+(\.\d+)*$"


def label_patterns(T):
    return [r"^%s-\d+\.\d+$" % n for n in T.LABEL_NAMES]


def g(o, name):
    """field accessor for symbolic Obj cells and real objects alike"""
    f = getattr(o, "fields", None)
    if f is not None and hasattr(o, "cls"):
        return f[name]
    return getattr(o, name)


# ---- containers ----------------------------------------------------------------------------------------------
def _symdict(v):
    return type(v).__name__ == "SymDict"


def is_dict(v):
    if _symdict(v):
        return True
    if isinstance(v, sym.SV):
        return sym.is_kind(v, sym.K_DICT)
    return isinstance(v, dict)


def is_list(v):
    if isinstance(v, sym.SV):
        return sym.is_kind(v, sym.K_LIST)
    return isinstance(v, list)


def nonempty(v):
    """python truthiness of a value"""
    if _symdict(v):
        pres = [e.present for e in v.entries]
        if v.closed:
            return Or(*pres) if pres else False
        if any(p is True for p in pres):
            return True
        raise NotImplementedError("truthiness of open dict in spec")
    if isinstance(v, sym.SV):
        return truthy(v)
    return bool(v)


# ---- common / composeinfo ----------------------------------------------------------------------------------------
def valid_header(T, o):
    v = g(o, "version")
    return And(is_str(v), matches(HEADER_VERSION, v))


def valid_compose(T, o):
    id_, date, typ, respin, label, final = (g(o, n) for n in ("id", "date", "type", "respin", "label", "final"))
    return And(
        is_str(id_), matches(COMPOSE_ID, id_),
        is_str(date), matches(COMPOSE_DATE, date),
        isin(typ, T.COMPOSE_TYPES),
        is_int(respin),
        Or(is_none(label), And(is_str(label), Or(*[matches(p, label) for p in label_patterns(T)]))),
        Implies(Not(is_none(label)), is_bool(final)),
    )


def valid_base_product(T, o):
    name, version, short, typ = (g(o, n) for n in ("name", "version", "short", "type"))
    return And(is_str(name), is_str(version), matches(RELEASE_VERSION, version), is_str(short),
               is_str(typ), isin(typ, T.RELEASE_TYPES))


def valid_release(T, o):
    return And(valid_base_product(T, o), is_bool(g(o, "is_layered")), is_bool(g(o, "internal")))


# ---- images --------------------------------------------------------------------------------------------------------
def valid_image(T, o):
    f = lambda n: g(o, n)
    return And(
        is_str(f("path")), truthy(f("path")),
        is_int(f("mtime")),
        is_int(f("size")), truthy(f("size")),
        Or(is_none(f("volume_id")), And(is_str(f("volume_id")), truthy(f("volume_id")))),
        is_str(f("type")), isin(f("type"), T.IMAGE_TYPES),
        is_str(f("format")), isin(f("format"), T.IMAGE_FORMATS),
        is_str(f("arch")), truthy(f("arch")),
        is_int(f("disc_number")),
        is_int(f("disc_count")),
        is_dict(f("checksums")), nonempty(f("checksums")),
        Or(is_none(f("implant_md5")), And(is_str(f("implant_md5")), matches(IMPLANT_MD5, f("implant_md5")))),
        is_bool(f("bootable")),
        is_str(f("subvariant")),
        is_bool(f("unified")),
        is_list(f("additional_variants")),
        Implies(nonempty(f("additional_variants")), truthy(f("unified"))),
    )


# ---- treeinfo ------------------------------------------------------------------------------------------------------
def valid_ti_base_product(T, o):
    name, version, short = g(o, "name"), g(o, "version"), g(o, "short")
    return And(is_str(name), is_str(version), is_str(short),
               Implies(matches(r"^\d", version), matches(TREE_NUMERIC_VERSION, version)))


def valid_ti_release(T, o):
    return And(valid_ti_base_product(T, o), is_bool(g(o, "is_layered")))


def valid_ti_tree(T, o):
    arch, ts = g(o, "arch"), g(o, "build_timestamp")
    return And(is_str(arch), truthy(arch), Or(is_int(ts), is_float(ts)), truthy(ts))


def valid_ti_stage2(T, o):
    m = g(o, "mainimage")
    return Implies(truthy(m), And(is_str(m), Not(sym.startswith(m, "/"))))


def valid_ti_media(T, o):
    d, t = g(o, "discnum"), g(o, "totaldiscs")
    return And(Or(is_int(d), is_none(d)), Or(is_int(t), is_none(t)))


# ---- discinfo ------------------------------------------------------------------------------------------------------
def valid_discinfo(T, o):
    ts, desc, arch, dn = g(o, "timestamp"), g(o, "description"), g(o, "arch"), g(o, "disc_numbers")
    return And(is_float(ts), truthy(ts), is_str(desc), truthy(desc), is_str(arch), truthy(arch),
               is_list(dn), nonempty(dn))
