"""Intended string languages, written as TAGGED regular expressions from the quantifier texts of C12-C15.
Named groups mark the spans the property says must be recovered."""
import re

NAME_CH = r"[A-Za-z0-9._+]"
VER_CH = r"[A-Za-z0-9._+~^]"


def arch_alt(arches):
    return "|".join(re.escape(a) for a in sorted(arches, key=lambda a: (-len(a), a)))


def I_nvra(arches, with_dir=True, epoch="optional"):
    """C13: dash-separated name segments over letters/digits/._+ ; optional epoch; version and release over
    letters/digits/._+~^ (no dash); arch from the library's table; optional directory prefix."""
    ep = {"optional": r"((?P<epoch>\d+):)?", "required": r"(?P<epoch>\d+):", "absent": ""}[epoch]
    return (r"%s(?P<name>%s+(-%s+)*)-%s(?P<version>%s+)-(?P<release>%s+)\.(?P<arch>%s)"
            % (r"(.*/)?" if with_dir else "", NAME_CH, NAME_CH, ep, VER_CH, VER_CH, arch_alt(arches)))


NVRA_GROUPS = ["name", "epoch", "version", "release", "arch"]

# C14 ----------------------------------------------------------------------------------------------------------------
L_SHORT = r"[a-z][a-z0-9]*(-[a-z0-9]+)*"              # lowercase letter, lowercase alphanumerics, non-empty dashed segments
L_TYPE = L_SHORT
L_VERSION = r"[0-9]+(\.[0-9]+)*|[^0-9\n][^\n]*"       # dotted decimal integers, or non-empty not starting with a digit

# C15 ----------------------------------------------------------------------------------------------------------------
# created ids: <anything without newline>-<date 8 digits>[.n|.t|.ci|.d].<respin>
I_CID = r"[^\n]*-(?P<date>\d{8})(?P<type>\.(n|t|ci|d))?\.(?P<respin>\d{1,%d})"
CID_GROUPS = ["date", "type", "respin"]

# C12 module uids ------------------------------------------------------------------------------------------------------
UID_PART = r"[^:/\n]+"
# NAME:STREAM[:VERSION[:CONTEXT]] -- a context only after a version
I_UID = r"(?P<module_name>%s):(?P<stream>%s)(:(?P<version>%s)(:(?P<context>%s))?)?" % (UID_PART, UID_PART, UID_PART, UID_PART)
UID_GROUPS = ["module_name", "stream", "version", "context"]
