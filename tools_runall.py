#!/usr/bin/env python3
"""Run every registered check (quick tier by default) on /repo, a few at a time; print exit code and wall time per property.
usage: python3 tools_runall.py [--tier quick|thorough] [--jobs N] [--repo PATH] [Cxx ...]"""
import concurrent.futures
import json
import subprocess
import sys
import time

args = sys.argv[1:]
tier, jobs, repo = "quick", 4, None
ids = []
while args:
    a = args.pop(0)
    if a == "--tier":
        tier = args.pop(0)
    elif a == "--jobs":
        jobs = int(args.pop(0))
    elif a == "--repo":
        repo = args.pop(0)
    else:
        ids.append(a)
if not ids:
    ids = [c["property_id"] for c in json.load(open("/verif/MANIFEST.json"))["checks"]]


def one(pid):
    t = time.time()
    cmd = ["/verif/bin/vcheck", pid, "--tier", tier] + (["--repo", repo] if repo else [])
    p = subprocess.run(cmd, stdout=subprocess.PIPE, stderr=subprocess.STDOUT, text=True)
    lines = [l for l in p.stdout.splitlines() if l.startswith(("VIOLATION", "KNOWN-FINDING", "UNDECIDED", "FAULT")) or "-> exit" in l]
    return pid, p.returncode, time.time() - t, lines


bad = 0
with concurrent.futures.ThreadPoolExecutor(jobs) as ex:
    for pid, rc, dt, lines in ex.map(one, ids):
        print("%s rc=%d %.0fs" % (pid, rc, dt))
        for l in lines:
            print("    " + l[:300])
        bad += rc != 0
sys.exit(1 if bad else 0)
