#!/usr/bin/env python3
"""Developer tool: confirm a seeded change (patch + demonstration) on a scratch copy of /repo, run the property's check
against it and store it under /verif/seeded/<id>/.  usage: tools_seeded.py <prop> <outdir> <i> [--checks C01,C08]"""
import json, os, shutil, subprocess, sys, tempfile, time
prop, outdir, i = sys.argv[1], sys.argv[2], sys.argv[3]
checks = [prop]
if "--checks" in sys.argv:
    checks = sys.argv[sys.argv.index("--checks") + 1].split(",")
here = os.path.dirname(os.path.abspath(__file__))
patch = os.path.join(outdir, "patch%s.diff" % i)
demo = os.path.join(outdir, "demo%s.py" % i)
meta = json.load(open(os.path.join(outdir, "meta%s.json" % i)))
scratch = tempfile.mkdtemp(prefix="seed_")
try:
    subprocess.check_call("cd /repo && git archive HEAD | tar -x -C %s" % scratch, shell=True)
    r = subprocess.run(["git", "apply", "--directory=" + scratch.lstrip("/"), "--unsafe-paths", patch], cwd="/", capture_output=True, text=True)
    if r.returncode != 0:
        r = subprocess.run(["patch", "-p1", "-d", scratch, "-i", patch], capture_output=True, text=True)
    applied = r.returncode == 0
    t = subprocess.run("cd %s && /venv/bin/python -m pytest -q -p no:cacheprovider 2>&1 | tail -1" % scratch, shell=True, capture_output=True, text=True)
    tests = t.stdout.strip()
    d1 = subprocess.run(["/venv/bin/python", "-B", demo, scratch], capture_output=True, text=True, timeout=600)
    d0 = subprocess.run(["/venv/bin/python", "-B", demo, "/repo"], capture_output=True, text=True, timeout=600)
    res = {}
    for c in checks:
        t0 = time.time()
        p = subprocess.run([os.path.join(here, "bin", "vcheck"), c, "--repo", scratch], capture_output=True, text=True, timeout=3600)
        lines = [l for l in p.stdout.splitlines() if l.startswith(("VIOLATION", "UNDECIDED", "CHECKER-FAULT"))]
        lines.sort(key=lambda l: 0 if l.startswith("VIOLATION") else 1)       # what is kept in meta.json: the violations first
        res[c] = {"exit": p.returncode, "seconds": round(time.time() - t0, 1), "lines": [l.replace(scratch, "<scratch>")[:300] for l in lines[:6]]}
    ok = applied and "90 passed" in tests and d1.returncode == 1 and d0.returncode == 0
    print(json.dumps({"applied": applied, "tests": tests, "demo_with": d1.returncode, "demo_without": d0.returncode, "confirmed": ok, "checks": res}, indent=1))
    if ok:
        dest = os.path.join(here, "seeded", "%s-%s" % (prop, i))
        os.makedirs(dest, exist_ok=True)
        shutil.copy(patch, os.path.join(dest, "patch.diff"))
        shutil.copy(demo, os.path.join(dest, "demo.py"))
        meta.update({"property": prop, "confirmed": {"tests_with_change": tests, "demo_exit_with_change": d1.returncode,
                                                    "demo_exit_without_change": d0.returncode,
                                                    "how": "patch applied to a scratch export of /repo HEAD; pytest; demo against scratch and /repo; bin/vcheck <prop> --repo <scratch>"},
                     "detected_by": dict((c, {"exit": v["exit"], "lines": v["lines"]}) for c, v in res.items())})
        json.dump(meta, open(os.path.join(dest, "meta.json"), "w"), indent=1)
finally:
    shutil.rmtree(scratch, ignore_errors=True)
