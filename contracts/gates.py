"""C05 version gates: every reader that dispatches on the document's format version takes the documented branch for EVERY version
(the version string is symbolic, so both sides of every threshold are covered)."""
import z3

from pyvc import sym, concretise
from pyvc.sym import And, Or, Not, Implies, If, eq, SV, is_str
from pyvc.engine import SymDict, ExcVal, Obj, PyRaise
from pyvc.verify import Contract, Outcome
from spec import fields as F
from .sections import version_parts, _veq


def lt(v, t):
    a, b = sym.sint(v[0]), sym.sint(v[1])
    return sym.as_bool(z3.Or(a < t[0], z3.And(a == t[0], b < t[1])))


def le(v, t):
    a, b = sym.sint(v[0]), sym.sint(v[1])
    return sym.as_bool(z3.Or(a < t[0], z3.And(a == t[0], b <= t[1])))


def eqv(v, t):
    a, b = sym.sint(v[0]), sym.sint(v[1])
    return sym.as_bool(z3.And(a == t[0], b == t[1]))


# (module, holder class, attribute path to the object, class of the object, method, [(documented condition on version, callee)], default callee)
GATES = [
    ("composeinfo", "ComposeInfo", "compose", ("composeinfo", "Compose"), "deserialize",
     [(lambda v: lt(v, (0, 3)), "deserialize_0_3")], "deserialize_1_0", "compose fields derived from the id  <=>  version < 0.3"),
    ("composeinfo", "ComposeInfo", "release", ("composeinfo", "Release"), "deserialize",
     [(lambda v: le(v, (0, 3)), "deserialize_0_3")], "deserialize_1_0", "'product' section  <=>  version <= 0.3"),
    ("rpms", "Rpms", None, ("rpms", "Rpms"), "deserialize",
     [(lambda v: le(v, (0, 3)), "deserialize_0_3")], "deserialize_1_0", "rpms 'manifest' dialect  <=>  version <= 0.3"),
    ("treeinfo", "TreeInfo", "release", ("treeinfo", "Release"), "deserialize",
     [(lambda v: eqv(v, (0, 0)), "deserialize_0_0"), (lambda v: le(v, (0, 3)), "deserialize_0_3")], "deserialize_1_0",
     "pre-productmd [general]  <=>  0.0; 'product' section  <=>  <= 0.3"),
    ("treeinfo", "TreeInfo", "tree", ("treeinfo", "Tree"), "deserialize",
     [(lambda v: eqv(v, (0, 0)), "deserialize_0_0")], "deserialize_1_0", "pre-productmd tree  <=>  0.0"),
    ("treeinfo", "TreeInfo", "media", ("treeinfo", "Media"), "deserialize",
     [(lambda v: eqv(v, (0, 0)), "deserialize_0_0")], "deserialize_1_0", "[general] discnum/totaldiscs  <=>  0.0"),
]


class Gate(Contract):
    def __init__(self, src, T, spec):
        self.src, self.T, self.spec = src, T, spec
        mod, holder, attr, cls, meth, branches, default, doc = spec
        self.name = "productmd.%s.%s.%s[version gate]" % (cls[0], cls[1], meth)
        self.key = "gate:%s.%s.%s" % (cls[0], cls[1], meth)

    def setup(self, E):
        mod, holder, attr, cls, meth, branches, default, doc = self.spec
        top = E.instantiate((mod, holder))
        ver = SV(sym.Val.VStr(z3.Const("hdr.version", sym.S)))
        top.fields["header"].fields["version"] = ver
        E.assume(F.valid_header(self.T, top.fields["header"]))
        o = top.fields[attr] if attr else top
        calls = []
        names = [b[1] for b in branches] + [default]

        def mk(n):
            def summ(E_, obj, args, kwargs):
                calls.append(n)
                return None
            return summ
        for n in names:
            E.summaries[(cls, n)] = mk(n)
        for extra in ("validate",):
            E.summaries[(cls, extra)] = mk(extra)
        if attr is None:
            # top-level reader: the header reader is not under test here
            E.summaries[(("common", "Header"), "deserialize")] = mk("header.deserialize")
        return {"top": top, "o": o, "ver": ver, "calls": calls, "names": names, "cls": cls}

    def call(self, E, st):
        mod, holder, attr, cls, meth, branches, default, doc = self.spec
        try:
            return E.call(E.getattr_(st["o"], meth), [SymDict("doc", closed=False)])
        finally:
            for n in st["names"] + ["validate"]:
                E.summaries.pop((cls, n), None)
            E.summaries.pop((("common", "Header"), "deserialize"), None)
            from . import sections
            sections.install_valid_summaries(E, self.src, self.T)

    def post(self, E, st, out):
        mod, holder, attr, cls, meth, branches, default, doc = self.spec
        if out.kind == "raise":
            # the document is arbitrary: a dispatcher that looks into it before dispatching may meet a missing key (rejecting such a
            # document is right); every other failure for a well-formed version is a dispatch failure
            return {"dispatch_does_not_fail_for_wellformed_version": out.exc_cls is KeyError}
        v = version_parts(E, st["ver"])
        taken = [c for c in st["calls"] if c in st["names"]]
        cl = {"dispatch_does_not_fail_for_wellformed_version": True, "exactly_one_reader_runs": len(taken) == 1,
              "object_validated_after_reading": st["calls"][-1:] == ["validate"] or (attr is None and "validate" in st["calls"])}
        earlier = []
        conds = []
        for cond, callee in branches:
            c = And(cond(v), *[Not(e) for e in earlier])
            conds.append((c, callee))
            earlier.append(cond(v))
        conds.append((And(*[Not(e) for e in earlier]), default))
        cl["documented_reader_for_every_version"] = And(*[Implies(c, taken == [callee]) for c, callee in conds])
        if attr is None:
            cl["version_current_after_load"] = st["top"].fields["header"].fields["version"] == "%d.%d" % self.T.VERSION
        return cl

    def concretise(self, model, st):
        return None

    def native_eval(self, inputs):
        raise NotImplementedError


class HeaderRead(Contract):
    """Header.deserialize: returns iff the version is `digits.digits` and, from 1.1 on, the document's type equals the class's type;
    the version read is the document's."""

    def __init__(self, src, T, module):
        self.src, self.T, self.module = src, T, module
        self.name = "productmd.%s.Header.deserialize" % module
        self.key = "de:%s.Header" % module

    def setup(self, E):
        if self.module == "common":
            h = E.instantiate(("common", "Header"), [None, "productmd.composeinfo"])
            doc = SymDict("doc", closed=False)
            return {"h": h, "doc": doc, "mt": "productmd.composeinfo"}
        from pyvc import effects
        from .tisections import _new_parser
        h = E.instantiate(("treeinfo", "Header"), [None, "productmd.treeinfo"])
        parser = _new_parser(E)
        effects.make_symbolic_parser(E, parser)
        return {"h": h, "doc": parser, "mt": "productmd.treeinfo"}

    def call(self, E, st):
        return E.call(E.getattr_(st["h"], "deserialize"), [st["doc"]])

    def _doc_values(self, E, st):
        if self.module == "common":
            e = E.models.sd_lookup(st["doc"], "header")
            if not E.models.sd_present(e):
                return None
            hd = E.models.as_dict(e.value)
            if hd is None:
                return None
            ev = E.models.sd_lookup(hd, "version")
            et = E.models.sd_lookup(hd, "type")
            return ev, et
        from pyvc import effects
        secs = effects.parser_sections(E, st["doc"])
        e = E.models.sd_lookup(secs, "header")
        if not E.models.sd_present(e):
            return "nosection"
        hd = e.value if isinstance(e.value, SymDict) else E.models.as_dict(e.value)
        return E.models.sd_lookup(hd, "version"), E.models.sd_lookup(hd, "type")

    def post(self, E, st, out):
        dv = self._doc_values(E, st)
        h = st["h"]
        if dv is None or dv == "nosection":
            if self.module == "treeinfo" and dv == "nosection":
                # documented legacy fallback: a file without [header] is read as a pre-productmd (0.0) tree
                if out.kind == "raise":
                    return {"missing_header_is_legacy_fallback": False}
                return {"missing_header_is_legacy_fallback": _veq(h.fields["version"], "0.0")}
            return {"missing_header_rejected": out.kind == "raise"}
        ev, et = dv
        if self.module == "treeinfo" and not E.models.sd_present(ev):
            if out.kind == "raise":
                return {"missing_header_is_legacy_fallback": False}
            return {"missing_header_is_legacy_fallback": _veq(h.fields["version"], "0.0")}
        if not E.models.sd_present(ev):
            return {"missing_version_rejected": out.kind == "raise"}
        ver = ev.value
        pseudo = Obj(h.cls, "p", 0)
        pseudo.fields = {"version": ver}
        wf = F.valid_header(self.T, pseudo)
        if E.decide(wf):
            v = version_parts(E, ver)
            from11 = Not(lt(v, (1, 1)))
        else:
            from11 = False
        type_ok = And(et.present, _veq(et.value, st["mt"]))
        accept = And(wf, Implies(from11, type_ok))
        if out.kind == "raise":
            return {"rejects_only_malformed_version_or_foreign_type": Not(accept)}
        return {"accepts_only_wellformed_version_and_own_type_from_1_1": accept,
                "version_is_the_documents": _veq(h.fields["version"], ver)}

    def concretise(self, model, st):
        return None

    def native_eval(self, inputs):
        raise NotImplementedError


class ImagesLoadGate(Contract):
    """Images.deserialize on a document {V: {A: [record]}} for EVERY header version: the record is read by Image.deserialize and filed
    through _add_1_1 (legacy 'src' re-filing) iff version <= 1.1, through add() otherwise -- once, with the document's variant and arch;
    afterwards the header carries the current version.  Callees are recorded (their own contracts: meth:images.Images.add,
    meth:images.Images._add_1_1, de:images.Image:*)."""
    name = "productmd.images.Images.deserialize[version gate]"
    key = "gate:images.Images.deserialize"

    def __init__(self, src, T):
        self.src, self.T = src, T

    def setup(self, E):
        from pyvc.engine import Entry
        m = E.instantiate(("images", "Images"))
        ver = SV(sym.Val.VStr(z3.Const("hdr.version", sym.S)))
        m.fields["header"].fields["version"] = ver
        E.assume(F.valid_header(self.T, m.fields["header"]))
        V = SV(sym.Val.VStr(z3.Const("doc.variant", sym.S)))
        A = SV(sym.Val.VStr(z3.Const("doc.arch", sym.S)))
        rec = E.models.new_dict("record")

        def D(items):
            d = E.models.new_dict("doc")
            for k, v in items:
                d.entries.append(Entry(k, True, v))
            return d
        data = D([("header", D([])), ("payload", D([("compose", D([])), ("images", D([(V, D([(A, [rec])]))]))]))])
        calls = []

        def mk(n):
            def summ(E_, obj, args, kwargs):
                calls.append((n, obj, list(args)))
                return None
            return summ
        self._stubs = [(("images", "Images"), "add"), (("images", "Images"), "_add_1_1"), (("images", "Image"), "deserialize"),
                       (("common", "Header"), "deserialize"), (("composeinfo", "Compose"), "deserialize")]
        for k in self._stubs:
            E.summaries[k] = mk(k[1] if k[0][1] in ("Images",) else "%s.%s" % (k[0][1], k[1]))
        return {"m": m, "ver": ver, "V": V, "A": A, "rec": rec, "data": data, "calls": calls}

    def call(self, E, st):
        try:
            return E.call(E.getattr_(st["m"], "deserialize"), [st["data"]])
        finally:
            for k in self._stubs:
                E.summaries.pop(k, None)
            from . import sections
            sections.install_valid_summaries(E, self.src, self.T)

    def post(self, E, st, out):
        if out.kind == "raise":
            return {"dispatch_does_not_fail_for_wellformed_version": False}
        v = version_parts(E, st["ver"])
        legacy = le(v, (1, 1))
        reads = [c for c in st["calls"] if c[0] == "Image.deserialize"]
        files = [c for c in st["calls"] if c[0] in ("add", "_add_1_1")]
        one = len(reads) == 1 and len(files) == 1 and reads[0][2][0] is st["rec"]
        img = reads[0][1] if reads else None
        if one and files[0][0] == "_add_1_1":
            how, args_ok = legacy, files[0][2][0] is st["data"] and files[0][2][3] is img and And(_veq(files[0][2][1], st["V"]), _veq(files[0][2][2], st["A"]))
        elif one:
            how, args_ok = Not(legacy), files[0][2][2] is img and And(_veq(files[0][2][0], st["V"]), _veq(files[0][2][1], st["A"]))
        else:
            how, args_ok = False, False
        return {"dispatch_does_not_fail_for_wellformed_version": True,
                "record_read_once_and_filed_once": one,
                "legacy_refiling_iff_version_at_most_1_1": how,
                "filed_under_the_documents_variant_and_arch": args_ok,
                "version_current_after_load": st["m"].fields["header"].fields["version"] == "%d.%d" % self.T.VERSION}

    def concretise(self, model, st):
        return {"version": concretise.value_of(model, st["ver"]), "variant": concretise.value_of(model, st["V"]),
                "arch": concretise.value_of(model, st["A"])}

    def sample_inputs(self, rng):
        for ver in ("0.0", "0.3", "1.0", "1.1", "1.2", "2.0", "1.10", "10.0"):
            yield {"version": ver, "variant": "Server", "arch": "x86_64"}

    def native_eval(self, inputs):
        mod = self.src.mods["images"]
        m = mod.Images()
        m.header.version = inputs["version"]
        calls = []
        m.add = lambda *a: calls.append(("add", a))
        m._add_1_1 = lambda *a: calls.append(("_add_1_1", a))
        m.header.deserialize = lambda *a: None
        m.compose.deserialize = lambda *a: None
        orig = mod.Image.deserialize
        mod.Image.deserialize = lambda self_, d: calls.append(("Image.deserialize", (self_, d)))
        rec = {}
        data = {"header": {}, "payload": {"compose": {}, "images": {inputs["variant"]: {inputs["arch"]: [rec]}}}}
        from pyvc.verify import native_call
        try:
            nat = native_call(m.deserialize, data)
        finally:
            mod.Image.deserialize = orig
        if nat[0] == "raise":
            return nat, {"dispatch_does_not_fail_for_wellformed_version": False}
        import re
        if not re.match(r"^\d+\.\d+$", inputs["version"]):
            return ("skip", None), None
        legacy = tuple(int(x) for x in inputs["version"].split(".")) <= (1, 1)
        reads = [c for c in calls if c[0] == "Image.deserialize"]
        files = [c for c in calls if c[0] != "Image.deserialize"]
        one = len(reads) == 1 and len(files) == 1 and reads[0][1][1] is rec
        how = one and (files[0][0] == "_add_1_1") == legacy
        if one and files[0][0] == "_add_1_1":
            ok = files[0][1][0] is data and files[0][1][1:3] == (inputs["variant"], inputs["arch"]) and files[0][1][3] is reads[0][1][0]
        elif one:
            ok = files[0][1][0:2] == (inputs["variant"], inputs["arch"]) and files[0][1][2] is reads[0][1][0]
        else:
            ok = False
        return nat, {"dispatch_does_not_fail_for_wellformed_version": True, "record_read_once_and_filed_once": one,
                     "legacy_refiling_iff_version_at_most_1_1": how, "filed_under_the_documents_variant_and_arch": ok,
                     "version_current_after_load": m.header.version == "%d.%d" % self.T.VERSION}

    def describe(self, inputs):
        return "Images.deserialize of a version %r document with one record under %r/%r" % (inputs["version"], inputs["variant"], inputs["arch"])


class ImagesLoadAny(ImagesLoadGate):
    """the same contract for a document of ARBITRARY size (any number of variants, arches and records per cell; witness rule of
    pyvc/anycoll.py over the three nested loops, callees recorded): the arbitrary record at (v, a) is read into a fresh Image whose parent
    is the manifest and filed exactly once -- through _add_1_1(data, v, a, image) iff version <= 1.1, through add(v, a, image) otherwise --
    so every loaded entry goes through add() (the identity and arch rules of C09/C10 apply to loaded documents of any size)."""
    name = "productmd.images.Images.deserialize[document of arbitrary size]"
    key = "gate:images.Images.deserialize:any"

    def setup(self, E):
        from pyvc.engine import Entry
        from pyvc.anycoll import AnyDict, AnySet
        m = E.instantiate(("images", "Images"))
        ver = SV(sym.Val.VStr(z3.Const("hdr.version", sym.S)))
        m.fields["header"].fields["version"] = ver
        E.assume(F.valid_header(self.T, m.fields["header"]))

        def D(items):
            d = E.models.new_dict("doc")
            for k, v in items:
                d.entries.append(Entry(k, True, v))
            return d
        images = AnyDict("images", lambda e, k, t: AnyDict("arches", lambda e2, k2, t2: AnySet("records", lambda e3, t3: e3.models.new_dict("record"))))
        data = D([("header", D([])), ("payload", D([("compose", D([])), ("images", images)]))])
        calls = []

        def mk(n):
            def summ(E_, obj, args, kwargs):
                calls.append((n, obj, list(args)))
                return None
            return summ
        self._stubs = [(("images", "Images"), "add"), (("images", "Images"), "_add_1_1"), (("images", "Image"), "deserialize"),
                       (("common", "Header"), "deserialize"), (("composeinfo", "Compose"), "deserialize")]
        for k in self._stubs:
            E.summaries[k] = mk(k[1] if k[0][1] in ("Images",) else "%s.%s" % (k[0][1], k[1]))
        return {"m": m, "ver": ver, "images": images, "data": data, "calls": calls}

    def post(self, E, st, out):
        if out.kind == "raise":
            return {"dispatch_does_not_fail_for_wellformed_version": False}
        legacy = le(version_parts(E, st["ver"]), (1, 1))
        wit = getattr(E.path, "witnesses", [])
        if any(kind == "exit" for kind, c, x in wit):
            return {"dispatch_does_not_fail_for_wellformed_version": True, "no_iteration_leaves_the_loops_early": False}
        alls = [x for kind, c, x in wit if kind == "all"]
        reads = [c for c in st["calls"] if c[0] == "Image.deserialize"]
        files = [c for c in st["calls"] if c[0] in ("add", "_add_1_1")]
        cl = {"dispatch_does_not_fail_for_wellformed_version": True,
              "version_current_after_load": st["m"].fields["header"].fields["version"] == "%d.%d" % self.T.VERSION}
        if len(alls) == 3 and all(x is not None for x in alls):
            v, a, rec = alls
            one = len(reads) == 1 and len(files) == 1 and reads[0][2][0] is rec
            img = reads[0][1] if reads else None
            fresh = isinstance(img, Obj) and img.cls == ("images", "Image") and img.fields.get("parent") is st["m"]
            if one and files[0][0] == "_add_1_1":
                how = legacy
                args_ok = files[0][2][0] is st["data"] and files[0][2][3] is img and And(_veq(files[0][2][1], v), _veq(files[0][2][2], a))
            elif one:
                how = Not(legacy)
                args_ok = files[0][2][2] is img and And(_veq(files[0][2][0], v), _veq(files[0][2][1], a))
            else:
                how, args_ok = False, False
            cl["record_read_into_a_fresh_image_and_filed_once"] = one and fresh
            cl["legacy_refiling_iff_version_at_most_1_1"] = how
            cl["filed_under_the_documents_variant_and_arch"] = args_ok
        else:
            cl["record_read_into_a_fresh_image_and_filed_once"] = len(reads) == 0 and len(files) == 0
        return cl

    def concretise(self, model, st):
        return None

    def sample_inputs(self, rng):
        return iter(())

    def native_eval(self, inputs):
        raise NotImplementedError


class VariantsTopLevelGate(Contract):
    """composeinfo Variants.deserialize on the document {S: rec, S-O: rec} (S, O symbolic; S may or may not list O as its child) for EVERY
    header version: which UIDs are read as TOP-LEVEL variants.  Before 1.0 parentage is implied by the UID prefix (S-O is S's child: only
    S is top level); from 1.0 on it is explicit (S-O is top level iff S does not list it).  Each top-level UID is read once, in sorted
    order, and registered.  Variant.deserialize / add are recorded (their own contracts)."""
    name = "productmd.composeinfo.Variants.deserialize[top-level selection by version]"
    key = "gate:composeinfo.Variants.deserialize"

    def __init__(self, src, T):
        self.src, self.T = src, T

    def setup(self, E):
        from pyvc.engine import Entry
        ci = E.instantiate(("composeinfo", "ComposeInfo"))
        ver = SV(sym.Val.VStr(z3.Const("hdr.version", sym.S)))
        ci.fields["header"].fields["version"] = ver
        E.assume(F.valid_header(self.T, ci.fields["header"]))
        S = SV(sym.Val.VStr(z3.Const("doc.S", sym.S)))
        O = SV(sym.Val.VStr(z3.Const("doc.O", sym.S)))
        E.assume(And(sym.in_lang(S, r"[A-Za-z0-9]+"), sym.in_lang(O, r"[A-Za-z0-9]+")))
        SO = sym.concat(S, "-", O)
        listed = bool(E.decide(E.fresh("S_lists_O_as_child", z3.BoolSort())))

        def D(items):
            d = E.models.new_dict("doc")
            for k, v in items:
                d.entries.append(Entry(k, True, v))
            return d
        recS = D([("uid", S)] + ([("variants", [O])] if listed else []))
        recSO = D([("uid", SO)])
        order = [(S, recS), (SO, recSO)]
        if E.decide(E.fresh("document_order_reversed", z3.BoolSort())):
            order.reverse()
        sec = D(order)
        data = D([("variants", sec)])
        calls = []

        def mk(n):
            def summ(E_, obj, args, kwargs):
                calls.append((n, obj, list(args)))
                return None
            return summ
        self._stubs = [(("composeinfo", "Variant"), "deserialize"), (("composeinfo", "VariantBase"), "add"), (("composeinfo", "Variants"), "add")]
        for k in self._stubs:
            E.summaries[k] = mk(k[1])
        return {"ci": ci, "ver": ver, "S": S, "SO": SO, "listed": listed, "data": data, "sec": sec, "calls": calls}

    def call(self, E, st):
        try:
            return E.call(E.getattr_(st["ci"].fields["variants"], "deserialize"), [st["data"]])
        finally:
            for k in self._stubs:
                E.summaries.pop(k, None)

    def post(self, E, st, out):
        if out.kind == "raise":
            return {"selection_does_not_fail_for_wellformed_version": False}
        v = version_parts(E, st["ver"])
        legacy = lt(v, (1, 0))
        reads = [c for c in st["calls"] if c[0] == "deserialize"]
        adds = [c for c in st["calls"] if c[0] == "add"]
        uids = [c[2][1] for c in reads]
        from_section = all(c[2][0] is st["sec"] for c in reads)
        paired = len(adds) == len(reads) and all(a[2][0] is r[1] for a, r in zip(adds, reads))
        only_S = len(uids) == 1 and _veq(uids[0], st["S"])
        both = len(uids) == 2 and And(_veq(uids[0], st["S"]), _veq(uids[1], st["SO"]))        # S < S-O in every ordering
        if st["listed"]:
            sel = only_S
        else:
            sel = And(Implies(legacy, only_S), Implies(Not(legacy), both)) if (only_S is not False or both is not False) else False
        return {"selection_does_not_fail_for_wellformed_version": True,
                "top_level_uids_as_documented_for_every_version": sel,
                "each_read_from_the_variants_section_and_registered_once": from_section and paired}

    def concretise(self, model, st):
        return {"version": concretise.value_of(model, st["ver"]), "S": concretise.value_of(model, st["S"]),
                "SO": concretise.value_of(model, st["SO"]), "listed": st["listed"]}

    def sample_inputs(self, rng):
        for ver in ("0.0", "0.3", "0.9", "1.0", "1.1", "1.2", "2.0", "0.10"):
            for listed in (False, True):
                yield {"version": ver, "S": "Server", "SO": "Server-optional", "listed": listed}

    def native_eval(self, inputs):
        import re
        from pyvc.verify import native_call
        CI = self.src.mods["composeinfo"]
        ci = CI.ComposeInfo()
        ci.header.version = inputs["version"]
        if not re.match(r"^\d+\.\d+$", inputs["version"]):
            return ("skip", None), None
        calls = []
        orig = CI.Variant.deserialize
        CI.Variant.deserialize = lambda self_, d, uid: calls.append(("deserialize", self_, d, uid))
        ci.variants.add = lambda v, **kw: calls.append(("add", v))
        S, SO = inputs["S"], inputs["SO"]
        sec = {S: dict({"uid": S}, **({"variants": [SO[len(S) + 1:]]} if inputs["listed"] else {})), SO: {"uid": SO}}
        try:
            nat = native_call(ci.variants.deserialize, {"variants": sec})
        finally:
            CI.Variant.deserialize = orig
        if nat[0] == "raise":
            return nat, {"selection_does_not_fail_for_wellformed_version": False}
        legacy = tuple(int(x) for x in inputs["version"].split(".")) < (1, 0)
        reads = [c for c in calls if c[0] == "deserialize"]
        adds = [c for c in calls if c[0] == "add"]
        uids = [c[3] for c in reads]
        exp = [S] if (inputs["listed"] or legacy) else [S, SO]
        return nat, {"selection_does_not_fail_for_wellformed_version": True,
                     "top_level_uids_as_documented_for_every_version": uids == exp,
                     "each_read_from_the_variants_section_and_registered_once": all(c[2] is sec for c in reads) and
                     len(adds) == len(reads) and all(a[1] is r[1] for a, r in zip(adds, reads))}

    def describe(self, inputs):
        return "composeinfo Variants.deserialize of a version %r document with variants %r and %r (%s)" % (
            inputs["version"], inputs["S"], inputs["SO"], "listed as child" if inputs["listed"] else "not listed as child")


class LegacyChildren(Contract):
    """composeinfo Variant.deserialize(section, P) on the section {P: rec, P-C: rec, Q: rec} for EVERY header version, P a top-level UID with
    or without a dash (the documented 'Server-optional' style: id is the UID without dashes), C and Q plain ids, Q not under P: before 1.0
    parentage is implied by the UID prefix, so P-C is read as P's child (and registered with P as its parent) although no record lists it;
    from 1.0 on only explicitly listed children are read.  Q is never read as a child.  validate / add / the path reader are recorded
    (their own contracts)."""
    name = "productmd.composeinfo.Variant.deserialize[children by UID prefix before 1.0]"
    key = "gate:composeinfo.Variant.deserialize.children"

    def __init__(self, src, T):
        self.src, self.T = src, T

    def setup(self, E):
        from pyvc.engine import Entry
        ci = E.instantiate(("composeinfo", "ComposeInfo"))
        ver = SV(sym.Val.VStr(z3.Const("hdr.version", sym.S)))
        ci.fields["header"].fields["version"] = ver
        E.assume(F.valid_header(self.T, ci.fields["header"]))
        P = SV(sym.Val.VStr(z3.Const("doc.P", sym.S)))
        C = SV(sym.Val.VStr(z3.Const("doc.C", sym.S)))
        Q = SV(sym.Val.VStr(z3.Const("doc.Q", sym.S)))
        E.assume(And(sym.in_lang(P, r"[A-Za-z0-9]+(-[A-Za-z0-9]+)?"), sym.in_lang(C, r"[A-Za-z0-9]+"), sym.in_lang(Q, r"[A-Za-z0-9]+")))
        PC = sym.concat(P, "-", C)
        E.assume(And(Not(eq(Q, P)), sym.as_bool(z3.Not(z3.PrefixOf(sym.sstr(sym.concat(P, "-")), sym.sstr(Q))))))
        listed = bool(E.decide(E.fresh("P_lists_C_as_child", z3.BoolSort())))

        def D(items):
            d = E.models.new_dict("doc")
            for k, v in items:
                d.entries.append(Entry(k, True, v))
            return d

        def rec(uid, vid, extra=()):
            return D([("id", vid), ("uid", uid), ("name", "n"), ("type", "variant"), ("arches", ["x86_64"]), ("paths", D([]))] + list(extra))
        order = [(P, rec(P, "p", [("variants", [C])] if listed else [])), (PC, rec(PC, C)), (Q, rec(Q, Q))]
        if E.decide(E.fresh("document_order_reversed", z3.BoolSort())):
            order.reverse()
        sec = D(order)
        calls = []

        def mk(n):
            def summ(E_, obj, args, kwargs):
                calls.append((n, obj, list(args)))
                return None
            return summ
        self._stubs = [(("composeinfo", "Variant"), "validate"), (("composeinfo", "VariantBase"), "add"), (("composeinfo", "Variant"), "add"),
                       (("composeinfo", "VariantPaths"), "deserialize")]
        for k in self._stubs:
            E.summaries[k] = mk(k[1])
        v = E.instantiate(("composeinfo", "Variant"), [ci])
        return {"ci": ci, "ver": ver, "P": P, "PC": PC, "Q": Q, "C": C, "listed": listed, "sec": sec, "calls": calls, "v": v}

    def call(self, E, st):
        try:
            return E.call(E.getattr_(st["v"], "deserialize"), [st["sec"], st["P"]])
        finally:
            for k in self._stubs:
                E.summaries.pop(k, None)

    def post(self, E, st, out):
        if out.kind == "raise":
            return {"reader_does_not_fail_on_wellformed_section": False}
        legacy = lt(version_parts(E, st["ver"]), (1, 0))
        adds = [c for c in st["calls"] if c[0] == "add" and c[1] is st["v"]]
        other = [c for c in st["calls"] if c[0] == "add" and c[1] is not st["v"]]
        one = len(adds) == 1 and isinstance(adds[0][2][0], Obj) and And(_veq(adds[0][2][0].fields.get("uid"), st["PC"]),
                                                                       adds[0][2][0].fields.get("parent") is st["v"])
        none = len(adds) == 0
        if st["listed"]:
            sel = one
        else:
            sel = And(Implies(legacy, one), Implies(Not(legacy), none)) if (one is not False or none is not False) else False
        return {"reader_does_not_fail_on_wellformed_section": True,
                "children_are_the_prefixed_uids_before_1_0_and_the_listed_ones_after": sel,
                "nothing_registered_below_the_child": len(other) == 0}

    def concretise(self, model, st):
        return {"version": concretise.value_of(model, st["ver"]), "P": concretise.value_of(model, st["P"]),
                "C": concretise.value_of(model, st["C"]), "Q": concretise.value_of(model, st["Q"]), "listed": st["listed"]}

    def sample_inputs(self, rng):
        for ver in ("0.0", "0.3", "0.9", "1.0", "1.1", "2.0"):
            for listed in (False, True):
                for P in ("Server", "Server-Tools", "A-b"):
                    yield {"version": ver, "P": P, "C": "optional", "Q": "Client", "listed": listed}

    def native_eval(self, inputs):
        import re
        from pyvc.verify import native_call
        CI = self.src.mods["composeinfo"]
        ci = CI.ComposeInfo()
        ci.header.version = inputs["version"]
        P, C, Q = inputs["P"], inputs["C"], inputs["Q"]
        if not re.match(r"^\d+\.\d+$", inputs["version"]) or Q == P or Q.startswith(P + "-"):
            return ("skip", None), None

        def rec(uid, vid, extra=()):
            return dict([("id", vid), ("uid", uid), ("name", "n"), ("type", "variant"), ("arches", ["x86_64"]), ("paths", {})] + list(extra))
        sec = {P: rec(P, P.replace("-", ""), [("variants", [C])] if inputs["listed"] else []), P + "-" + C: rec(P + "-" + C, C), Q: rec(Q, Q)}
        v = CI.Variant(ci)
        nat = native_call(v.deserialize, sec, P)
        if nat[0] == "raise":
            return nat, {"reader_does_not_fail_on_wellformed_section": False}
        legacy = tuple(int(x) for x in inputs["version"].split(".")) < (1, 0)
        kids = sorted(c.uid for c in v.variants.values())
        exp = [P + "-" + C] if (legacy or inputs["listed"]) else []
        return nat, {"reader_does_not_fail_on_wellformed_section": True,
                     "children_are_the_prefixed_uids_before_1_0_and_the_listed_ones_after":
                     kids == exp and all(c.parent is v for c in v.variants.values()),
                     "nothing_registered_below_the_child": all(len(c.variants) == 0 for c in v.variants.values())}

    def describe(self, inputs):
        return "composeinfo Variant.deserialize(section, %r) of a version %r section with variants %r, %r, %r (%s)" % (
            inputs["P"], inputs["version"], inputs["P"], inputs["P"] + "-" + inputs["C"], inputs["Q"],
            "child listed" if inputs["listed"] else "child not listed")


class ComposeLegacyRead(Contract):
    """composeinfo Compose.deserialize on a compose section with EVERY key present and symbolic, for EVERY header version: id, label and
    final always come from their keys; before 0.3 date, type and respin are DECODED FROM THE ID (the informational 'type' key of such
    documents is not authoritative), from 0.3 on they are the 'date' / 'type' / 'respin' keys.  get_date_type_respin is used through its
    contract (fn:composeinfo.get_date_type_respin: an uninterpreted triple here), validate is recorded."""
    name = "productmd.composeinfo.Compose.deserialize[fields by version]"
    key = "gate:composeinfo.Compose.deserialize.fields"

    def __init__(self, src, T):
        self.src, self.T = src, T

    def setup(self, E):
        from pyvc.engine import Entry
        ci = E.instantiate(("composeinfo", "ComposeInfo"))
        ver = SV(sym.Val.VStr(z3.Const("hdr.version", sym.S)))
        ci.fields["header"].fields["version"] = ver
        E.assume(F.valid_header(self.T, ci.fields["header"]))
        d = {}
        for k in ("id", "type", "date", "label"):
            d[k] = SV(sym.Val.VStr(z3.Const("sec.%s" % k, sym.S)))
        d["respin"] = SV(sym.Val.VInt(z3.Int("sec.respin")))
        d["final"] = SV(sym.Val.VBool(z3.Bool("sec.final")))
        sec = E.models.new_dict("compose")
        for k, v in d.items():
            sec.entries.append(Entry(k, True, v))
        data = E.models.new_dict("doc")
        data.entries.append(Entry("compose", True, sec))
        dec = {"date": SV(sym.Val.VStr(z3.Const("decoded.date", sym.S))), "type": SV(sym.Val.VStr(z3.Const("decoded.type", sym.S))),
               "respin": SV(sym.Val.VInt(z3.Int("decoded.respin")))}
        seen = []

        def decode(E_, args, kwargs):
            seen.append(args[0])
            return (dec["date"], dec["type"], dec["respin"])
        E.func_summaries[("composeinfo", "get_date_type_respin")] = decode
        E.summaries[(("composeinfo", "Compose"), "validate")] = lambda E_, o, a, k: None
        return {"c": ci.fields["compose"], "ver": ver, "d": d, "dec": dec, "data": data, "seen": seen}

    def call(self, E, st):
        try:
            return E.call(E.getattr_(st["c"], "deserialize"), [st["data"]])
        finally:
            E.func_summaries.pop(("composeinfo", "get_date_type_respin"), None)
            E.summaries.pop((("composeinfo", "Compose"), "validate"), None)

    def post(self, E, st, out):
        if out.kind == "raise":
            return {"complete_section_is_read": False}
        f = st["c"].fields
        d, dec = st["d"], st["dec"]
        legacy = lt(version_parts(E, st["ver"]), (0, 3))
        decoded_from_own_id = len(st["seen"]) == 0 or all(_veq(x, d["id"]) for x in st["seen"])

        def pick(k):
            return And(Implies(legacy, _veq(f.get(k), dec[k])), Implies(Not(legacy), _veq(f.get(k), d[k])))
        return {"complete_section_is_read": True,
                "id_label_final_from_their_keys": And(_veq(f.get("id"), d["id"]), _veq(f.get("label"), If(eq(d["label"], ""), None, d["label"])),
                                                      _veq(f.get("final"), d["final"])),
                "date_type_respin_decoded_from_id_before_0_3_else_from_keys": And(pick("date"), pick("type"), pick("respin"),
                                                                                  Implies(legacy, len(st["seen"]) > 0), decoded_from_own_id)}

    def concretise(self, model, st):
        inp = dict((k, concretise.value_of(model, v)) for k, v in st["d"].items())
        inp["version"] = concretise.value_of(model, st["ver"])
        return inp

    def sample_inputs(self, rng):
        for ver in ("0.0", "0.2", "0.3", "1.0", "1.2"):
            for cid, typ in (("F-22-20150522.t.3", "test"), ("F-22-20150522.t.3", "production"), ("F-22-20150522.n.0", "test"),
                             ("F-22-20150522.0", "nightly")):
                yield {"version": ver, "id": cid, "type": typ, "date": "20010101", "respin": 7, "label": "", "final": False}

    def native_eval(self, inputs):
        import re
        from pyvc.verify import native_call
        CI = self.src.mods["composeinfo"]
        ci = CI.ComposeInfo()
        ci.header.version = inputs["version"]
        if not re.match(r"^\d+\.\d+$", inputs["version"]):
            return ("skip", None), None
        try:
            dec = CI.get_date_type_respin(inputs["id"])
        except Exception:
            return ("skip", None), None
        c = ci.compose
        c.validate = lambda: None
        sec = dict((k, inputs[k]) for k in ("id", "type", "date", "respin", "label", "final"))
        nat = native_call(c.deserialize, {"compose": sec})
        if nat[0] == "raise":
            return nat, {"complete_section_is_read": False}
        legacy = tuple(int(x) for x in inputs["version"].split(".")) < (0, 3)
        exp = dec if legacy else (inputs["date"], inputs["type"], inputs["respin"])
        return nat, {"complete_section_is_read": True,
                     "id_label_final_from_their_keys": c.id == inputs["id"] and c.label == (inputs["label"] or None) and c.final == bool(inputs["final"]),
                     "date_type_respin_decoded_from_id_before_0_3_else_from_keys": (c.date, c.type, c.respin) == tuple(exp)}

    def describe(self, inputs):
        return "composeinfo Compose.deserialize of a version %r compose section %r" % (
            inputs["version"], dict((k, inputs[k]) for k in ("id", "type", "date", "respin", "label", "final")))


def contracts(src, T):
    return [Gate(src, T, g) for g in GATES] + [HeaderRead(src, T, "common"), HeaderRead(src, T, "treeinfo"), ImagesLoadGate(src, T), ImagesLoadAny(src, T), VariantsTopLevelGate(src, T), LegacyChildren(src, T), ComposeLegacyRead(src, T)]
