"""C05 version gates: every reader that dispatches on the document's format version takes the documented branch for EVERY version
(the version string is symbolic, so both sides of every threshold are covered)."""
import z3

from pyvc import sym, concretise
from pyvc.sym import And, Or, Not, Implies, If, eq, SV, is_str
from pyvc.engine import SymDict, ExcVal, Obj, PyRaise
from pyvc.verify import Contract, Outcome
from spec import fields as F
from .sections import version_parts, _veq


def lt(v, t):
    a, b = sym.sint(v[0]), sym.sint(v[1])
    return sym.as_bool(z3.Or(a < t[0], z3.And(a == t[0], b < t[1])))


def le(v, t):
    a, b = sym.sint(v[0]), sym.sint(v[1])
    return sym.as_bool(z3.Or(a < t[0], z3.And(a == t[0], b <= t[1])))


def eqv(v, t):
    a, b = sym.sint(v[0]), sym.sint(v[1])
    return sym.as_bool(z3.And(a == t[0], b == t[1]))


# (module, holder class, attribute path to the object, class of the object, method, [(documented condition on version, callee)], default callee)
GATES = [
    ("composeinfo", "ComposeInfo", "compose", ("composeinfo", "Compose"), "deserialize",
     [(lambda v: lt(v, (0, 3)), "deserialize_0_3")], "deserialize_1_0", "compose fields derived from the id  <=>  version < 0.3"),
    ("composeinfo", "ComposeInfo", "release", ("composeinfo", "Release"), "deserialize",
     [(lambda v: le(v, (0, 3)), "deserialize_0_3")], "deserialize_1_0", "'product' section  <=>  version <= 0.3"),
    ("rpms", "Rpms", None, ("rpms", "Rpms"), "deserialize",
     [(lambda v: le(v, (0, 3)), "deserialize_0_3")], "deserialize_1_0", "rpms 'manifest' dialect  <=>  version <= 0.3"),
    ("treeinfo", "TreeInfo", "release", ("treeinfo", "Release"), "deserialize",
     [(lambda v: eqv(v, (0, 0)), "deserialize_0_0"), (lambda v: le(v, (0, 3)), "deserialize_0_3")], "deserialize_1_0",
     "pre-productmd [general]  <=>  0.0; 'product' section  <=>  <= 0.3"),
    ("treeinfo", "TreeInfo", "tree", ("treeinfo", "Tree"), "deserialize",
     [(lambda v: eqv(v, (0, 0)), "deserialize_0_0")], "deserialize_1_0", "pre-productmd tree  <=>  0.0"),
    ("treeinfo", "TreeInfo", "media", ("treeinfo", "Media"), "deserialize",
     [(lambda v: eqv(v, (0, 0)), "deserialize_0_0")], "deserialize_1_0", "[general] discnum/totaldiscs  <=>  0.0"),
]


class Gate(Contract):
    def __init__(self, src, T, spec):
        self.src, self.T, self.spec = src, T, spec
        mod, holder, attr, cls, meth, branches, default, doc = spec
        self.name = "productmd.%s.%s.%s[version gate]" % (cls[0], cls[1], meth)
        self.key = "gate:%s.%s.%s" % (cls[0], cls[1], meth)

    def setup(self, E):
        mod, holder, attr, cls, meth, branches, default, doc = self.spec
        top = E.instantiate((mod, holder))
        ver = SV(sym.Val.VStr(z3.Const("hdr.version", sym.S)))
        top.fields["header"].fields["version"] = ver
        E.assume(F.valid_header(self.T, top.fields["header"]))
        o = top.fields[attr] if attr else top
        calls = []
        names = [b[1] for b in branches] + [default]

        def mk(n):
            def summ(E_, obj, args, kwargs):
                calls.append(n)
                return None
            return summ
        for n in names:
            E.summaries[(cls, n)] = mk(n)
        for extra in ("validate",):
            E.summaries[(cls, extra)] = mk(extra)
        if attr is None:
            # top-level reader: the header reader is not under test here
            E.summaries[(("common", "Header"), "deserialize")] = mk("header.deserialize")
        return {"top": top, "o": o, "ver": ver, "calls": calls, "names": names, "cls": cls}

    def call(self, E, st):
        mod, holder, attr, cls, meth, branches, default, doc = self.spec
        try:
            return E.call(E.getattr_(st["o"], meth), [SymDict("doc", closed=False)])
        finally:
            for n in st["names"] + ["validate"]:
                E.summaries.pop((cls, n), None)
            E.summaries.pop((("common", "Header"), "deserialize"), None)
            from . import sections
            sections.install_valid_summaries(E, self.src, self.T)

    def post(self, E, st, out):
        mod, holder, attr, cls, meth, branches, default, doc = self.spec
        if out.kind == "raise":
            return {"dispatch_does_not_fail_for_wellformed_version": False}
        v = version_parts(E, st["ver"])
        taken = [c for c in st["calls"] if c in st["names"]]
        cl = {"dispatch_does_not_fail_for_wellformed_version": True, "exactly_one_reader_runs": len(taken) == 1,
              "object_validated_after_reading": st["calls"][-1:] == ["validate"] or (attr is None and "validate" in st["calls"])}
        earlier = []
        conds = []
        for cond, callee in branches:
            c = And(cond(v), *[Not(e) for e in earlier])
            conds.append((c, callee))
            earlier.append(cond(v))
        conds.append((And(*[Not(e) for e in earlier]), default))
        cl["documented_reader_for_every_version"] = And(*[Implies(c, taken == [callee]) for c, callee in conds])
        if attr is None:
            cl["version_current_after_load"] = st["top"].fields["header"].fields["version"] == "%d.%d" % self.T.VERSION
        return cl

    def concretise(self, model, st):
        return None

    def native_eval(self, inputs):
        raise NotImplementedError


class HeaderRead(Contract):
    """Header.deserialize: returns iff the version is `digits.digits` and, from 1.1 on, the document's type equals the class's type;
    the version read is the document's."""

    def __init__(self, src, T, module):
        self.src, self.T, self.module = src, T, module
        self.name = "productmd.%s.Header.deserialize" % module
        self.key = "de:%s.Header" % module

    def setup(self, E):
        if self.module == "common":
            h = E.instantiate(("common", "Header"), [None, "productmd.composeinfo"])
            doc = SymDict("doc", closed=False)
            return {"h": h, "doc": doc, "mt": "productmd.composeinfo"}
        from pyvc import effects
        from .tisections import _new_parser
        h = E.instantiate(("treeinfo", "Header"), [None, "productmd.treeinfo"])
        parser = _new_parser(E)
        effects.make_symbolic_parser(E, parser)
        return {"h": h, "doc": parser, "mt": "productmd.treeinfo"}

    def call(self, E, st):
        return E.call(E.getattr_(st["h"], "deserialize"), [st["doc"]])

    def _doc_values(self, E, st):
        if self.module == "common":
            e = E.models.sd_lookup(st["doc"], "header")
            if not E.models.sd_present(e):
                return None
            hd = E.models.as_dict(e.value)
            if hd is None:
                return None
            ev = E.models.sd_lookup(hd, "version")
            et = E.models.sd_lookup(hd, "type")
            return ev, et
        from pyvc import effects
        secs = effects.parser_sections(E, st["doc"])
        e = E.models.sd_lookup(secs, "header")
        if not E.models.sd_present(e):
            return "nosection"
        hd = e.value if isinstance(e.value, SymDict) else E.models.as_dict(e.value)
        return E.models.sd_lookup(hd, "version"), E.models.sd_lookup(hd, "type")

    def post(self, E, st, out):
        dv = self._doc_values(E, st)
        h = st["h"]
        if dv is None or dv == "nosection":
            if self.module == "treeinfo" and dv == "nosection":
                # documented legacy fallback: a file without [header] is read as a pre-productmd (0.0) tree
                if out.kind == "raise":
                    return {"missing_header_is_legacy_fallback": False}
                return {"missing_header_is_legacy_fallback": _veq(h.fields["version"], "0.0")}
            return {"missing_header_rejected": out.kind == "raise"}
        ev, et = dv
        if self.module == "treeinfo" and not E.models.sd_present(ev):
            if out.kind == "raise":
                return {"missing_header_is_legacy_fallback": False}
            return {"missing_header_is_legacy_fallback": _veq(h.fields["version"], "0.0")}
        if not E.models.sd_present(ev):
            return {"missing_version_rejected": out.kind == "raise"}
        ver = ev.value
        pseudo = Obj(h.cls, "p", 0)
        pseudo.fields = {"version": ver}
        wf = F.valid_header(self.T, pseudo)
        if E.decide(wf):
            v = version_parts(E, ver)
            from11 = Not(lt(v, (1, 1)))
        else:
            from11 = False
        type_ok = And(et.present, _veq(et.value, st["mt"]))
        accept = And(wf, Implies(from11, type_ok))
        if out.kind == "raise":
            return {"rejects_only_malformed_version_or_foreign_type": Not(accept)}
        return {"accepts_only_wellformed_version_and_own_type_from_1_1": accept,
                "version_is_the_documents": _veq(h.fields["version"], ver)}

    def concretise(self, model, st):
        return None

    def native_eval(self, inputs):
        raise NotImplementedError


def contracts(src, T):
    return [Gate(src, T, g) for g in GATES] + [HeaderRead(src, T, "common"), HeaderRead(src, T, "treeinfo")]
