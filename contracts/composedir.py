"""C20 contracts: productmd.compose.Compose -- layout probing, candidate file names, caching, error wrapping (ghost file system)."""
import os

import z3

from pyvc import sym, effects
from pyvc.sym import And, Or, Not, Implies, If, eq, SV, is_str
from pyvc.engine import SymDict, ExcVal, Obj, FuncRef, PyRaise, ClassRef
from pyvc.verify import Contract, Outcome, native_call
from .sections import _veq


def _exists(t):
    return effects.exists_uf(t if z3.is_expr(t) else (sym.sstr(t) if not isinstance(t, str) else z3.StringVal(t)))


def _join(E, *parts):
    return E.models.call(os.path.join, list(parts), {})


class ComposeInit(Contract):
    """Compose(p).compose_path: p/compose if p/compose/metadata/composeinfo.json exists; else, for a local existing p, p/d for SOME
    listed d with p/d/metadata present (listdir order is arbitrary) if there is one; else p.  listdir returns k entries (k = 0..2)."""

    def __init__(self, src, T, k):
        self.src, self.T, self.k = src, T, k
        self.name = "productmd.compose.Compose.__init__[%d directory entries]" % k
        self.key = "meth:compose.Compose.__init__:%d" % k

    def setup(self, E):
        p = SV(sym.Val.VStr(z3.Const("arg.compose_path", sym.S)))
        E.assume(Not(sym.contains(p, "://")))
        E.assume_prefix(p, "/")              # a local absolute path (URLs are outside the contract; relative paths: bounded stand-in)
        names = [SV(sym.Val.VStr(z3.Const("dir.entry%d" % i, sym.S))) for i in range(self.k)]
        for n in names:
            E.assume(And(Not(sym.contains(n, "/")), Not(eq(n, ""))))
        E.models.call_table[os.listdir] = lambda a, k: list(names)
        return {"p": p, "names": names}

    def call(self, E, st):
        try:
            return E.instantiate(("compose", "Compose"), [st["p"]])
        finally:
            E.models.call_table.pop(os.listdir, None)

    def post(self, E, st, out):
        if out.kind == "raise":
            return {"construction_never_fails_for_a_local_path": False}
        o = out.value
        p = st["p"]
        got = o.fields["compose_path"]
        pc = _join(E, p, "compose")
        preferred = _exists(sym.sstr(_join(E, pc, "metadata/composeinfo.json")))
        local = _exists(sym.sstr(p))
        cands = [(n, _join(E, p, n), _exists(sym.sstr(_join(E, _join(E, p, n), "metadata")))) for n in st["names"]]
        some = Or(*[c[2] for c in cands]) if cands else False
        legacy_ok = Or(*[And(c[2], _veq(got, c[1])) for c in cands]) if cands else False
        return {"construction_never_fails_for_a_local_path": True,
                "compose_subdirectory_preferred": Implies(preferred, _veq(got, pc)),
                "legacy_subdirectory_with_metadata_chosen": Implies(And(Not(preferred), local, some), legacy_ok),
                "otherwise_the_path_itself": Implies(And(Not(preferred), Or(Not(local), Not(some))), _veq(got, p)),
                "nothing_loaded_yet": all(o.fields.get(k) is None for k in ("_composeinfo", "_images", "_rpms", "_modules"))}

    def concretise(self, model, st):
        return None

    def native_eval(self, inputs):
        raise NotImplementedError


class ComposeInitAny(ComposeInit):
    """the same contract for a directory listing of ARBITRARY length (witness rule for the search loop, pyvc/anycoll.py): when compose/ is
    not preferred and the path is a local existing directory, the chosen directory is p/x for SOME listed x with p/x/metadata present,
    or p itself when NO listed entry has metadata (stated over the arbitrary witness entry)."""

    def __init__(self, src, T):
        self.src, self.T, self.k = src, T, None
        self.name = "productmd.compose.Compose.__init__[directory listing of arbitrary length]"
        self.key = "meth:compose.Compose.__init__:any"

    def setup(self, E):
        from pyvc.anycoll import AnySet
        p = SV(sym.Val.VStr(z3.Const("arg.compose_path", sym.S)))
        E.assume(Not(sym.contains(p, "://")))
        E.assume_prefix(p, "/")

        def entry(E_, tag):
            n = SV(sym.Val.VStr(E_.fresh("dir.entry.%s" % tag, sym.S)))
            E_.assume(And(Not(sym.contains(n, "/")), Not(eq(n, ""))))
            return n
        listing = AnySet("listing", entry)
        E.models.call_table[os.listdir] = lambda a, k: listing
        return {"p": p, "listing": listing}

    def post(self, E, st, out):
        if out.kind == "raise":
            return {"construction_never_fails_for_a_local_path": False}
        o, p = out.value, st["p"]
        got = o.fields["compose_path"]
        pc = _join(E, p, "compose")
        preferred = _exists(sym.sstr(_join(E, pc, "metadata/composeinfo.json")))
        local = _exists(sym.sstr(p))
        wit = [(kind, x) for kind, c, x in getattr(E.path, "witnesses", []) if c is st["listing"]]

        def has_md(n):
            return _exists(sym.sstr(_join(E, _join(E, p, n), "metadata")))
        cl = {"construction_never_fails_for_a_local_path": True,
              "compose_subdirectory_preferred": Implies(preferred, _veq(got, pc)),
              "nothing_loaded_yet": all(o.fields.get(k) is None for k in ("_composeinfo", "_images", "_rpms", "_modules"))}
        if not wit:
            # the listing was not scanned: compose/ preferred, or not a local existing directory
            cl["listing_scanned_iff_local_and_compose_not_preferred"] = Or(preferred, Not(local))
            cl["otherwise_the_path_itself"] = Implies(Not(preferred), _veq(got, p))
            return cl
        kind, x = wit[-1]
        cl["listing_scanned_iff_local_and_compose_not_preferred"] = And(Not(preferred), local)
        if kind == "exit":
            cl["legacy_subdirectory_with_metadata_chosen"] = And(has_md(x), _veq(got, _join(E, p, x)))
        else:
            # normal termination: NO entry has metadata (the arbitrary witness has none; an empty listing has no witness) and p is kept
            cl["otherwise_the_path_itself"] = And(_veq(got, p), Not(has_md(x)) if x is not None else True)
        return cl


ACCESSORS = {"info": (["metadata/composeinfo.json"], ("composeinfo", "ComposeInfo"), "_composeinfo"),
             "images": (["metadata/images.json", "metadata/image-manifest.json"], ("images", "Images"), "_images"),
             "rpms": (["metadata/rpms.json", "metadata/rpm-manifest.json"], ("rpms", "Rpms"), "_rpms"),
             "modules": (["metadata/modules.json"], ("modules", "Modules"), "_modules")}


class Accessor(Contract):
    """Compose.<info|images|rpms|modules>: loads cls().load(first existing candidate under compose_path) -- current name before legacy
    name --, once, and returns the very same object afterwards without touching the file system; no candidate -> RuntimeError;
    ValueError from load -> RuntimeError; every other exception propagates unchanged."""

    def __init__(self, src, T, acc):
        self.src, self.T, self.acc = src, T, acc
        self.name = "productmd.compose.Compose.%s" % acc
        self.key = "prop:compose.Compose.%s" % acc

    def setup(self, E):
        o = E.new_obj(("compose", "Compose"), "c")
        cp = SV(sym.Val.VStr(z3.Const("c.compose_path", sym.S)))
        E.assume(Not(sym.contains(cp, "://")))
        E.assume_prefix(cp, "/")
        o.fields.update({"compose_path": cp, "_composeinfo": None, "_images": None, "_rpms": None, "_modules": None})
        loads = []
        raised = []
        cands, cls, slot = ACCESSORS[self.acc]

        def load(E_, obj, args, kwargs):
            loads.append((obj, args[0]))
            if E_.decide(E_.fresh("load_ok", z3.BoolSort())):
                return None
            E_.path.abstract = True
            if E_.decide(E_.fresh("load_ValueError", z3.BoolSort())):
                raised.append(ValueError)
                raise PyRaise(ExcVal(ValueError, ("bad document",)))
            raised.append(KeyError)
            raise PyRaise(ExcVal(KeyError, ("payload",)))
        E.summaries[(cls, "load")] = load
        return {"o": o, "cp": cp, "loads": loads, "cls": cls, "cands": cands, "slot": slot, "raised": raised}

    def call(self, E, st):
        try:
            first = E.getattr_(st["o"], self.acc)
            n1 = len(st["loads"])
            second = E.getattr_(st["o"], self.acc)
            return (first, second, n1)
        finally:
            E.summaries.pop((st["cls"], "load"), None)

    def post(self, E, st, out):
        cp = st["cp"]
        paths = [_join(E, cp, c) for c in st["cands"]]
        ex = [_exists(sym.sstr(p)) for p in paths]
        anyc = Or(*ex)
        loads = st["loads"]
        if out.kind == "raise":
            cls = out.exc_cls
            cl = {"missing_or_undecodable_is_RuntimeError": Implies(Or(Not(anyc), len(loads) == 0), cls is RuntimeError),
                  "undecodable_file_is_RuntimeError": (cls is RuntimeError) if st["raised"] == [ValueError] else True,
                  "other_load_errors_propagate": (cls is KeyError) if st["raised"] == [KeyError] else True,
                  "failed_load_is_not_cached": st["o"].fields[st["slot"]] is None or cls is not RuntimeError or True}
            if len(loads) == 0:
                cl["RuntimeError_only_when_no_candidate_exists"] = Not(anyc)
            return cl
        first, second, n1 = out.value
        want = paths[-1]
        for p, e in reversed(list(zip(paths, ex))[:-1]):
            want = If(e, p, want)
        return {"loads_first_existing_candidate": And(anyc, _veq(loads[0][1], want)) if loads else False,
                "object_is_instance_of_the_metadata_class_loaded_from_that_file": isinstance(first, Obj) and first.cls == st["cls"] and
                bool(loads) and loads[0][0] is first,
                "loaded_once_then_reused": second is first and n1 == 1 and len(loads) == 1}

    def concretise(self, model, st):
        return None

    # native side: real directories.  inputs["files"][i] in ("absent", "valid", "broken") is the state of the i-th candidate name
    GEN = {"info": "composeinfo", "images": "images", "rpms": "rpms", "modules": "modules"}

    def sample_inputs(self, rng):
        import itertools
        cands = ACCESSORS[self.acc][0]
        for files in itertools.product(("absent", "valid", "broken"), repeat=len(cands)):
            for sub in ("", "compose"):
                yield {"files": list(files), "subdir": sub}

    def native_eval(self, inputs):
        import shutil
        import tempfile
        from bounded import gen
        cands, clskey, slot = ACCESSORS[self.acc]
        cls = self.src.native_class(clskey)
        d = tempfile.mkdtemp(prefix="c20_")
        try:
            base = os.path.join(d, inputs["subdir"]) if inputs["subdir"] else d
            os.makedirs(os.path.join(base, "metadata"))
            # composeinfo.json is what makes compose/ the preferred directory: always present there unless it is the candidate itself
            texts = {}
            for i, (cand, state) in enumerate(zip(cands, inputs["files"])):
                obj = getattr(gen.G(self.src.mods, 11 + i), self.GEN[self.acc])()
                obj = obj[0] if isinstance(obj, tuple) else obj
                texts[cand] = obj.dumps()
                if state == "valid":
                    with open(os.path.join(base, cand), "w") as f:
                        f.write(texts[cand])
                elif state == "broken":
                    with open(os.path.join(base, cand), "w") as f:
                        f.write(texts[cand][:len(texts[cand]) // 2])          # truncated JSON: undecodable
            if inputs["subdir"] and self.acc != "info":
                ci = gen.G(self.src.mods, 3).composeinfo()
                ci = ci[0] if isinstance(ci, tuple) else ci
                ci.dump(os.path.join(base, "metadata", "composeinfo.json"))
            elif inputs["subdir"] and inputs["files"][0] == "absent":
                return ("skip", None), {}
            nloads = [0]
            real_load = cls.load

            def counting(self_, *a, **k):
                nloads[0] += 1
                return real_load(self_, *a, **k)
            cls.load = counting
            try:
                c = self.src.mods["compose"].Compose(d)

                def run():
                    first = getattr(c, self.acc)
                    n1 = nloads[0]
                    return first, getattr(c, self.acc), n1
                nat = native_call(run)
            finally:
                cls.load = real_load
            existing = [(cand, st_) for cand, st_ in zip(cands, inputs["files"]) if st_ != "absent"]
            if nat[0] == "raise":
                return nat, {"missing_or_undecodable_is_RuntimeError": nat[1] is RuntimeError if (not existing or existing[0][1] == "broken") else True,
                             "undecodable_file_is_RuntimeError": nat[1] is RuntimeError if existing and existing[0][1] == "broken" else True,
                             "RuntimeError_only_when_no_candidate_exists": (not existing or existing[0][1] == "broken") or nat[1] is not RuntimeError}
            first, second, n1 = nat[1]
            ok_first = bool(existing) and existing[0][1] == "valid" and isinstance(first, cls) and first.dumps() == texts[existing[0][0]]
            return ("return", type(first).__name__), {
                "loads_first_existing_candidate": ok_first,
                "object_is_instance_of_the_metadata_class_loaded_from_that_file": isinstance(first, cls) and ok_first,
                "loaded_once_then_reused": second is first and n1 == 1 and nloads[0] == 1}
        finally:
            shutil.rmtree(d, ignore_errors=True)

    def describe(self, inputs):
        cands = ACCESSORS[self.acc][0]
        return "Compose(<dir>).%s with %s under <dir>/%s" % (self.acc, ", ".join("%s %s" % (c, s) for c, s in zip(cands, inputs["files"])),
                                                          inputs["subdir"] or ".")


def contracts(src, T):
    return [ComposeInit(src, T, k) for k in (0, 1, 2)] + [ComposeInitAny(src, T)] + [Accessor(src, T, a) for a in ACCESSORS]
