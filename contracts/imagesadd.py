"""C09 / C10 contracts: Images.add (arch refusal, identity scan, placement, frame), identify_image (object == serialised dict),
Images._add_1_1 (src re-filing).  Manifests hold k existing images at symbolic cells: bounded in the NUMBER of images,
unbounded in every attribute; checksum tables are abstract values compared by identity of their abstract content."""
import ast
import copy

import z3

from pyvc import sym, concretise
from pyvc.sym import And, Or, Not, Implies, If, eq, SV, is_none, is_str, truthy
from pyvc.engine import SymDict, ExcVal, Obj, FuncRef, PyRaise, Entry
from pyvc.verify import Contract, Outcome, native_call
from spec import fields as F
from .sections import _veq, _same, version_parts
from .validators import IMAGE_FIELDS
from pyvc.models import ListSet


def _members(c):
    return list(c.items) if isinstance(c, ListSet) else (list(c) if isinstance(c, (set, frozenset)) else None)


def _same_members(c, objs):
    m = _members(c)
    return m is not None and len(m) == len(objs) and all(any(x is o for x in m) for o in objs)

IDENT = ["subvariant", "type", "format", "arch", "disc_number", "unified"]       # + additional_variants (fixed [] here)


def _image(E, holder, tag):
    im = E.instantiate(("images", "Image"), [holder])
    f = {}
    for a in IDENT + ["checksums"]:
        v = SV(z3.Const("%s.%s" % (tag, a), sym.Val))
        E.assume(concretise.wellformed(v))
        im.fields[a] = v
        f[a] = v
    E.assume(And(is_str(f["subvariant"]), is_str(f["type"]), is_str(f["format"]), is_str(f["arch"]), sym.is_strict_int(f["disc_number"]),
                 sym.is_bool(f["unified"]), sym.is_kind(f["checksums"], sym.K_DICT)))
    im.fields["additional_variants"] = []
    return im, f


def same_identity(f, g):
    return And(*[eq(f[a], g[a]) for a in IDENT])


class ImagesAdd(Contract):
    def __init__(self, src, T, k):
        self.src, self.T, self.k = src, T, k
        self.name = "productmd.images.Images.add[%d existing images]" % k
        self.key = "meth:images.Images.add:%d" % k

    def setup(self, E):
        m = E.instantiate(("images", "Images"))
        ver = SV(sym.Val.VStr(z3.Const("hdr.version", sym.S)))
        m.fields["header"].fields["version"] = ver
        E.assume(F.valid_header(self.T, m.fields["header"]))
        images = E.models.new_dict("images")
        images.origin = "input"
        m.fields["images"] = images
        existing = []
        for i in range(self.k):
            v0 = SV(sym.Val.VStr(z3.Const("cell%d.variant" % i, sym.S)))
            a0 = SV(sym.Val.VStr(z3.Const("cell%d.arch" % i, sym.S)))
            im, f = _image(E, m, "img%d" % i)
            arches = E.models.new_dict("images[%d]" % i)
            arches.origin = "input"
            cell = set([im])
            arches.entries.append(Entry(a0, True, cell))
            images.entries.append(Entry(v0, True, arches))
            existing.append((v0, a0, im, f, cell))
        if self.k == 2:
            E.assume(Not(eq(existing[0][0], existing[1][0])))        # two variants (same-variant layouts are covered by k = 1 + placement)
        new, nf = _image(E, m, "new")
        a = {"variant": SV(sym.Val.VStr(z3.Const("arg.variant", sym.S))), "arch": SV(sym.Val.VStr(z3.Const("arg.arch", sym.S)))}
        return {"m": m, "images": images, "existing": existing, "new": new, "nf": nf, "a": a, "ver": ver, "mark": len(E.path.effects)}

    def call(self, E, st):
        return E.call(E.getattr_(st["m"], "add"), [st["a"]["variant"], st["a"]["arch"], st["new"]])

    def post(self, E, st, out):
        a, nf = st["a"], st["nf"]
        T = self.T
        arch_ok = And(sym.isin(a["arch"], T.RPM_ARCHES), Not(sym.isin(a["arch"], ["src", "nosrc"])))
        maj, mnr = version_parts(E, st["ver"])
        enforced = Or(sym.as_bool(sym.sint(maj) > 1), And(sym.as_bool(sym.sint(maj) == 1), sym.as_bool(sym.sint(mnr) >= 1)))
        clash = Or(*[And(same_identity(f, nf), Not(eq(f["checksums"], nf["checksums"]))) for _, _, _, f, _ in st["existing"]]) \
            if st["existing"] else False
        writes = [w for w in E.path.effects[st["mark"]:] if w[0] in ("dict_write", "list_write")
                  and not (isinstance(w[1], SymDict) and w[1].origin in ("code", "const"))]
        cells_same = True
        if out.kind == "raise":
            return {"refuses_with_ValueError": out.exc_cls is ValueError,
                    "refuses_only_bad_arch_or_identity_clash": Or(Not(arch_ok), And(enforced, clash)),
                    "refusal_changes_nothing": (not writes) and all(_same_members(cell, [im]) for _, _, im, _, cell in st["existing"])}
        # placement: the image is in images[variant][arch]
        tgt = self._cell(E, st["images"], a["variant"], a["arch"])
        placed = _members(tgt) is not None and any(x is st["new"] for x in _members(tgt))
        others = True
        for v0, a0, im, f, cell in st["existing"]:
            if cell is tgt:
                others = others and _same_members(cell, [im, st["new"]])
            else:
                others = others and _same_members(cell, [im])
        frame = []
        chain = [(st["images"], a["variant"])]
        e = E.models.sd_lookup(st["images"], a["variant"], create=False)
        if e is not None and isinstance(e.value, SymDict):
            chain.append((e.value, a["arch"]))
        for w in writes:
            if w[0] != "dict_write":
                frame.append(False)
                continue
            _, d, ent, had, oldv, newv = w
            lvl = [i for i, (cd, ck) in enumerate(chain) if cd is d]
            frame.append(bool(lvl) and _veq(ent.key, chain[lvl[0]][1]) if lvl else False)
            if lvl:
                frame.append(Not(had))
        return {"accepts_only_binary_known_arch": arch_ok,
                "accepts_only_without_identity_clash_from_1_1": Implies(enforced, Not(clash)),
                "image_filed_in_addressed_cell": placed,
                "every_other_cell_unchanged": And(others, *frame),
                # Uniq preserved: the new image does not break identity uniqueness against any existing image
                "identity_uniqueness_preserved": Implies(enforced, And(*[Implies(same_identity(f, nf), eq(f["checksums"], nf["checksums"]))
                                                                          for _, _, _, f, _ in st["existing"]]) if st["existing"] else True)}

    def _cell(self, E, images, v, a):
        e = E.models.sd_lookup(images, v, create=False)
        if e is None or e.present is not True or not isinstance(e.value, SymDict):
            return None
        e2 = E.models.sd_lookup(e.value, a, create=False)
        if e2 is None or e2.present is not True:
            return None
        return e2.value

    def _is_target(self, E, st, cell):
        return False

    def concretise(self, model, st):
        return None

    def sample_inputs(self, rng):
        import itertools
        attrs = [("S", "dvd", "iso", "x86_64", 1, False), ("S", "dvd", "iso", "x86_64", 2, False), ("K", "dvd", "iso", "x86_64", 1, False),
                 ("S", "dvd", "iso", "src", 1, True)]
        for ver in ("1.0", "1.1", "1.2", "0.0"):
            for ex, new in itertools.product(attrs, repeat=2):
                for same_cs in (True, False):
                    for arch in ("x86_64", "s390x", "src", "nosrc", "zzz"):
                        for var in ("Server", "Client"):
                            yield {"version": ver, "existing": ex, "new": new, "same_cs": same_cs, "arch": arch, "variant": var}

    def _mk(self, mod, parent, attrs, cs):
        im = mod.Image(parent)
        im.subvariant, im.type, im.format, im.arch, im.disc_number, im.unified = attrs
        im.checksums = cs
        im.path = "p/%s-%s" % (attrs[0], attrs[4])
        return im

    def native_eval(self, inputs):
        mod = self.src.mods["images"]
        m = mod.Images()
        m.header.version = inputs["version"]
        ex = self._mk(mod, m, inputs["existing"], {"sha256": "a"})
        m.images = {"Server": {"x86_64": set([ex])}}
        new = self._mk(mod, m, inputs["new"], {"sha256": "a"} if inputs["same_cs"] else {"sha256": "b"})
        nat = native_call(m.add, inputs["variant"], inputs["arch"], new)
        arch_ok = inputs["arch"] in self.T.RPM_ARCHES and inputs["arch"] not in ("src", "nosrc")
        enforced = tuple(int(x) for x in inputs["version"].split(".")) >= (1, 1)
        clash = inputs["existing"] == inputs["new"] and not inputs["same_cs"]
        if nat[0] == "raise":
            return nat, {"refuses_with_ValueError": nat[1] is ValueError,
                         "refuses_only_bad_arch_or_identity_clash": (not arch_ok) or (enforced and clash),
                         "refusal_changes_nothing": m.images == {"Server": {"x86_64": set([ex])}}}
        exp = {"Server": {"x86_64": set([ex])}}
        exp.setdefault(inputs["variant"], {}).setdefault(inputs["arch"], set()).add(new)
        return nat, {"accepts_only_binary_known_arch": arch_ok,
                     "accepts_only_without_identity_clash_from_1_1": (not enforced) or (not clash),
                     "image_filed_in_addressed_cell": new in m.images.get(inputs["variant"], {}).get(inputs["arch"], ()),
                     "every_other_cell_unchanged": m.images == exp,
                     "identity_uniqueness_preserved": (not enforced) or (not clash)}

    def describe(self, inputs):
        return "Images(version %s) holding %r under Server/x86_64; add(%r, %r, image %r, %s checksums)" % (
            inputs["version"], inputs["existing"], inputs["variant"], inputs["arch"], inputs["new"], "same" if inputs["same_cs"] else "different")



class ImagesAddAny(Contract):
    """Images.add(variant, arch, image) on a manifest of ARBITRARY size: any number of variants, arches and images per cell (pyvc/anycoll.py:
    the identity scan is verified by the witness rule, for every iteration order).  Accepted iff the arch is a known binary arch and --
    from format 1.1 on -- NO image anywhere in the manifest agrees with the new one on all identity attributes while differing in
    checksums; refused with ValueError otherwise, writing nothing; on success the image is added to the addressed cell and nothing else
    is written (upper levels created only when absent)."""
    name = "productmd.images.Images.add[manifest of arbitrary size]"
    key = "meth:images.Images.add:any"

    def __init__(self, src, T):
        self.src, self.T = src, T

    def setup(self, E):
        from pyvc.anycoll import AnyDict, AnySet
        m = E.instantiate(("images", "Images"))
        ver = SV(sym.Val.VStr(z3.Const("hdr.version", sym.S)))
        m.fields["header"].fields["version"] = ver
        E.assume(F.valid_header(self.T, m.fields["header"]))
        members = []

        def make_image(E_, tag):
            m0 = len(E_.path.effects)
            im, f = _image(E_, m, "member.%s.%d" % (tag, len(members)))
            del E_.path.effects[m0:]        # materialising a ghost member (running the real __init__) is not an effect of the code under test
            members.append((im, f))
            return im

        def make_cell(E_, key, tag):
            return AnySet("cell", make_image)

        def make_arches(E_, key, tag):
            return AnyDict("arches", make_cell)
        images = AnyDict("images", make_arches)
        m.fields["images"] = images
        new, nf = _image(E, m, "new")
        a = {"variant": SV(sym.Val.VStr(z3.Const("arg.variant", sym.S))), "arch": SV(sym.Val.VStr(z3.Const("arg.arch", sym.S)))}
        return {"m": m, "images": images, "members": members, "new": new, "nf": nf, "a": a, "ver": ver, "mark": len(E.path.effects)}

    def call(self, E, st):
        return E.call(E.getattr_(st["m"], "add"), [st["a"]["variant"], st["a"]["arch"], st["new"]])

    def post(self, E, st, out):
        from pyvc.anycoll import AnyDict, AnySet
        a, nf, T = st["a"], st["nf"], self.T
        arch_ok = And(sym.isin(a["arch"], T.RPM_ARCHES), Not(sym.isin(a["arch"], ["src", "nosrc"])))
        maj, mnr = version_parts(E, st["ver"])
        enforced = Or(sym.as_bool(sym.sint(maj) > 1), And(sym.as_bool(sym.sint(maj) == 1), sym.as_bool(sym.sint(mnr) >= 1)))
        wit = getattr(E.path, "witnesses", [])
        fields = dict((id(im), f) for im, f in st["members"])

        def clash(im):
            f = fields[id(im)]
            return And(same_identity(f, nf), Not(eq(f["checksums"], nf["checksums"])))
        from pyvc.verify import _reach
        pre = _reach(st)
        # writes to the manifest (any_write) or to any object that existed before the call; temporaries of the callees do not count
        writes = [w for w in E.path.effects[st["mark"]:] if w[0] == "any_write" or
                  (w[0] in ("dict_write", "list_write", "set_write", "attr_write") and id(w[1]) in pre)]
        if out.kind == "raise":
            # the member the scan was left at (the innermost exit witness is an image) is the existential witness of the clash
            ex = [x for kind, coll, x in wit if kind == "exit" and isinstance(x, Obj)]
            some_clash = clash(ex[-1]) if ex else False
            return {"refuses_with_ValueError": out.exc_cls is ValueError,
                    "refuses_only_bad_arch_or_identity_clash": Or(Not(arch_ok), And(enforced, some_clash)),
                    "refusal_changes_nothing": not writes}
        # normal return: the arbitrary member of an arbitrary cell (the 'all' witnesses) does not clash -- i.e. no member does
        images = st["images"]

        # the scan must have covered the WHOLE manifest: an arbitrary variant key of the manifest, an arbitrary arch key of THAT variant's
        # table, an arbitrary member of THAT cell (or an empty level on the way).  Witnesses taken from anything narrower -- one arch
        # only, one variant only -- do not speak for every image.
        def value_at(d, k):
            for ent in d.known:
                if ent[0] is k and ent[1] is True:
                    return ent[2]
            return None

        def whole_scan():
            coll = images
            for kind_ in (AnyDict, AnyDict, AnySet):
                ws = [x for kind, c_, x in wit if kind == "all" and c_ is coll]
                if not ws or not isinstance(coll, kind_):
                    return False, None
                x = ws[-1]
                if x is None:
                    return True, None           # this level is empty: nothing below it to compare with
                if kind_ is AnySet:
                    return True, x
                coll = value_at(coll, x)
            return False, None
        ran, wimg = whole_scan()
        no_clash = Not(clash(wimg)) if wimg is not None else True
        tgt = None
        ent = getattr(images, "resolved", {}).get(id(a["variant"]))
        if ent is not None and ent[1] is True:
            inner = ent[2]
            if isinstance(inner, AnyDict):
                e2 = getattr(inner, "resolved", {}).get(id(a["arch"]))
                tgt = e2[2] if e2 is not None and e2[1] is True else None
            elif isinstance(inner, SymDict):
                e2 = E.models.sd_lookup(inner, a["arch"], create=False)
                tgt = e2.value if e2 is not None and e2.present is True else None
        if isinstance(tgt, AnySet):
            placed = any(x is st["new"] for x in tgt.added)
        else:
            placed = _members(tgt) is not None and any(x is st["new"] for x in _members(tgt))
        # frame: the only writes are (a) the new image into the addressed cell, (b) creation of absent upper levels on the addressed chain
        ok_writes = []
        for w in writes:
            if w[0] == "any_write" and isinstance(w[1], AnySet):
                ok_writes.append(w[1] is tgt and w[3] is st["new"])
            elif w[0] == "any_write" and isinstance(w[1], AnyDict):
                # an absent level created on the addressed chain: images[variant] or images[variant][arch]
                ok_writes.append(w[2] is a["variant"] if w[1] is images else (w[2] is a["arch"] and ent is not None and w[1] is ent[2]))
            elif w[0] == "set_write":
                ok_writes.append(w[1] is tgt)
            else:
                ok_writes.append(False)
        return {"accepts_only_binary_known_arch": arch_ok,
                "accepts_only_without_identity_clash_from_1_1": Implies(enforced, And(no_clash, ran)),
                "image_filed_in_addressed_cell": placed,
                "nothing_else_written": And(*ok_writes) if ok_writes else False}

    def concretise(self, model, st):
        return None

    # native side (replays, bounded search): manifests with one existing image in a cell that varies (also a cell of ANOTHER variant /
    # arch than the one addressed, and source images whose own arch differs from the tree arch they are filed under)
    def sample_inputs(self, rng):
        import itertools
        attrs = [("S", "dvd", "iso", "x86_64", 1, False), ("S", "dvd", "iso", "x86_64", 2, False), ("K", "dvd", "iso", "x86_64", 1, False),
                 ("S", "dvd", "iso", "src", 1, True)]
        for ver in ("1.1", "1.2", "1.0"):
            for ex, new in itertools.product(attrs, repeat=2):
                for same_cs in (True, False):
                    for cell in (("Server", "x86_64"), ("Client", "s390x"), ("Server", "s390x")):
                        for arch, var in (("x86_64", "Server"), ("s390x", "Client"), ("src", "Server"), ("zzz", "Server")):
                            yield {"version": ver, "existing": ex, "new": new, "same_cs": same_cs, "cell": cell, "arch": arch, "variant": var}

    def native_eval(self, inputs):
        mod = self.src.mods["images"]
        mk = ImagesAdd._mk
        m = mod.Images()
        m.header.version = inputs["version"]
        ex = mk(self, mod, m, inputs["existing"], {"sha256": "a"})
        cv, ca = inputs["cell"]
        m.images = {cv: {ca: set([ex])}}
        new = mk(self, mod, m, inputs["new"], {"sha256": "a"} if inputs["same_cs"] else {"sha256": "b"})
        nat = native_call(m.add, inputs["variant"], inputs["arch"], new)
        arch_ok = inputs["arch"] in self.T.RPM_ARCHES and inputs["arch"] not in ("src", "nosrc")
        enforced = tuple(int(x) for x in inputs["version"].split(".")) >= (1, 1)
        clash = inputs["existing"] == inputs["new"] and not inputs["same_cs"]
        if nat[0] == "raise":
            return nat, {"refuses_with_ValueError": nat[1] is ValueError,
                         "refuses_only_bad_arch_or_identity_clash": (not arch_ok) or (enforced and clash),
                         "refusal_changes_nothing": m.images == {cv: {ca: set([ex])}}}
        exp = {cv: {ca: set([ex])}}
        exp.setdefault(inputs["variant"], {}).setdefault(inputs["arch"], set()).add(new)
        return nat, {"accepts_only_binary_known_arch": arch_ok,
                     "accepts_only_without_identity_clash_from_1_1": (not enforced) or (not clash),
                     "image_filed_in_addressed_cell": new in m.images.get(inputs["variant"], {}).get(inputs["arch"], ()),
                     "nothing_else_written": m.images == exp}

    def describe(self, inputs):
        return "Images(version %s) holding %r under %s/%s; add(%r, %r, image %r, %s checksums)" % (
            inputs["version"], inputs["existing"], inputs["cell"][0], inputs["cell"][1], inputs["variant"], inputs["arch"], inputs["new"],
            "same" if inputs["same_cs"] else "different")

class IdentifyObjEqDict(Contract):
    """identify_image(image) == identify_image(dict written by Image.serialize) for every valid image, and the identity is the
    7-tuple of UNIQUE_IMAGE_ATTRIBUTES with unified -> False and additional_variants -> [] defaults."""
    name = "productmd.images.identify_image(obj) == identify_image(serialised dict)"
    key = "lemma:images.identify_image"

    def __init__(self, src, T):
        self.src, self.T = src, T

    def setup(self, E):
        from .sections import _sv_fields, _mk_sym, SECTIONS
        s = SECTIONS["images.Image"]
        top, o = _mk_sym(E, s)
        f = _sv_fields(E, o, s.fields, "x")
        # additional_variants: an opaque list, or a concrete two-element list of symbolic names in caller order (the identity
        # compares this list in order, so a writer that reorders it changes the identity of the written record)
        if E.decide(E.fresh("two_additional_variants", z3.BoolSort())):
            av = [SV(sym.Val.VStr(z3.Const("x.additional_variant%d" % i, sym.S))) for i in (0, 1)]
            o.fields["additional_variants"] = list(av)
            f["additional_variants"] = av
        E.assume(s.valid(self.T, o))
        return {"o": o, "f": f}

    def call(self, E, st):
        lst = []
        E.call(E.getattr_(st["o"], "serialize"), [lst])
        fn = FuncRef("images", self.src.funcs[("images", "identify_image")])
        a = E.call(fn, [st["o"]])
        b = E.call(fn, [lst[0]])
        return (a, b)

    def post(self, E, st, out):
        if out.kind == "raise":
            return {"identity_computable": False}
        a, b = out.value
        f = st["f"]
        names = list(self.src.mods["images"].UNIQUE_IMAGE_ATTRIBUTES)
        doc = ["subvariant", "type", "format", "arch", "disc_number", "unified", "additional_variants"]
        cl = {"identity_computable": True, "identity_is_the_documented_attribute_tuple": names == doc and len(a) == 7}
        same = []
        for x, y in zip(a, b):
            same.append(_veq(x, y))
        cl["object_and_dict_identity_agree"] = And(*same) if len(a) == len(b) else False
        if len(a) == 7 and names == doc:
            cl["identity_components_are_the_attributes"] = And(*[_veq(a[i], f[n]) for i, n in enumerate(doc[:5])])
        return cl

    def concretise(self, model, st):
        def val(v):
            return [val(x) for x in v] if isinstance(v, list) else concretise.value_of(model, v)
        return dict((k, val(v)) for k, v in st["f"].items())

    def sample_inputs(self, rng):
        base = {"path": "a.iso", "mtime": 1, "size": 2, "volume_id": None, "type": "dvd", "format": "iso", "arch": "x86_64",
                "disc_number": 1, "disc_count": 1, "checksums": {"sha256": "a" * 64}, "implant_md5": None, "bootable": False,
                "subvariant": "S", "unified": False, "additional_variants": []}
        yield dict(base)
        for av in (["Workstation", "Client"], ["Client", "Workstation"], ["B", "A", "C"], ["A"]):
            yield dict(base, unified=True, additional_variants=av)
        yield dict(base, arch="src", subvariant="", disc_number=0)

    def native_eval(self, inputs):
        mod = self.src.mods["images"]
        m = mod.Images()
        im = mod.Image(m)
        for k, v in copy.deepcopy(inputs).items():
            setattr(im, k, v)
        try:
            im.validate()
        except Exception:
            return ("skip", None), None
        lst = []

        def run():
            im.serialize(lst)
            return mod.identify_image(im), mod.identify_image(lst[0])
        nat = native_call(run)
        if nat[0] == "raise":
            return nat, {"identity_computable": False}
        a, b = nat[1]
        doc = ["subvariant", "type", "format", "arch", "disc_number", "unified", "additional_variants"]
        names = list(mod.UNIQUE_IMAGE_ATTRIBUTES)
        cl = {"identity_computable": True, "identity_is_the_documented_attribute_tuple": names == doc and len(a) == 7,
              "object_and_dict_identity_agree": tuple(a) == tuple(b)}
        if len(a) == 7 and names == doc:
            cl["identity_components_are_the_attributes"] = all(_same(a[i], inputs[n]) for i, n in enumerate(doc[:5]))
        return nat, cl

    def describe(self, inputs):
        return "Image(%s): identify_image(object) vs identify_image(serialised record)" % ", ".join(
            "%s=%s" % (k, concretise.py_repr(v)) for k, v in inputs.items())


class Add11Refile(Contract):
    """Images._add_1_1(data, variant, arch, image): a 'src' image is added under every non-src arch of the same variant in the
    document and nowhere else; any other arch is added once under itself.  Document with arches {src, A, B} (A, B symbolic)."""
    name = "productmd.images.Images._add_1_1"
    key = "meth:images.Images._add_1_1"

    def __init__(self, src, T):
        self.src, self.T = src, T

    def setup(self, E):
        m = E.instantiate(("images", "Images"))
        A = SV(sym.Val.VStr(z3.Const("doc.archA", sym.S)))
        B = SV(sym.Val.VStr(z3.Const("doc.archB", sym.S)))
        E.assume(And(Not(eq(A, B)), Not(eq(A, "src")), Not(eq(B, "src"))))
        var = SV(sym.Val.VStr(z3.Const("arg.variant", sym.S)))
        arch = SV(sym.Val.VStr(z3.Const("arg.arch", sym.S)))
        E.assume(Or(eq(arch, "src"), eq(arch, A), eq(arch, B)))
        cell = E.models.new_dict("doc.variant")
        for k in ("src", A, B):
            cell.entries.append(Entry(k, True, []))
        imgs = E.models.new_dict("doc.images")
        imgs.entries.append(Entry(var, True, cell))
        other = E.models.new_dict("doc.other")
        other.entries.append(Entry("zzz", True, []))
        imgs.entries.append(Entry(SV(sym.Val.VStr(z3.Const("doc.othervariant", sym.S))), True, other))
        E.assume(Not(eq(imgs.entries[1].key, var)))
        payload = E.models.new_dict("doc.payload")
        payload.entries.append(Entry("images", True, imgs))
        data = E.models.new_dict("doc")
        data.entries.append(Entry("payload", True, payload))
        image = E.instantiate(("images", "Image"), [m])
        calls = []

        def add(E_, o, args, kwargs):
            calls.append(tuple(args))
            return None
        E.summaries[(("images", "Images"), "add")] = add
        return {"m": m, "data": data, "var": var, "arch": arch, "A": A, "B": B, "image": image, "calls": calls}

    def call(self, E, st):
        try:
            return E.call(E.getattr_(st["m"], "_add_1_1"), [st["data"], st["var"], st["arch"], st["image"]])
        finally:
            E.summaries.pop((("images", "Images"), "add"), None)

    def post(self, E, st, out):
        if out.kind == "raise":
            return {"refiling_does_not_fail": False}
        calls = st["calls"]
        is_src = eq(st["arch"], "src")
        all_for_this = all(c[0] is st["var"] and c[2] is st["image"] for c in calls)
        arches = [c[1] for c in calls]
        src_case = len(arches) == 2 and And(Or(And(_veq(arches[0], st["A"]), _veq(arches[1], st["B"])),
                                               And(_veq(arches[0], st["B"]), _veq(arches[1], st["A"])))) if len(arches) == 2 else False
        bin_case = _veq(arches[0], st["arch"]) if len(arches) == 1 else False
        return {"refiling_does_not_fail": True, "adds_same_image_under_same_variant_only": all_for_this,
                "src_goes_under_every_binary_arch_of_the_variant": Implies(is_src, src_case),
                "binary_arch_is_added_once_under_itself": Implies(Not(is_src), bin_case),
                "nothing_is_added_under_src": And(*[Not(eq(x, "src")) for x in arches]) if arches else True}

    def concretise(self, model, st):
        return None

    def native_eval(self, inputs):
        raise NotImplementedError



class Add11RefileAny(Contract):
    """Images._add_1_1 for a document whose variant lists ANY number of arches (witness rule, pyvc/anycoll.py; add() is the recorded callee
    contract, so the loop body has no effect of its own): for a 'src' image, add(variant, w, image) is called for the ARBITRARY arch key w of
    that variant unless w is 'src' -- i.e. for every binary arch of the variant --, never with arch 'src', never for another variant or
    image; any other arch is added exactly once under itself."""
    name = "productmd.images.Images._add_1_1[variant with any number of arches]"
    key = "meth:images.Images._add_1_1:any"

    def __init__(self, src, T):
        self.src, self.T = src, T

    def setup(self, E):
        from pyvc.anycoll import AnyDict
        m = E.instantiate(("images", "Images"))
        var = SV(sym.Val.VStr(z3.Const("arg.variant", sym.S)))
        arch = SV(sym.Val.VStr(z3.Const("arg.arch", sym.S)))
        arches = AnyDict("doc.arches", lambda E_, key, tag: [])
        imgs = AnyDict("doc.images", lambda E_, key, tag: arches)
        payload = E.models.new_dict("doc.payload")
        payload.entries.append(Entry("images", True, imgs))
        data = E.models.new_dict("doc")
        data.entries.append(Entry("payload", True, payload))
        image = E.instantiate(("images", "Image"), [m])
        calls = []

        def add(E_, o, args, kwargs):
            calls.append(tuple(args))
            return None
        E.summaries[(("images", "Images"), "add")] = add
        return {"m": m, "data": data, "var": var, "arch": arch, "arches": arches, "imgs": imgs, "image": image, "calls": calls}

    def call(self, E, st):
        try:
            return E.call(E.getattr_(st["m"], "_add_1_1"), [st["data"], st["var"], st["arch"], st["image"]])
        finally:
            E.summaries.pop((("images", "Images"), "add"), None)

    def post(self, E, st, out):
        is_src = eq(st["arch"], "src")
        if out.kind == "raise":
            # only a variant missing from the document may fail (KeyError), and only on the src path
            return {"refiling_fails_only_for_a_variant_missing_from_the_document": And(is_src, out.exc_cls is KeyError)}
        calls = st["calls"]
        wit = [(kind, x) for kind, c, x in getattr(E.path, "witnesses", []) if c is st["arches"]]
        all_for_this = all(c[0] is st["var"] and c[2] is st["image"] for c in calls)
        arches = [c[1] for c in calls]
        if wit:
            kind, w = wit[-1]
            # normal termination of the scan: the arbitrary arch key w got its add unless it is 'src'; an empty table has no witness
            if w is None:
                src_case = len(calls) == 0
            else:
                src_case = And(Implies(Not(eq(w, "src")), len(calls) == 1 and _veq(arches[0], w) if calls else False),
                               Implies(eq(w, "src"), len(calls) == 0))
            src_case = And(kind == "all", src_case)
        else:
            src_case = False
        bin_case = (len(calls) == 1 and _veq(arches[0], st["arch"])) if not wit else False
        return {"adds_same_image_under_same_variant_only": all_for_this,
                "src_goes_under_every_binary_arch_of_the_variant": Implies(is_src, src_case),
                "binary_arch_is_added_once_under_itself": Implies(Not(is_src), bin_case),
                "nothing_is_added_under_src": And(*[Not(eq(x, "src")) for x in arches]) if arches else True}

    def concretise(self, model, st):
        return None

    def native_eval(self, inputs):
        raise NotImplementedError


class ImagesRoundTrip(Contract):
    """Images.serialize + Images.deserialize on the manifests  {V1: {A: {I1, I2}}, V2: {A: {I1}}}  (I1 the SAME object under two cells) and
    {V1: {A: {I1}}, V2: {A: {I3}}}  (two images whose paths may coincide): variants, arch and all fifteen attributes of every image symbolic.  Every cell is read back under the same variant/arch with exactly the
    written images, all attributes equal; the compose section is intact.  Bounded in SHAPE, unbounded in values."""
    name = "productmd.images.Images.deserialize(serialize(manifest))"
    key = "rt:images.Images"

    def __init__(self, src, T):
        self.src, self.T = src, T

    def setup(self, E):
        from .sections import _sv_fields
        m = E.instantiate(("images", "Images"))
        m2 = E.instantiate(("images", "Images"))
        cf = _sv_fields(E, m.fields["compose"], ["id", "type", "date", "respin"], "compose")
        E.assume(F.valid_compose(self.T, m.fields["compose"]))
        V1 = SV(sym.Val.VStr(z3.Const("V1", sym.S)))
        V2 = SV(sym.Val.VStr(z3.Const("V2", sym.S)))
        A = SV(sym.Val.VStr(z3.Const("A", sym.S)))
        E.assume(And(Not(eq(V1, V2)), sym.isin(A, self.T.RPM_ARCHES), Not(sym.isin(A, ["src", "nosrc"]))))
        ims = []
        # the second cell holds either I1 again (the SAME object under two cells) or a third image I3 whose path may coincide with a path
        # used in the first cell (paths are distinct per cell only)
        shared = E.decide(E.fresh("second_cell_shares_object", z3.BoolSort()))
        for tag in ("I1", "I2") if shared else ("I1", "I3"):
            im = E.instantiate(("images", "Image"), [m])
            f = _sv_fields(E, im, [a for a in IMAGE_FIELDS if a != "additional_variants"], tag)
            # I1: no additional variants; I2: a unified image with one additional variant (symbolic)
            f["additional_variants"] = [] if tag != "I2" else [SV(sym.Val.VStr(z3.Const("I2.additional_variant", sym.S)))]
            im.fields["additional_variants"] = list(f["additional_variants"])
            E.assume(F.valid_image(self.T, im))
            ims.append((im, f))
        # shape A (shared):  {V1: {A: {I1, I2}}, V2: {A: {I1}}};   shape B:  {V1: {A: {I1}}, V2: {A: {I3}}}
        (i1, f1) = ims[0]
        (i2, f2) = ims[1] if shared else (None, None)
        i3, f3 = (i1, f1) if shared else ims[1]
        if shared:
            E.assume(Not(eq(f1["path"], f2["path"])))
        # the library only files images without an identity clash (Images.add, C10)
        ident = IDENT

        def no_clash(fa, fb):
            same_av = len(fa["additional_variants"]) == len(fb["additional_variants"]) and \
                And(*[eq(x, y) for x, y in zip(fa["additional_variants"], fb["additional_variants"])])
            return Implies(And(same_av, *[eq(fa[a], fb[a]) for a in ident]), eq(fa["checksums"], fb["checksums"]))
        E.assume(no_clash(f1, f2) if shared else no_clash(f1, f3))
        images = E.models.new_dict("images")
        c1 = E.models.new_dict("images[V1]")
        # the writer only ITERATES a cell, so a list in a chosen order stands for the set under that iteration order (which a native
        # replay cannot force on a real set: it depends on object addresses)
        cell_rev = bool(shared) and E.decide(E.fresh("first_cell_iterated_in_reverse", z3.BoolSort()))
        c1.entries.append(Entry(A, True, ([i2, i1] if cell_rev else [i1, i2]) if shared else [i1]))
        c2 = E.models.new_dict("images[V2]")
        c2.entries.append(Entry(A, True, [i3]))
        order = [(V1, c1), (V2, c2)]
        rev = E.decide(E.fresh("variants_reversed", z3.BoolSort()))
        if rev:
            order.reverse()
        for k, v in order:
            images.entries.append(Entry(k, True, v))
        m.fields["images"] = images
        return {"m": m, "m2": m2, "V1": V1, "V2": V2, "A": A, "f1": f1, "f2": f2, "f3": f3, "shared": shared, "cf": cf, "rev": rev, "cell_rev": cell_rev,
                "data": E.models.new_dict("doc")}

    def call(self, E, st):
        E.call(E.getattr_(st["m"], "serialize"), [st["data"]])
        return E.call(E.getattr_(st["m2"], "deserialize"), [st["data"]])

    def post(self, E, st, out):
        if out.kind == "raise":
            return {"write_read_cycle_succeeds": False}
        m2 = st["m2"]
        im2 = m2.fields["images"]

        def cell(v):
            e = E.models.sd_lookup(im2, v, create=False) if isinstance(im2, SymDict) else None
            if e is None or e.present is not True or not isinstance(e.value, SymDict):
                return None, None
            inner = e.value
            e2 = E.models.sd_lookup(inner, st["A"], create=False)
            return inner, (e2.value if e2 is not None and e2.present is True else None)

        def img_eq(o, f):
            return And(*[_veq(o.fields[k], f[k]) for k in IMAGE_FIELDS])

        def holds(c, fs):
            ms = _members(c)
            if ms is None or len(ms) != len(fs) or not all(isinstance(x, Obj) for x in ms):
                return False
            return And(*[Or(*[img_eq(x, f) for x in ms]) for f in fs])
        in1, c1 = cell(st["V1"])
        in2, c2 = cell(st["V2"])
        top = [e for e in im2.entries if e.present is True] if isinstance(im2, SymDict) else []
        comp = m2.fields["compose"]
        return {"write_read_cycle_succeeds": True,
                "no_variant_or_arch_gained_or_lost": len(top) == 2 and in1 is not None and in2 is not None and
                len([e for e in in1.entries if e.present is True]) == 1 and len([e for e in in2.entries if e.present is True]) == 1,
                "every_image_of_a_cell_read_back_with_all_attributes": holds(c1, [st["f1"], st["f2"]] if st["shared"] else [st["f1"]]),
                "image_of_the_other_cell_read_back_from_its_own_record": holds(c2, [st["f3"]]),
                "compose_section_intact": And(*[_veq(comp.fields[k], v) for k, v in st["cf"].items()]),
                "version_current_after_load": m2.fields["header"].fields["version"] == "%d.%d" % self.T.VERSION}

    def concretise(self, model, st):
        inp = {"V1": concretise.value_of(model, st["V1"]), "V2": concretise.value_of(model, st["V2"]), "A": concretise.value_of(model, st["A"])}
        def val(v):
            return [val(x) for x in v] if isinstance(v, list) else concretise.value_of(model, v)
        for k in ("f1", "f2", "f3", "cf"):
            inp[k] = dict((a, val(v)) for a, v in st[k].items()) if st[k] is not None else None
        inp["shared"] = bool(st["shared"])
        inp["reversed"] = bool(st["rev"])
        inp["cell_reversed"] = bool(st["cell_rev"])
        return inp

    def sample_inputs(self, rng):
        def img(path, **kw):
            d = {"path": path, "mtime": 1, "size": 2 ** 33, "volume_id": None, "type": "dvd", "format": "iso", "arch": "x86_64",
                 "disc_number": 1, "disc_count": 1, "checksums": {"sha256": "a" * 64}, "implant_md5": None, "bootable": False,
                 "subvariant": "S", "unified": False, "additional_variants": []}
            d.update(kw)
            return d
        cf = {"id": "F-21-20141201.0", "type": "production", "date": "20141201", "respin": 0}
        for shared in (True, False):
            yield {"V1": "Server", "V2": "Client", "A": "x86_64", "cf": cf, "f1": img("a.iso"), "f2": img("b.iso", disc_number=2),
                   "f3": img("a.iso", disc_number=3, size=5), "shared": shared, "reversed": True, "cell_reversed": True}
            yield {"V1": "Server", "V2": "Client", "A": "x86_64", "cf": cf, "f1": img("b.iso"), "f2": img("a.iso", disc_number=2),
                   "f3": img("a.iso", disc_number=3, size=5), "shared": shared, "cell_reversed": True}
            yield {"V1": "Server", "V2": "Client", "A": "x86_64", "cf": cf, "f1": img("a.iso"), "f2": img("b.iso", disc_number=2),
                   "f3": img("a.iso", disc_number=3, size=5), "shared": shared}
            yield {"V1": "Server", "V2": "Client", "A": "s390x", "cf": cf, "f1": img("b.iso", unified=True),
                   "f2": img("a.iso", type="netinst", volume_id="vol", implant_md5="0" * 32, bootable=True, unified=True,
                             additional_variants=["Client"]),
                   "f3": img("b.iso", subvariant="K", mtime=0), "shared": shared}
            yield {"V1": "B", "V2": "A", "A": "aarch64", "cf": dict(cf, respin=0), "f1": img("z/a.iso", disc_number=0, disc_count=0, mtime=0),
                   "f2": img("a/z.iso", disc_number=0, disc_count=0, subvariant=""), "f3": img("z/a.iso", disc_number=0, disc_count=7),
                   "shared": shared}

    def native_eval(self, inputs):
        mod = self.src.mods["images"]
        m, m2 = mod.Images(), mod.Images()
        for k, v in inputs["cf"].items():
            setattr(m.compose, k, v)
        ims = []
        for k in ("f1", "f2") if inputs["shared"] else ("f1", "f3"):
            im = mod.Image(m)
            for a, v in copy.deepcopy(inputs[k]).items():
                setattr(im, a, v)
            ims.append(im)
        try:
            m.compose.validate()
            for im in ims:
                im.validate()
        except Exception:
            return ("skip", None), None
        first = list(ims if inputs["shared"] else ims[:1])
        if inputs.get("cell_reversed"):
            first.reverse()
        cells = [(inputs["V1"], {inputs["A"]: first}),
                 (inputs["V2"], {inputs["A"]: list(ims[:1] if inputs["shared"] else ims[1:])})]
        m.images = dict(reversed(cells) if inputs.get("reversed") else cells)
        data = {}

        def cyc():
            m.serialize(data)
            m2.deserialize(data)
        nat = native_call(cyc)
        if nat[0] == "raise":
            return nat, {"write_read_cycle_succeeds": False}

        def view(im):
            return dict((a, getattr(im, a)) for a in IMAGE_FIELDS)

        def holds(c, fs):
            got = [view(x) for x in c]
            return len(got) == len(fs) and all(any(all(_same(g[a], f[a]) for a in IMAGE_FIELDS) for g in got) for f in fs)
        c1 = m2.images.get(inputs["V1"], {}).get(inputs["A"], ())
        c2 = m2.images.get(inputs["V2"], {}).get(inputs["A"], ())
        return nat, {"write_read_cycle_succeeds": True,
                     "no_variant_or_arch_gained_or_lost": sorted(m2.images) == sorted([inputs["V1"], inputs["V2"]]) and
                     all(list(m2.images[v]) == [inputs["A"]] for v in m2.images),
                     "every_image_of_a_cell_read_back_with_all_attributes": holds(c1, [inputs["f1"], inputs["f2"]] if inputs["shared"] else [inputs["f1"]]),
                     "image_of_the_other_cell_read_back_from_its_own_record": holds(c2, [inputs["f1"] if inputs["shared"] else inputs["f3"]]),
                     "compose_section_intact": all(_same(getattr(m2.compose, k), v) for k, v in inputs["cf"].items()),
                     "version_current_after_load": m2.header.version == "%d.%d" % self.T.VERSION}

    def describe(self, inputs):
        if inputs["shared"]:
            return "Images manifest {%r: {%r: {I1, I2}}, %r: {%r: {I1}}} with I1=%r, I2=%r written and re-read" % (
                inputs["V1"], inputs["A"], inputs["V2"], inputs["A"], inputs["f1"], inputs["f2"])
        return "Images manifest {%r: {%r: {I1}}, %r: {%r: {I3}}} with I1=%r, I3=%r written and re-read" % (
            inputs["V1"], inputs["A"], inputs["V2"], inputs["A"], inputs["f1"], inputs["f3"])


OPTIONAL_IMAGE_KEYS = ("format", "unified", "additional_variants")



class ImagesEmptyCell(Contract):
    """Images.serialize on a manifest holding an EMPTY cell next to a filled one -- {V1: {A: {I1}, A2: {}}} or {V1: {A: {I1}}, V2: {A2: {}}}
    (an image filed and discarded again): only what holds images is written, so that the re-read manifest (readers create cells only while
    adding images) writes the same document again.  All names and the image symbolic."""
    name = "productmd.images.Images.serialize[manifest with an empty cell]"
    key = "ser:images.Images:emptycell"

    def __init__(self, src, T):
        self.src, self.T = src, T

    def setup(self, E):
        from .sections import _sv_fields
        m = E.instantiate(("images", "Images"))
        _sv_fields(E, m.fields["compose"], ["id", "type", "date", "respin"], "compose")
        E.assume(F.valid_compose(self.T, m.fields["compose"]))
        n = dict((k, SV(sym.Val.VStr(z3.Const(k, sym.S)))) for k in ("V1", "V2", "A", "A2"))
        E.assume(And(Not(eq(n["V1"], n["V2"])), Not(eq(n["A"], n["A2"]))))
        im = E.instantiate(("images", "Image"), [m])
        f = _sv_fields(E, im, [a for a in IMAGE_FIELDS if a != "additional_variants"], "I1")
        im.fields["additional_variants"] = []
        E.assume(F.valid_image(self.T, im))
        same_variant = bool(E.decide(E.fresh("empty_cell_in_the_same_variant", z3.BoolSort())))
        images = E.models.new_dict("images")
        c1 = E.models.new_dict("images[V1]")
        c1.entries.append(Entry(n["A"], True, [im]))
        cells = [(n["V1"], c1)]
        if same_variant:
            c1.entries.append(Entry(n["A2"], True, []))
        else:
            c2 = E.models.new_dict("images[V2]")
            c2.entries.append(Entry(n["A2"], True, []))
            cells.append((n["V2"], c2))
        if E.decide(E.fresh("order_reversed", z3.BoolSort())):
            cells.reverse()
            c1.entries.reverse()
        for k, v in cells:
            images.entries.append(Entry(k, True, v))
        m.fields["images"] = images
        return {"m": m, "n": n, "same_variant": same_variant, "path": f["path"], "data": E.models.new_dict("doc")}

    def call(self, E, st):
        return E.call(E.getattr_(st["m"], "serialize"), [st["data"]])

    def post(self, E, st, out):
        if out.kind == "raise":
            return {"valid_manifest_is_written": False}
        L = E.models.sd_lookup
        p = L(st["data"], "payload", create=False)
        imgs = L(p.value, "images", create=False) if p is not None and isinstance(p.value, SymDict) else None
        if imgs is None or not isinstance(imgs.value, SymDict):
            return {"valid_manifest_is_written": True, "only_cells_holding_images_are_written": False}
        tops = [e for e in imgs.value.entries if e.present is True]
        ok = len(tops) == 1 and isinstance(tops[0].value, SymDict)
        if ok:
            inner = [e for e in tops[0].value.entries if e.present is True]
            ok = len(inner) == 1 and isinstance(inner[0].value, list) and len(inner[0].value) == 1 and \
                And(_veq(tops[0].key, st["n"]["V1"]), _veq(inner[0].key, st["n"]["A"]))
        return {"valid_manifest_is_written": True, "only_cells_holding_images_are_written": ok}

    def concretise(self, model, st):
        inp = dict((k, concretise.value_of(model, v)) for k, v in st["n"].items())
        inp["same_variant"] = st["same_variant"]
        return inp

    def sample_inputs(self, rng):
        for sv in (True, False):
            yield {"V1": "Server", "V2": "Client", "A": "x86_64", "A2": "s390x", "same_variant": sv}
            yield {"V1": "B", "V2": "A", "A": "s390x", "A2": "aarch64", "same_variant": sv}

    def native_eval(self, inputs):
        mod = self.src.mods["images"]
        m = mod.Images()
        m.compose.id, m.compose.type, m.compose.date, m.compose.respin = "F-21-20141201.0", "production", "20141201", 0
        im = mod.Image(m)
        for a, v in {"path": "a.iso", "mtime": 1, "size": 2, "volume_id": None, "type": "dvd", "format": "iso", "arch": "x86_64",
                     "disc_number": 1, "disc_count": 1, "checksums": {"sha256": "a" * 64}, "implant_md5": None, "bootable": False,
                     "subvariant": "S", "unified": False, "additional_variants": []}.items():
            setattr(im, a, v)
        if inputs["V1"] == inputs["V2"] or inputs["A"] == inputs["A2"]:
            return ("skip", None), None
        m.images = {inputs["V1"]: {inputs["A"]: set([im])}}
        if inputs["same_variant"]:
            m.images[inputs["V1"]][inputs["A2"]] = set()
        else:
            m.images[inputs["V2"]] = {inputs["A2"]: set()}
        data = {}
        nat = native_call(m.serialize, data)
        if nat[0] == "raise":
            return nat, {"valid_manifest_is_written": False}
        got = data.get("payload", {}).get("images")
        return nat, {"valid_manifest_is_written": True,
                     "only_cells_holding_images_are_written": isinstance(got, dict) and list(got) == [inputs["V1"]] and
                     list(got[inputs["V1"]]) == [inputs["A"]] and len(got[inputs["V1"]][inputs["A"]]) == 1}

    def describe(self, inputs):
        return "Images manifest {%r: {%r: {image}%s}%s} written" % (
            inputs["V1"], inputs["A"], (", %r: {}" % inputs["A2"]) if inputs["same_variant"] else "",
            "" if inputs["same_variant"] else ", %r: {%r: {}}" % (inputs["V2"], inputs["A2"]))



class ImagesWriteValidates(Contract):
    """Images.serialize on {V1: {A: {I1}}, V2: {A: {I2}}} with I1 valid and I2 ARBITRARY (every attribute symbolic; its path may or may not
    equal I1's; either variant order): a normal return means I2 satisfies every documented rule too -- every image of every cell is
    validated on its own, whatever it shares with an image written before (C06)."""
    name = "productmd.images.Images.serialize[second image arbitrary]"
    key = "ser:images.Images:validates"

    def __init__(self, src, T):
        self.src, self.T = src, T

    def setup(self, E):
        from .sections import _sv_fields
        m = E.instantiate(("images", "Images"))
        _sv_fields(E, m.fields["compose"], ["id", "type", "date", "respin"], "compose")
        E.assume(F.valid_compose(self.T, m.fields["compose"]))
        V1 = SV(sym.Val.VStr(z3.Const("V1", sym.S)))
        V2 = SV(sym.Val.VStr(z3.Const("V2", sym.S)))
        A = SV(sym.Val.VStr(z3.Const("A", sym.S)))
        E.assume(Not(eq(V1, V2)))
        ims = []
        for tag in ("I1", "I2"):
            im = E.instantiate(("images", "Image"), [m])
            f = _sv_fields(E, im, [a for a in IMAGE_FIELDS if a != "additional_variants"], tag)
            f["additional_variants"] = []
            im.fields["additional_variants"] = []
            ims.append((im, f))
        E.assume(F.valid_image(self.T, ims[0][0]))
        images = E.models.new_dict("images")
        cells = []
        for v, (im, f) in zip((V1, V2), ims):
            c = E.models.new_dict("cell")
            c.entries.append(Entry(A, True, [im]))
            cells.append((v, c))
        if E.decide(E.fresh("variants_reversed", z3.BoolSort())):
            cells.reverse()
        for k, v in cells:
            images.entries.append(Entry(k, True, v))
        m.fields["images"] = images
        return {"m": m, "i2": ims[1][0], "f2": ims[1][1], "f1": ims[0][1], "data": E.models.new_dict("doc")}

    def call(self, E, st):
        return E.call(E.getattr_(st["m"], "serialize"), [st["data"]])

    def post(self, E, st, out):
        valid2 = F.valid_image(self.T, st["i2"])
        if out.kind == "raise":
            return {"raises_only_TypeError_ValueError": out.exc_cls in (TypeError, ValueError), "raises_only_if_invalid": Not(valid2)}
        return {"writes_only_valid_object": valid2}

    def concretise(self, model, st):
        def val(v):
            return [val(x) for x in v] if isinstance(v, list) else concretise.value_of(model, v)
        return {"f1": dict((a, val(v)) for a, v in st["f1"].items()), "f2": dict((a, val(v)) for a, v in st["f2"].items())}

    def sample_inputs(self, rng):
        good = {"path": "a.iso", "mtime": 1, "size": 2, "volume_id": None, "type": "dvd", "format": "iso", "arch": "x86_64", "disc_number": 1,
                "disc_count": 1, "checksums": {"sha256": "a" * 64}, "implant_md5": None, "bootable": False, "subvariant": "S", "unified": False,
                "additional_variants": []}
        for path2 in ("a.iso", "b.iso"):
            for k, bad in (("type", "bogus"), ("format", "zip!"), ("size", "1"), ("mtime", None), ("disc_number", 1.5), ("implant_md5", "xyz"),
                           ("bootable", "yes"), ("volume_id", ""), ("checksums", {}), (None, None)):
                f2 = dict(good, path=path2)
                if k:
                    f2[k] = bad
                yield {"f1": dict(good), "f2": f2}

    def native_eval(self, inputs):
        mod = self.src.mods["images"]
        m = mod.Images()
        m.compose.id, m.compose.type, m.compose.date, m.compose.respin = "F-21-20141201.0", "production", "20141201", 0
        ims = []
        for f in (inputs["f1"], inputs["f2"]):
            im = mod.Image(m)
            for a, v in copy.deepcopy(f).items():
                setattr(im, a, v)
            ims.append(im)
        try:
            ims[0].validate()
        except Exception:
            return ("skip", None), None
        try:
            ims[1].validate()
            valid2 = True
        except (TypeError, ValueError):
            valid2 = False
        except Exception:
            return ("skip", None), None
        for order in ((0, 1), (1, 0)):
            cells = [("Server", {"x86_64": set([ims[0]])}), ("Workstation", {"x86_64": set([ims[1]])})]
            m.images = dict(cells[i] for i in order)
            nat = native_call(m.serialize, {})
            if nat[0] == "return" and not valid2:
                return nat, {"writes_only_valid_object": False}
        if nat[0] == "raise":
            return nat, {"raises_only_TypeError_ValueError": nat[1] in (TypeError, ValueError), "raises_only_if_invalid": not valid2}
        return nat, {"writes_only_valid_object": valid2}

    def describe(self, inputs):
        diff = dict((k, v) for k, v in inputs["f2"].items() if inputs["f1"].get(k) != v)
        return "Images manifest with a valid image under Server/x86_64 and a second image under Workstation/x86_64 %s written" % (
            "differing in %r" % diff if diff else "equal to it")


class ImageReaderValid(Contract):
    """Image.deserialize(record) on a current-format record that is valid except for ONE corruption of field k (its value replaced by an
    arbitrary JSON value, or the key deleted): a normal return means the key was present or optional, and the loaded image satisfies
    every field rule (C07: nothing invalid is returned from a load)."""

    def __init__(self, src, T, k, mode):
        self.src, self.T, self.k, self.mode = src, T, k, mode
        self.name = "productmd.images.Image.deserialize[%s %s]" % (k, "corrupted" if mode == "corrupt" else "deleted")
        self.key = "de:images.Image:%s:%s" % (k, mode)

    def setup(self, E):
        from .sections import _sv_fields
        m = E.instantiate(("images", "Images"))
        im = E.instantiate(("images", "Image"), [m])
        good = Obj(("images", "Image"), "good", 0)
        f = _sv_fields(E, good, IMAGE_FIELDS, "rec")
        E.assume(F.valid_image(self.T, good))                   # the uncorrupted record
        E.assume(sym.is_str(f["format"]))
        bad = SV(z3.Const("corrupt.%s" % self.k, sym.Val))
        E.assume(concretise.json_value(bad))
        rec = E.models.new_dict("record")
        for a in IMAGE_FIELDS:
            if a == self.k:
                if self.mode == "corrupt":
                    rec.entries.append(Entry(a, True, bad))
                continue
            rec.entries.append(Entry(a, True, f[a]))
        return {"im": im, "rec": rec, "f": f, "bad": bad}

    def call(self, E, st):
        return E.call(E.getattr_(st["im"], "deserialize"), [st["rec"]])

    def post(self, E, st, out):
        if out.kind == "raise":
            return {"returns_only_with_required_keys": True}
        return {"returns_only_with_required_keys": self.mode == "corrupt" or self.k in OPTIONAL_IMAGE_KEYS,
                "loaded_image_is_valid": F.valid_image(self.T, st["im"])}

    def concretise(self, model, st):
        inp = dict((a, concretise.value_of(model, v)) for a, v in st["f"].items())
        if self.mode == "corrupt":
            inp[self.k] = concretise.value_of(model, st["bad"])
        else:
            inp.pop(self.k, None)
        return {"record": inp}

    def sample_inputs(self, rng):
        base = {"path": "a.iso", "mtime": 1, "size": 2, "volume_id": None, "type": "dvd", "format": "iso", "arch": "x86_64",
                "disc_number": 1, "disc_count": 1, "checksums": {"sha256": "a" * 64}, "implant_md5": None, "bootable": False,
                "subvariant": "S", "unified": False, "additional_variants": []}
        if self.mode == "delete":
            d = dict(base)
            d.pop(self.k)
            yield {"record": d}
            return
        for bad in (None, "", "x", 0, -1, 1.5, [], ["Client"], {}, True, "1", "zz" * 16):
            yield {"record": dict(base, **{self.k: bad})}
            yield {"record": dict(base, unified=True, **{self.k: bad})}

    def native_eval(self, inputs):
        mod = self.src.mods["images"]
        m = mod.Images()
        im = mod.Image(m)
        nat = native_call(im.deserialize, copy.deepcopy(inputs["record"]))
        if nat[0] == "raise":
            return nat, {"returns_only_with_required_keys": True}
        ok = True
        try:
            im.validate()
        except Exception:
            ok = False
        return nat, {"returns_only_with_required_keys": self.k in inputs["record"] or self.k in OPTIONAL_IMAGE_KEYS,
                     "loaded_image_is_valid": ok and bool(F.valid_image(self.T, im))}

    def describe(self, inputs):
        return "Image.deserialize(%s)" % concretise.py_repr(inputs["record"])


def ast_only_writer(run, src, module, cls, attr, allowed):
    """AST clause: `add` is the only method of the class that stores into self.<attr> (C09 load.routes / C10 add.only_writer)"""
    with run.obligation("%s.%s#%s_written_only_by_%s" % (module, cls, attr, "_".join(allowed)), "ast",
                        ["productmd.%s.%s" % (module, cls)]) as ob:
        ci = src.classes[(module, cls)]
        bad = []
        for n, fn in ci.methods.items():
            if n in allowed or n in ("__init__", "__delitem__"):
                continue
            for x in ast.walk(fn):
                tgt = None
                if isinstance(x, (ast.Assign, ast.AugAssign)):
                    for t in (x.targets if isinstance(x, ast.Assign) else [x.target]):
                        s = ast.unparse(t)
                        if s.startswith("self.%s[" % attr) or s == "self.%s" % attr:
                            tgt = s
                if isinstance(x, ast.Call):
                    f = ast.unparse(x.func)
                    if f.startswith("self.%s." % attr) and f.split(".")[-1] in ("setdefault", "update", "pop", "clear", "__setitem__") or \
                            (f.startswith("self.%s[" % attr) and f.split(".")[-1] in ("setdefault", "add", "append", "update")):
                        tgt = f
                if tgt:
                    bad.append("%s: %s" % (n, tgt))
        if bad:
            ob.refuted("methods other than %s store into self.%s: %s" % (allowed, attr, "; ".join(bad[:3])), clause="only_writer")
        else:
            ob.discharged()


def contracts(src, T):
    return [ImagesAdd(src, T, 0), ImagesAdd(src, T, 1), ImagesAdd(src, T, 2), IdentifyObjEqDict(src, T), Add11Refile(src, T), Add11RefileAny(src, T), ImagesRoundTrip(src, T), ImagesEmptyCell(src, T), ImagesAddAny(src, T), ImagesWriteValidates(src, T)] + \
        [ImageReaderValid(src, T, k, mode) for k in IMAGE_FIELDS for mode in ("corrupt", "delete")]
