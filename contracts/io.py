"""F-io contracts: order of validate / serialise / open / build in dump() (C18, C06), loads() validates (C07)."""
import ast

import z3

from pyvc import sym, concretise
from pyvc.sym import SV, And, Or, Not, Implies
from pyvc.engine import PyRaise, ExcVal, Obj, SymDict
from pyvc.verify import Contract, Outcome, native_call


def abstract_raiser(tag):
    """summary of a callee whose contract says: returns normally or raises TypeError/ValueError, touching no file"""
    def summ(E, o, args, kwargs):
        E.path.effects.append(("call", tag))
        if E.decide(E.fresh("%s_returns" % tag, z3.BoolSort())):
            return None
        E.path.abstract = True
        cls = TypeError if E.decide(E.fresh("%s_TypeError" % tag, z3.BoolSort())) else ValueError
        E.path.effects.append(("validation_error", tag))
        raise PyRaise(ExcVal(cls, (tag,)))
    return summ


class DumpEffectOrder(Contract):
    """X.dump(path): whenever dump ends in TypeError/ValueError raised by validation (top level or inside a nested section
    writer), the destination has not been opened for writing -- so the file that was there is untouched."""

    def __init__(self, src, T, cls, holder_cls, main_variant=False):
        self.src, self.T = src, T
        self.cls = cls                  # class that DEFINES dump
        self.holder = holder_cls        # concrete class of the receiver
        self.main_variant = main_variant    # TreeInfo.dump(path, main_variant=<any value>)
        self.name = "productmd.%s.%s.dump" % cls + ("[main_variant given]" if main_variant else "")
        self.key = "io:%s.%s.dump" % cls + (":mv" if main_variant else "")

    def setup(self, E):
        o = E.instantiate(self.holder)
        saved = {}
        for k in list(E.summaries):
            pass
        path = SV(sym.Val.VStr(z3.Const("arg.path", sym.S)))
        E.assume(Not(Or(sym.startswith(path, "http://"), sym.startswith(path, "https://"), sym.startswith(path, "ftp://"))))
        st = {"o": o, "path": path, "mark": len(E.path.effects)}
        if self.main_variant:
            st["mv"] = SV(z3.Const("arg.main_variant", sym.Val))
            E.assume(concretise.wellformed(st["mv"]))
            # the named variant may or may not be in the tree: lookups in the (abstract) variant container answer arbitrarily
            def getitem(E_, o_, args, kwargs):
                if E_.decide(E_.fresh("main_variant_in_tree", z3.BoolSort())):
                    return E_.new_obj(("treeinfo", "Variant"))
                raise PyRaise(ExcVal(KeyError, ("main_variant",)))
            st["getitem"] = getitem
        return st

    def call(self, E, st):
        o = st["o"]
        keys = [(self.holder, "validate"), (self.holder, "serialize")]
        if self.main_variant:
            keys.append((("treeinfo", "Variants"), "__getitem__"))
        saved = dict((k, E.summaries.get(k)) for k in keys)
        E.summaries[(self.holder, "validate")] = abstract_raiser("validate")
        E.summaries[(self.holder, "serialize")] = abstract_raiser("serialize")
        if self.main_variant:
            E.summaries[(("treeinfo", "Variants"), "__getitem__")] = st["getitem"]
        try:
            if self.main_variant:
                return E.call(E.getattr_(o, "dump"), [st["path"]], {"main_variant": st["mv"]})
            return E.call(E.getattr_(o, "dump"), [st["path"]])
        finally:
            for k, v in saved.items():
                if v is None:
                    E.summaries.pop(k, None)
                else:
                    E.summaries[k] = v

    def post(self, E, st, out):
        eff = E.path.effects[st["mark"]:]
        # any mode that creates or truncates the destination: w, a, x, +
        # ... or any other call that changes the file system (unlink, rename, ...: the destination or a link to it may be gone)
        opens = [i for i, e in enumerate(eff) if (e[0] == "open" and any(m in e[2] for m in "wax+")) or e[0] == "fs_modify"]
        errs = [i for i, e in enumerate(eff) if e[0] == "validation_error"]
        calls = [e[1] for e in eff if e[0] == "call"]
        if out.kind == "raise":
            return {"destination_not_opened_before_validation_failure":
                    not (out.exc_cls in (TypeError, ValueError) and opens and errs and opens[0] < errs[0])}
        writes = [e for e in eff if e[0] == "write"]
        # (a top-level validate() call is not demanded: classes without _validate* methods lose nothing without it)
        wopens = [i for i in opens if eff[i][0] == "open"]
        return {"serialises_before_writing": "serialize" in calls,
                "writes_serialised_data_to_destination": len(wopens) == 1 and len(writes) == 1 and writes[0][1] is eff[wopens[0]][3]}

    def concretise(self, model, st):
        return None

    # native harness: every nested validation failure of every format, destination compared byte for byte
    KINDS = {("common", "MetadataBase"): ["composeinfo", "images", "rpms", "modules", "extra_files", "discinfo"],
             ("treeinfo", "TreeInfo"): ["treeinfo"]}

    def sample_inputs(self, rng):
        from bounded import gen, corrupt
        for kind in self.KINDS[self.cls]:
            for seed in range(3):
                obj = getattr(gen.G(self.src.mods, seed), kind)()
                obj = obj[0] if isinstance(obj, tuple) else obj
                n = 0
                for desc, o, f, bad in corrupt.sites(kind, obj):
                    for idx in range(len(bad)):
                        n += 1
                        if self.main_variant and kind != "treeinfo":
                            continue
                        # what is at the destination before the failing dump: a plain file, nothing, a symlink to a file, a hard-linked file
                        yield {"kind": kind, "seed": seed, "site": desc, "idx": idx, "main_variant": self.main_variant,
                               "existing": (True, False, "symlink", "hardlink")[(idx + seed + n) % 4 if n % 3 == 0 else (idx + seed) % 2]}

    def native_eval(self, inputs):
        import os
        import tempfile
        from bounded import gen, corrupt
        kind, seed = inputs["kind"], inputs["seed"]
        obj = getattr(gen.G(self.src.mods, seed), kind)()
        obj = obj[0] if isinstance(obj, tuple) else obj
        d = tempfile.mkdtemp(prefix="c18_")
        path = os.path.join(d, "out")
        try:
            obj.dumps()
            before = None
            ex = inputs.get("existing", True)
            other = os.path.join(d, "other")
            if ex:
                obj.dump(other if ex in ("symlink", "hardlink") else path)
                if ex == "symlink":
                    os.symlink(other, path)
                elif ex == "hardlink":
                    os.link(other, path)
                before = open(path, "rb").read()
            kw = {}
            if inputs.get("main_variant"):
                uids = sorted(obj.variants.variants)
                if not uids:
                    return ("skip", None), {}
                kw = {"main_variant": uids[-1]}
            for desc, o, f, bad in corrupt.sites(kind, obj):
                if desc == inputs["site"]:
                    setattr(o, f, bad[inputs["idx"]])
                    break

            def snapshot():
                return (open(path, "rb").read() if os.path.exists(path) else None, os.path.islink(path),
                        open(other, "rb").read() if os.path.exists(other) else None)
            snap = snapshot()
            nat = native_call(obj.dump, path, **kw)
            if nat[0] == "raise" and nat[1] in (TypeError, ValueError):
                return nat, {"destination_not_opened_before_validation_failure": snapshot() == snap}
            return nat, {}
        finally:
            import shutil
            shutil.rmtree(d, ignore_errors=True)

    def describe(self, inputs):
        ex = inputs.get("existing", True)
        return "%s (generator seed %d) %s, then %s corrupted (bad value #%d) and dump(path%s) called" % (
            inputs["kind"], inputs["seed"], {True: "written to a file", False: "with no file at the destination",
                                            "symlink": "written to a file the destination is a symlink to",
                                            "hardlink": "written to a file the destination is a hard link of"}[ex],
            inputs["site"], inputs["idx"], ", main_variant=<last top-level variant>" if inputs.get("main_variant") else "")


class LoadsValidates(Contract):
    """MetadataBase.loads(s): the object is validated AFTER loading (a failing validate() propagates)."""
    name = "productmd.common.MetadataBase.loads"
    key = "io:common.MetadataBase.loads.validates"

    def __init__(self, src, T):
        self.src, self.T = src, T

    def setup(self, E):
        o = E.instantiate(("rpms", "Rpms"))
        return {"o": o, "mark": len(E.path.effects)}

    def call(self, E, st):
        keys = [(("rpms", "Rpms"), "validate"), (("rpms", "Rpms"), "load")]
        saved = dict((k, E.summaries.get(k)) for k in keys)
        E.summaries[keys[0]] = abstract_raiser("validate")

        def load(E_, o, args, kwargs):
            E_.path.effects.append(("call", "load"))
            return None
        E.summaries[keys[1]] = load
        try:
            return E.call(E.getattr_(st["o"], "loads"), [SV(sym.Val.VStr(z3.Const("arg.text", sym.S)))])
        finally:
            for k, v in saved.items():
                if v is None:
                    E.summaries.pop(k, None)
                else:
                    E.summaries[k] = v

    def post(self, E, st, out):
        eff = [e for e in E.path.effects[st["mark"]:] if e[0] in ("call", "validation_error")]
        calls = [e[1] for e in eff if e[0] == "call"]
        if out.kind == "raise":
            return {"only_validation_can_reject_after_load": any(e[0] == "validation_error" for e in eff)}
        return {"validates_after_loading": calls == ["load", "validate"]}

    def concretise(self, model, st):
        return None

    def native_eval(self, inputs):
        raise NotImplementedError


class LoadFromPath(Contract):
    """MetadataBase.load(path): the file at `path` is opened for reading and parsed, and deserialize() receives the document parsed by THIS
    call (so what a caller obtains is what the file holds now, whatever was loaded before and whatever was done to earlier loaded
    objects); nothing is opened for writing.  deserialize is recorded (its own contracts)."""
    name = "productmd.common.MetadataBase.load"
    key = "io:common.MetadataBase.load"
    STATE_CHECK = True      # deserialize (the specified change of the receiver) is a recorded stub here: load itself keeps no state

    def __init__(self, src, T):
        self.src, self.T = src, T

    def setup(self, E):
        o = E.instantiate(("rpms", "Rpms"))
        path = SV(sym.Val.VStr(z3.Const("arg.path", sym.S)))
        E.assume(Not(Or(sym.startswith(path, "http://"), sym.startswith(path, "https://"), sym.startswith(path, "ftp://"))))
        got = []

        def deser(E_, o_, args, kwargs):
            got.append(args[0])
            return None
        E.summaries[(("rpms", "Rpms"), "deserialize")] = deser
        return {"o": o, "path": path, "mark": len(E.path.effects), "got": got}

    def call(self, E, st):
        try:
            return E.call(E.getattr_(st["o"], "load"), [st["path"]])
        finally:
            E.summaries.pop((("rpms", "Rpms"), "deserialize"), None)

    def post(self, E, st, out):
        eff = E.path.effects[st["mark"]:]
        opens = [e for e in eff if e[0] == "open"]
        reads = [e for e in eff if e[0] == "read"]
        if out.kind == "raise":
            return {"nothing_opened_for_writing": not any(any(m in e[2] for m in "wax+") for e in opens)}
        return {"nothing_opened_for_writing": not any(any(m in e[2] for m in "wax+") for e in opens),
                "the_given_path_is_read": len(opens) == 1 and opens[0][1] is st["path"] and len(reads) == 1 and reads[0][1] is opens[0][3],
                "deserializes_the_document_parsed_by_this_call": len(st["got"]) == 1 and isinstance(st["got"][0], SymDict) and
                st["got"][0].name == "json_doc"}

    def concretise(self, model, st):
        return None

    def native_eval(self, inputs):
        raise NotImplementedError

    def history_search(self, run):
        """bounded: write a manifest, load it, change the LOADED object (no write), load the same path again: the second object must be
        what the file holds"""
        import os
        import shutil
        import tempfile
        from bounded import gen
        for kind in ("rpms", "modules", "extra_files", "images", "composeinfo"):
            d = tempfile.mkdtemp(prefix="c03_")
            try:
                obj = getattr(gen.G(self.src.mods, 5), kind)()
                obj = obj[0] if isinstance(obj, tuple) else obj
                p = os.path.join(d, "m.json")
                obj.dump(p)
                text = open(p).read()
                first = type(obj)()
                first.load(p)
                # mutate what the first load handed out (payload containers are what a cache would share)
                for attr in ("rpms", "modules", "extra_files"):
                    if isinstance(getattr(first, attr, None), dict):
                        getattr(first, attr).clear()
                if kind == "images":
                    first.images.clear()
                if kind == "composeinfo":
                    first.variants.variants.clear()
                second = type(obj)()
                second.load(p)
                if second.dumps() != text:
                    script = ("import os, tempfile, shutil\nfrom bounded import gen\nfrom pyvc.source import Source\n"
                              "src = Source(os.environ.get('VERIF_REPO', '/repo')); src.import_native()\n"
                              "obj = getattr(gen.G(src.mods, 5), %r)(); obj = obj[0] if isinstance(obj, tuple) else obj\n"
                              "d = tempfile.mkdtemp(); p = os.path.join(d, 'm.json'); obj.dump(p); text = open(p).read()\n"
                              "first = type(obj)(); first.load(p)\n"
                              "for a in ('rpms', 'modules', 'extra_files', 'images'):\n"
                              "    if isinstance(getattr(first, a, None), dict): getattr(first, a).clear()\n"
                              "second = type(obj)(); second.load(p); out = second.dumps(); shutil.rmtree(d)\n"
                              "if out != text: REPRODUCED('second load of an unchanged file returns what was done to the first loaded object')\n"
                              "NOT_REPRODUCED()\n" % kind)
                    return ("deserializes_the_document_parsed_by_this_call",
                            "%s manifest written, loaded, the loaded object emptied (file untouched), loaded again: the second object is not what "
                            "the file holds" % kind, script)
            except Exception:
                continue
            finally:
                shutil.rmtree(d, ignore_errors=True)
        return None


def ast_clauses(run, src):
    """AST clauses used by the effect-order proof: nobody but TreeInfo overrides dump; no serialize/validate method touches
    the file system (so the abstract summaries above are faithful)."""
    with run.obligation("dump.single_impl", "ast", ["productmd.*.dump"]) as ob:
        over = sorted(k for k, ci in src.classes.items() if "dump" in ci.methods)
        if over == [("common", "MetadataBase"), ("treeinfo", "TreeInfo")]:
            ob.discharged(note="dump is defined by MetadataBase and TreeInfo only")
        else:
            ob.undecided("dump is defined by %r: each implementation needs its own effect-order contract" % (over,))
    with run.obligation("serialize_and_validate_touch_no_file", "ast", ["productmd.*.serialize", "productmd.*._validate*"]) as ob:
        bad = []
        for key, ci in src.classes.items():
            for n, fn in ci.methods.items():
                if n == "serialize" or n.startswith("_validate") or n == "validate" or n.startswith("_assert"):
                    for x in ast.walk(fn):
                        if isinstance(x, ast.Call):
                            f = ast.unparse(x.func)
                            if f in ("open", "open_file_obj", "os.remove", "os.unlink", "os.rename") or f.endswith(".write") and "parser" not in f:
                                bad.append("%s.%s.%s calls %s" % (key[0], key[1], n, f))
        if bad:
            ob.undecided("; ".join(bad[:3]))
        else:
            ob.discharged()


def contracts(src, T):
    return [DumpEffectOrder(src, T, ("common", "MetadataBase"), ("composeinfo", "ComposeInfo")),
            DumpEffectOrder(src, T, ("treeinfo", "TreeInfo"), ("treeinfo", "TreeInfo")),
            DumpEffectOrder(src, T, ("treeinfo", "TreeInfo"), ("treeinfo", "TreeInfo"), main_variant=True),
            LoadsValidates(src, T), LoadFromPath(src, T)]
