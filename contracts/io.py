"""F-io contracts: order of validate / serialise / open / build in dump() (C18, C06), loads() validates (C07)."""
import ast

import z3

from pyvc import sym, concretise
from pyvc.sym import SV, And, Or, Not, Implies
from pyvc.engine import PyRaise, ExcVal, Obj
from pyvc.verify import Contract, Outcome, native_call


def abstract_raiser(tag):
    """summary of a callee whose contract says: returns normally or raises TypeError/ValueError, touching no file"""
    def summ(E, o, args, kwargs):
        E.path.effects.append(("call", tag))
        if E.decide(E.fresh("%s_returns" % tag, z3.BoolSort())):
            return None
        E.path.abstract = True
        cls = TypeError if E.decide(E.fresh("%s_TypeError" % tag, z3.BoolSort())) else ValueError
        E.path.effects.append(("validation_error", tag))
        raise PyRaise(ExcVal(cls, (tag,)))
    return summ


class DumpEffectOrder(Contract):
    """X.dump(path): whenever dump ends in TypeError/ValueError raised by validation (top level or inside a nested section
    writer), the destination has not been opened for writing -- so the file that was there is untouched."""

    def __init__(self, src, T, cls, holder_cls):
        self.src, self.T = src, T
        self.cls = cls                  # class that DEFINES dump
        self.holder = holder_cls        # concrete class of the receiver
        self.name = "productmd.%s.%s.dump" % cls
        self.key = "io:%s.%s.dump" % cls

    def setup(self, E):
        o = E.instantiate(self.holder)
        saved = {}
        for k in list(E.summaries):
            pass
        path = SV(sym.Val.VStr(z3.Const("arg.path", sym.S)))
        E.assume(Not(Or(sym.startswith(path, "http://"), sym.startswith(path, "https://"), sym.startswith(path, "ftp://"))))
        return {"o": o, "path": path, "mark": len(E.path.effects)}

    def call(self, E, st):
        o = st["o"]
        keys = [(self.holder, "validate"), (self.holder, "serialize")]
        saved = dict((k, E.summaries.get(k)) for k in keys)
        E.summaries[(self.holder, "validate")] = abstract_raiser("validate")
        E.summaries[(self.holder, "serialize")] = abstract_raiser("serialize")
        try:
            return E.call(E.getattr_(o, "dump"), [st["path"]])
        finally:
            for k, v in saved.items():
                if v is None:
                    E.summaries.pop(k, None)
                else:
                    E.summaries[k] = v

    def post(self, E, st, out):
        eff = E.path.effects[st["mark"]:]
        # any mode that creates or truncates the destination: w, a, x, +
        opens = [i for i, e in enumerate(eff) if e[0] == "open" and any(m in e[2] for m in "wax+")]
        errs = [i for i, e in enumerate(eff) if e[0] == "validation_error"]
        calls = [e[1] for e in eff if e[0] == "call"]
        if out.kind == "raise":
            return {"destination_not_opened_before_validation_failure":
                    not (out.exc_cls in (TypeError, ValueError) and opens and errs and opens[0] < errs[0])}
        writes = [e for e in eff if e[0] == "write"]
        # (a top-level validate() call is not demanded: classes without _validate* methods lose nothing without it)
        return {"serialises_before_writing": "serialize" in calls,
                "writes_serialised_data_to_destination": len(opens) == 1 and len(writes) == 1 and writes[0][1] is eff[opens[0]][3]}

    def concretise(self, model, st):
        return None

    # native harness: every nested validation failure of every format, destination compared byte for byte
    KINDS = {("common", "MetadataBase"): ["composeinfo", "images", "rpms", "modules", "extra_files", "discinfo"],
             ("treeinfo", "TreeInfo"): ["treeinfo"]}

    def sample_inputs(self, rng):
        from bounded import gen, corrupt
        for kind in self.KINDS[self.cls]:
            for seed in range(3):
                obj = getattr(gen.G(self.src.mods, seed), kind)()
                obj = obj[0] if isinstance(obj, tuple) else obj
                for desc, o, f, bad in corrupt.sites(kind, obj):
                    for idx in range(len(bad)):
                        yield {"kind": kind, "seed": seed, "site": desc, "idx": idx, "existing": (idx + seed) % 2 == 0}

    def native_eval(self, inputs):
        import os
        import tempfile
        from bounded import gen, corrupt
        kind, seed = inputs["kind"], inputs["seed"]
        obj = getattr(gen.G(self.src.mods, seed), kind)()
        obj = obj[0] if isinstance(obj, tuple) else obj
        d = tempfile.mkdtemp(prefix="c18_")
        path = os.path.join(d, "out")
        try:
            obj.dumps()
            before = None
            if inputs.get("existing", True):
                obj.dump(path)
                before = open(path, "rb").read()
            for desc, o, f, bad in corrupt.sites(kind, obj):
                if desc == inputs["site"]:
                    setattr(o, f, bad[inputs["idx"]])
                    break
            nat = native_call(obj.dump, path)
            after = open(path, "rb").read() if os.path.exists(path) else None
            if nat[0] == "raise" and nat[1] in (TypeError, ValueError):
                return nat, {"destination_not_opened_before_validation_failure": after == before}
            return nat, {}
        finally:
            import shutil
            shutil.rmtree(d, ignore_errors=True)

    def describe(self, inputs):
        return "%s (generator seed %d) %s, then %s corrupted (bad value #%d) and dump(path) called" % (
            inputs["kind"], inputs["seed"], "written to a file" if inputs.get("existing", True) else "with no file at the destination",
            inputs["site"], inputs["idx"])


class LoadsValidates(Contract):
    """MetadataBase.loads(s): the object is validated AFTER loading (a failing validate() propagates)."""
    name = "productmd.common.MetadataBase.loads"
    key = "io:common.MetadataBase.loads.validates"

    def __init__(self, src, T):
        self.src, self.T = src, T

    def setup(self, E):
        o = E.instantiate(("rpms", "Rpms"))
        return {"o": o, "mark": len(E.path.effects)}

    def call(self, E, st):
        keys = [(("rpms", "Rpms"), "validate"), (("rpms", "Rpms"), "load")]
        saved = dict((k, E.summaries.get(k)) for k in keys)
        E.summaries[keys[0]] = abstract_raiser("validate")

        def load(E_, o, args, kwargs):
            E_.path.effects.append(("call", "load"))
            return None
        E.summaries[keys[1]] = load
        try:
            return E.call(E.getattr_(st["o"], "loads"), [SV(sym.Val.VStr(z3.Const("arg.text", sym.S)))])
        finally:
            for k, v in saved.items():
                if v is None:
                    E.summaries.pop(k, None)
                else:
                    E.summaries[k] = v

    def post(self, E, st, out):
        eff = [e for e in E.path.effects[st["mark"]:] if e[0] in ("call", "validation_error")]
        calls = [e[1] for e in eff if e[0] == "call"]
        if out.kind == "raise":
            return {"only_validation_can_reject_after_load": any(e[0] == "validation_error" for e in eff)}
        return {"validates_after_loading": calls == ["load", "validate"]}

    def concretise(self, model, st):
        return None

    def native_eval(self, inputs):
        raise NotImplementedError


def ast_clauses(run, src):
    """AST clauses used by the effect-order proof: nobody but TreeInfo overrides dump; no serialize/validate method touches
    the file system (so the abstract summaries above are faithful)."""
    with run.obligation("dump.single_impl", "ast", ["productmd.*.dump"]) as ob:
        over = sorted(k for k, ci in src.classes.items() if "dump" in ci.methods)
        if over == [("common", "MetadataBase"), ("treeinfo", "TreeInfo")]:
            ob.discharged(note="dump is defined by MetadataBase and TreeInfo only")
        else:
            ob.undecided("dump is defined by %r: each implementation needs its own effect-order contract" % (over,))
    with run.obligation("serialize_and_validate_touch_no_file", "ast", ["productmd.*.serialize", "productmd.*._validate*"]) as ob:
        bad = []
        for key, ci in src.classes.items():
            for n, fn in ci.methods.items():
                if n == "serialize" or n.startswith("_validate") or n == "validate" or n.startswith("_assert"):
                    for x in ast.walk(fn):
                        if isinstance(x, ast.Call):
                            f = ast.unparse(x.func)
                            if f in ("open", "open_file_obj", "os.remove", "os.unlink", "os.rename") or f.endswith(".write") and "parser" not in f:
                                bad.append("%s.%s.%s calls %s" % (key[0], key[1], n, f))
        if bad:
            ob.undecided("; ".join(bad[:3]))
        else:
            ob.discharged()


def contracts(src, T):
    return [DumpEffectOrder(src, T, ("common", "MetadataBase"), ("composeinfo", "ComposeInfo")),
            DumpEffectOrder(src, T, ("treeinfo", "TreeInfo"), ("treeinfo", "TreeInfo")),
            LoadsValidates(src, T)]
