"""C04 / C06 / C07: .discinfo writer/reader pair (DiscInfo.serialize / DiscInfo.deserialize over the list of lines).
The text layer (build_file = "\\n".join, parse_file = readlines + strip) is exercised by the bounded stand-in."""
import copy

import z3

from pyvc import sym, concretise
from pyvc.sym import And, Or, Not, eq, SV
from pyvc.verify import Contract, native_call
from spec import fields as F
from .sections import _veq, _same

WS = " \t\n\r\x0b\x0c"


class DiscInfoRoundTrip(Contract):
    """DiscInfo.deserialize(serialize(x)) reproduces timestamp, description, arch and disc numbers, and a second serialize gives the same
    lines, for every finite non-zero float timestamp, every description/arch without leading/trailing blanks (description not starting
    or ending with a quote character), and disc_numbers == ['ALL'] or a list of k integers (k = 1, 2)."""

    def __init__(self, src, T, k):
        self.src, self.T, self.k = src, T, k
        self.name = "productmd.discinfo.DiscInfo.deserialize(serialize(x))[%s]" % ("ALL" if k == 0 else "%d disc numbers" % k)
        self.key = "rt:discinfo.DiscInfo:%d" % k

    def setup(self, E):
        d = E.instantiate(("discinfo", "DiscInfo"))
        d2 = E.instantiate(("discinfo", "DiscInfo"))
        d3 = E.instantiate(("discinfo", "DiscInfo"))
        ts = SV(sym.Val.VFloat(z3.Const("x.timestamp", z3.RealSort())))
        desc = SV(sym.Val.VStr(z3.Const("x.description", sym.S)))
        arch = SV(sym.Val.VStr(z3.Const("x.arch", sym.S)))
        nums = ["ALL"] if self.k == 0 else [SV(sym.Val.VInt(z3.Const("x.disc%d" % i, z3.IntSort()))) for i in range(self.k)]
        d.fields.update({"timestamp": ts, "description": desc, "arch": arch, "disc_numbers": list(nums)})
        E.assume(F.valid_discinfo(self.T, d))
        # representable in the file syntax: single line, no leading/trailing blanks; description not wrapped in quotes
        E.assume(sym.in_lang(desc, r"[^\s\"']([^\n\r]*[^\s\"'])?"))
        E.assume(sym.in_lang(arch, r"[^\s]([^\n\r]*[^\s])?"))
        for n in nums:
            if isinstance(n, SV):
                E.assume(sym.as_bool(sym.sint(n) >= 0))
        return {"d": d, "d2": d2, "d3": d3, "f": {"timestamp": ts, "description": desc, "arch": arch, "disc_numbers": nums},
                "lines": [], "lines2": []}

    def call(self, E, st):
        E.call(E.getattr_(st["d"], "serialize"), [st["lines"]])
        E.call(E.getattr_(st["d2"], "deserialize"), [st["lines"]])
        return E.call(E.getattr_(st["d2"], "serialize"), [st["lines2"]])

    def post(self, E, st, out):
        if out.kind == "raise":
            return {"write_read_cycle_succeeds": False}
        f, d2 = st["f"], st["d2"]
        l1, l2 = st["lines"], st["lines2"]
        return {"write_read_cycle_succeeds": True,
                "timestamp_reproduced": _veq(d2.fields["timestamp"], f["timestamp"]),
                "description_and_arch_reproduced": And(_veq(d2.fields["description"], f["description"]), _veq(d2.fields["arch"], f["arch"])),
                "disc_numbers_reproduced": _veq(d2.fields["disc_numbers"], f["disc_numbers"]),
                "four_lines_in_documented_order": len(l1) == 4 and And(_veq(l1[1], f["description"]), _veq(l1[2], f["arch"])),
                "second_write_identical": len(l1) == len(l2) and And(*[_veq(a, b) for a, b in zip(l1, l2)])}

    def concretise(self, model, st):
        def val(v):
            return [val(x) for x in v] if isinstance(v, list) else concretise.value_of(model, v)
        return dict((k, val(v)) for k, v in st["f"].items())

    def sample_inputs(self, rng):
        nums = {0: ["ALL"], 1: [1], 2: [1, 2]}[self.k]
        for ts in (1417653911.68, 1e-07, 2.0 ** 60, 0.1 + 0.2, -5.5, 1e22):
            for desc in ("Fedora 21", "x", "it's \"21\" beta"):
                yield {"timestamp": ts, "description": desc, "arch": "x86_64", "disc_numbers": list(nums)}
        if self.k:
            yield {"timestamp": 1.5, "description": "d", "arch": "a", "disc_numbers": [0] * self.k}
            yield {"timestamp": 1.5, "description": "d", "arch": "a", "disc_numbers": [10 ** 12] * self.k}

    def native_eval(self, inputs):
        D = self.src.mods["discinfo"].DiscInfo
        d, d2 = D(), D()
        for k, v in copy.deepcopy(inputs).items():
            setattr(d, k, v)
        import re
        if not (isinstance(inputs["timestamp"], float) and inputs["timestamp"] and inputs["timestamp"] == inputs["timestamp"]
                and abs(inputs["timestamp"]) != float("inf")
                and re.fullmatch(r"[^\s\"']([^\n\r]*[^\s\"'])?", inputs["description"]) and re.fullmatch(r"[^\s]([^\n\r]*[^\s])?", inputs["arch"])):
            return ("skip", None), None
        l1, l2 = [], []

        def cyc():
            d.serialize(l1)
            d2.deserialize(l1)
            d2.serialize(l2)
        nat = native_call(cyc)
        if nat[0] == "raise":
            return nat, {"write_read_cycle_succeeds": False}
        return nat, {"write_read_cycle_succeeds": True,
                     "timestamp_reproduced": type(d2.timestamp) is float and d2.timestamp == inputs["timestamp"],
                     "description_and_arch_reproduced": (d2.description, d2.arch) == (inputs["description"], inputs["arch"]),
                     "disc_numbers_reproduced": d2.disc_numbers == inputs["disc_numbers"] and
                     all(_same(a, b) for a, b in zip(d2.disc_numbers, inputs["disc_numbers"])),
                     "four_lines_in_documented_order": len(l1) == 4 and l1[1] == inputs["description"] and l1[2] == inputs["arch"],
                     "second_write_identical": l1 == l2}

    def describe(self, inputs):
        return "DiscInfo(%s) written and re-read" % ", ".join("%s=%s" % (k, concretise.py_repr(v)) for k, v in inputs.items())


def contracts(src, T):
    return [DiscInfoRoundTrip(src, T, k) for k in (0, 1, 2)]
