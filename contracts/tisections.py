"""F-ser / F-de contracts and round-trip lemmas for the flat treeinfo INI sections (C04, C06, C07, C17).
The parser is the A2 model of ConfigParser kept in the real SortedConfigParser object (pyvc/effects.py)."""
import copy

import z3

from pyvc import sym, concretise, effects
from pyvc.sym import And, Or, Not, Implies, If, eq, SV, is_none, is_str, truthy
from pyvc.engine import Obj, SymDict, ExcVal, PyRaise
from pyvc.verify import Contract, Outcome, native_call
from spec import fields as F
from .sections import _sv_fields, _veq, _same, layout_clause


def _ver(E_or_src):
    mods = getattr(E_or_src, "mods", None)
    return "%d.%d" % tuple(mods["common"].VERSION)


def lay_header(T, f, ctx):
    return {"version": "%d.%d" % T.VERSION, "type": "productmd.treeinfo"}


def lay_base_product(T, f, ctx):
    return {"name": f["name"], "version": f["version"], "short": f["short"]}


def lay_release(T, f, ctx):
    d = lay_base_product(T, f, ctx)
    d["is_layered"] = (truthy(f["is_layered"]), "true")
    return d


def lay_stage2(T, f, ctx):
    return {"mainimage": (truthy(f["mainimage"]), f["mainimage"]), "instimage": (truthy(f["instimage"]), f["instimage"])}


def lay_media(T, f, ctx):
    return {"discnum": sym.str_of_int(f["discnum"]) if not isinstance(f["discnum"], SV) else sym.str_of_int(SV(sym.Val.VInt(sym.sint(f["discnum"])))),
            "totaldiscs": sym.str_of_int(f["totaldiscs"]) if not isinstance(f["totaldiscs"], SV) else sym.str_of_int(SV(sym.Val.VInt(sym.sint(f["totaldiscs"]))))}


class TS(object):
    def __init__(self, cls, attr, section, fields, valid, layout, skip_if=None, repr_pre=None):
        self.cls, self.attr, self.section, self.fields, self.valid, self.layout = cls, attr, section, fields, valid, layout
        self.skip_if = skip_if          # condition under which the writer legitimately writes nothing (optional sections)
        self.repr_pre = repr_pre


def _text(v):
    """representable_ini for a text field: a str without '%' (interpolation) -- single-line/blank rules concern the file syntax (A2)"""
    return And(is_str(v), Not(sym.contains(v, "%")))


TI_SECTIONS = {
    "treeinfo.BaseProduct": TS(("treeinfo", "BaseProduct"), "base_product", "base_product", ["name", "version", "short"],
                               F.valid_ti_base_product, lay_base_product, repr_pre=lambda f: And(*[_text(f[k]) for k in ("name", "version", "short")])),
    "treeinfo.Release": TS(("treeinfo", "Release"), "release", "release", ["name", "version", "short", "is_layered"],
                           F.valid_ti_release, lay_release, repr_pre=lambda f: And(*[_text(f[k]) for k in ("name", "version", "short")])),
    "treeinfo.Stage2": TS(("treeinfo", "Stage2"), "stage2", "stage2", ["mainimage", "instimage"], F.valid_ti_stage2, lay_stage2,
                          skip_if=lambda f: And(Not(truthy(f["mainimage"])), Not(truthy(f["instimage"]))),
                          repr_pre=lambda f: And(Or(Not(truthy(f["mainimage"])), _text(f["mainimage"])),
                                                 Or(Not(truthy(f["instimage"])), _text(f["instimage"])))),
    "treeinfo.Media": TS(("treeinfo", "Media"), "media", "media", ["discnum", "totaldiscs"], F.valid_ti_media, lay_media,
                         skip_if=lambda f: And(Not(truthy(f["discnum"])), Not(truthy(f["totaldiscs"]))),
                         repr_pre=lambda f: And(sym.is_int(f["discnum"]), sym.is_int(f["totaldiscs"]))),
}


def _mk(E, s):
    ti = E.instantiate(("treeinfo", "TreeInfo"))
    ti.fields["header"].fields["version"] = "%d.%d" % tuple(E.mods["common"].VERSION)
    return ti, ti.fields[s.attr]


def _mk_nat(src, s):
    ti = src.mods["treeinfo"].TreeInfo()
    ti.header.set_current_version()
    return ti, getattr(ti, s.attr)


def _new_parser(E):
    return E.instantiate(("common", "SortedConfigParser"))


def _section(E, parser, name):
    secs = effects.parser_sections(E, parser)
    e = E.models.sd_lookup(secs, name, create=False)
    if e is None or e.present is not True:
        return None
    return e.value


class TiWriter(Contract):
    def __init__(self, src, T, name):
        self.src, self.T, self.s = src, T, TI_SECTIONS[name]
        self.name = "productmd.%s.serialize" % name
        self.key = "ser:" + name

    def setup(self, E):
        s = self.s
        ti, o = _mk(E, s)
        f = _sv_fields(E, o, s.fields, "x")
        if s.repr_pre is not None:
            E.assume(Or(Not(s.valid(self.T, o)), s.repr_pre(f)))     # representable in the file syntax (quantifier of C04)
        parser = _new_parser(E)
        return {"o": o, "f": f, "parser": parser, "before": dict(o.fields)}

    def call(self, E, st):
        return E.call(E.getattr_(st["o"], "serialize"), [st["parser"]])

    def post(self, E, st, out):
        s = self.s
        o = st["o"]
        pre = Obj(o.cls, "pre", 0)
        pre.fields = st["before"]
        valid = s.valid(self.T, pre)
        unchanged = all(o.fields.get(k) is v for k, v in st["before"].items())
        secs = effects.parser_sections(E, st["parser"])
        names = [k for k, _ in E.models.dict_items(secs)]
        skip = s.skip_if(st["f"]) if s.skip_if else False
        if out.kind == "raise":
            return {"raises_only_if_invalid": Not(valid), "raises_only_TypeError_ValueError": out.exc_cls in (TypeError, ValueError),
                    "nothing_written_on_refusal": names == [] or names == [s.section] and False, "object_unchanged": unchanged}
        sect = _section(E, st["parser"], s.section)
        if sect is None:
            return {"writes_only_valid_object": valid, "section_omitted_only_when_empty": skip if names == [] else False,
                    "object_unchanged": unchanged}
        return {"writes_only_valid_object": valid, "section_omitted_only_when_empty": Not(skip),
                "documented_layout": layout_clause(sect, s.layout(self.T, st["f"], None)) if names == [s.section] else False,
                "object_unchanged": unchanged}

    def concretise(self, model, st):
        return dict((k, concretise.value_of(model, v)) for k, v in st["f"].items())

    def native_eval(self, inputs):
        s = self.s
        ti, o = _mk_nat(self.src, s)
        for k, v in copy.deepcopy(inputs).items():
            setattr(o, k, v)
        valid = bool(s.valid(self.T, o))
        if valid and s.repr_pre is not None and not bool(s.repr_pre(copy.deepcopy(inputs))):
            return ("skip", None), {}
        parser = self.src.mods["common"].SortedConfigParser()
        nat = native_call(o.serialize, parser)
        same = all(_same(getattr(o, k), v) for k, v in inputs.items())
        skip = bool(s.skip_if(copy.deepcopy(inputs))) if s.skip_if else False
        if nat[0] == "raise":
            return nat, {"raises_only_if_invalid": not valid, "raises_only_TypeError_ValueError": nat[1] in (TypeError, ValueError),
                         "nothing_written_on_refusal": parser.sections() == [], "object_unchanged": same}
        if not parser.has_section(s.section):
            return nat, {"writes_only_valid_object": valid, "section_omitted_only_when_empty": skip and parser.sections() == [],
                         "object_unchanged": same}
        lay = s.layout(self.T, copy.deepcopy(inputs), None)
        exp = dict((k, (v[1] if isinstance(v, tuple) else v)) for k, v in lay.items() if not isinstance(v, tuple) or v[0])
        got = dict((k, parser._sections[s.section][k]) for k in parser._sections[s.section])
        return nat, {"writes_only_valid_object": valid, "section_omitted_only_when_empty": not skip,
                     "documented_layout": got == exp and parser.sections() == [s.section], "object_unchanged": same}

    def describe(self, inputs):
        return "treeinfo %s(%s).serialize(parser)" % (self.s.cls[1], ", ".join("%s=%s" % (k, concretise.py_repr(v)) for k, v in inputs.items()))


class TiRoundTrip(Contract):
    def __init__(self, src, T, name):
        self.src, self.T, self.s = src, T, TI_SECTIONS[name]
        self.name = "productmd.%s.deserialize(serialize(x))" % name
        self.key = "rt:" + name

    def setup(self, E):
        s = self.s
        ti, o = _mk(E, s)
        f = _sv_fields(E, o, s.fields, "x")
        E.assume(s.valid(self.T, o))
        if s.repr_pre is not None:
            E.assume(s.repr_pre(f))
        if s.skip_if is not None:
            E.assume(Not(s.skip_if(f)))
        ti2, o2 = _mk(E, s)
        return {"o": o, "f": f, "o2": o2, "parser": _new_parser(E)}

    def call(self, E, st):
        E.call(E.getattr_(st["o"], "serialize"), [st["parser"]])
        return E.call(E.getattr_(st["o2"], "deserialize"), [st["parser"]])

    def norm(self, f):
        out = dict(f)
        if "is_layered" in out:
            t = truthy(out["is_layered"])
            out["is_layered"] = t if isinstance(t, bool) else sym.mk_bool(sym.B(t))
        for k in ("mainimage", "instimage"):
            if k in out:
                t = truthy(out[k])
                out[k] = (out[k] if t is True else None) if isinstance(t, bool) else If(t, out[k], None)
        return out

    def post(self, E, st, out):
        if out.kind == "raise":
            return {"write_read_cycle_succeeds": False}
        nf = self.norm(st["f"])
        o2 = st["o2"]
        return {"write_read_cycle_succeeds": True,
                "fields_equal_after_reload": And(*[_veq(o2.fields[k], nf[k]) for k in self.s.fields]),
                "reloaded_object_is_valid": self.s.valid(self.T, o2)}

    def concretise(self, model, st):
        return dict((k, concretise.value_of(model, v)) for k, v in st["f"].items())

    def native_eval(self, inputs):
        s = self.s
        ti, o = _mk_nat(self.src, s)
        for k, v in copy.deepcopy(inputs).items():
            setattr(o, k, v)
        if not bool(s.valid(self.T, o)) or (s.repr_pre and not bool(s.repr_pre(copy.deepcopy(inputs)))) or \
                (s.skip_if and bool(s.skip_if(copy.deepcopy(inputs)))):
            return ("skip", None), {}
        ti2, o2 = _mk_nat(self.src, s)
        parser = self.src.mods["common"].SortedConfigParser()

        def cyc():
            o.serialize(parser)
            o2.deserialize(parser)
        nat = native_call(cyc)
        if nat[0] == "raise":
            return nat, {"write_read_cycle_succeeds": False}
        nf = self.norm(copy.deepcopy(inputs))
        return nat, {"write_read_cycle_succeeds": True, "fields_equal_after_reload": all(_same(getattr(o2, k), nf[k]) for k in s.fields),
                     "reloaded_object_is_valid": bool(s.valid(self.T, o2))}

    def describe(self, inputs):
        return "treeinfo %s(%s) written and re-read" % (self.s.cls[1], ", ".join("%s=%s" % (k, concretise.py_repr(v)) for k, v in inputs.items()))


def contracts(src, T):
    out = []
    for n in TI_SECTIONS:
        out.append(TiWriter(src, T, n))
        out.append(TiRoundTrip(src, T, n))
    return out
