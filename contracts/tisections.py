"""F-ser / F-de contracts and round-trip lemmas for the flat treeinfo INI sections (C04, C06, C07, C17).
The parser is the A2 model of ConfigParser kept in the real SortedConfigParser object (pyvc/effects.py)."""
import copy

import z3

from pyvc import sym, concretise, effects
from pyvc.sym import And, Or, Not, Implies, If, eq, SV, is_none, is_str, truthy
from pyvc.engine import Obj, SymDict, ExcVal, PyRaise
from pyvc.verify import Contract, Outcome, native_call
from spec import fields as F
from .sections import _sv_fields, _veq, _same, layout_clause


def _ver(E_or_src):
    mods = getattr(E_or_src, "mods", None)
    return "%d.%d" % tuple(mods["common"].VERSION)


def lay_header(T, f, ctx):
    return {"version": "%d.%d" % T.VERSION, "type": "productmd.treeinfo"}


def lay_base_product(T, f, ctx):
    return {"name": f["name"], "version": f["version"], "short": f["short"]}


def lay_release(T, f, ctx):
    d = lay_base_product(T, f, ctx)
    d["is_layered"] = (truthy(f["is_layered"]), "true")
    return d


def lay_stage2(T, f, ctx):
    return {"mainimage": (truthy(f["mainimage"]), f["mainimage"]), "instimage": (truthy(f["instimage"]), f["instimage"])}


def lay_media(T, f, ctx):
    return {"discnum": sym.str_of_int(f["discnum"]) if not isinstance(f["discnum"], SV) else sym.str_of_int(SV(sym.Val.VInt(sym.sint(f["discnum"])))),
            "totaldiscs": sym.str_of_int(f["totaldiscs"]) if not isinstance(f["totaldiscs"], SV) else sym.str_of_int(SV(sym.Val.VInt(sym.sint(f["totaldiscs"]))))}


class TS(object):
    def __init__(self, cls, attr, section, fields, valid, layout, skip_if=None, repr_pre=None):
        self.cls, self.attr, self.section, self.fields, self.valid, self.layout = cls, attr, section, fields, valid, layout
        self.skip_if = skip_if          # condition under which the writer legitimately writes nothing (optional sections)
        self.repr_pre = repr_pre


def _text(v):
    """representable_ini for a text field: a str -- single-line/blank rules concern the file syntax (A2)"""
    return is_str(v)


TI_SECTIONS = {
    "treeinfo.BaseProduct": TS(("treeinfo", "BaseProduct"), "base_product", "base_product", ["name", "version", "short"],
                               F.valid_ti_base_product, lay_base_product, repr_pre=lambda f: And(*[_text(f[k]) for k in ("name", "version", "short")])),
    "treeinfo.Release": TS(("treeinfo", "Release"), "release", "release", ["name", "version", "short", "is_layered"],
                           F.valid_ti_release, lay_release, repr_pre=lambda f: And(*[_text(f[k]) for k in ("name", "version", "short")])),
    "treeinfo.Stage2": TS(("treeinfo", "Stage2"), "stage2", "stage2", ["mainimage", "instimage"], F.valid_ti_stage2, lay_stage2,
                          skip_if=lambda f: And(Not(truthy(f["mainimage"])), Not(truthy(f["instimage"]))),
                          repr_pre=lambda f: And(Or(Not(truthy(f["mainimage"])), _text(f["mainimage"])),
                                                 Or(Not(truthy(f["instimage"])), _text(f["instimage"])))),
    "treeinfo.Media": TS(("treeinfo", "Media"), "media", "media", ["discnum", "totaldiscs"], F.valid_ti_media, lay_media,
                         skip_if=lambda f: And(Not(truthy(f["discnum"])), Not(truthy(f["totaldiscs"]))),
                         repr_pre=lambda f: And(sym.is_int(f["discnum"]), sym.is_int(f["totaldiscs"]))),
}


def _mk(E, s):
    ti = E.instantiate(("treeinfo", "TreeInfo"))
    ti.fields["header"].fields["version"] = "%d.%d" % tuple(E.mods["common"].VERSION)
    return ti, ti.fields[s.attr]


def _mk_nat(src, s):
    ti = src.mods["treeinfo"].TreeInfo()
    ti.header.set_current_version()
    return ti, getattr(ti, s.attr)


def _new_parser(E):
    return E.instantiate(("common", "SortedConfigParser"))


def _section(E, parser, name):
    secs = effects.parser_sections(E, parser)
    e = E.models.sd_lookup(secs, name, create=False)
    if e is None or e.present is not True:
        return None
    return e.value


class TiWriter(Contract):
    def __init__(self, src, T, name):
        self.src, self.T, self.s = src, T, TI_SECTIONS[name]
        self.name = "productmd.%s.serialize" % name
        self.key = "ser:" + name

    def setup(self, E):
        s = self.s
        ti, o = _mk(E, s)
        f = _sv_fields(E, o, s.fields, "x")
        if s.repr_pre is not None:
            E.assume(Or(Not(s.valid(self.T, o)), s.repr_pre(f)))     # representable in the file syntax (quantifier of C04)
        parser = _new_parser(E)
        return {"o": o, "f": f, "parser": parser, "before": dict(o.fields)}

    def call(self, E, st):
        return E.call(E.getattr_(st["o"], "serialize"), [st["parser"]])

    def post(self, E, st, out):
        s = self.s
        o = st["o"]
        pre = Obj(o.cls, "pre", 0)
        pre.fields = st["before"]
        valid = s.valid(self.T, pre)
        unchanged = all(o.fields.get(k) is v for k, v in st["before"].items())
        secs = effects.parser_sections(E, st["parser"])
        names = [k for k, _ in E.models.dict_items(secs)]
        skip = s.skip_if(st["f"]) if s.skip_if else False
        if out.kind == "raise":
            return {"raises_only_if_invalid": Not(valid), "raises_only_TypeError_ValueError": out.exc_cls in (TypeError, ValueError),
                    "nothing_written_on_refusal": names == [] or names == [s.section] and False, "object_unchanged": unchanged}
        sect = _section(E, st["parser"], s.section)
        if sect is None:
            return {"writes_only_valid_object": valid, "section_omitted_only_when_empty": skip if names == [] else False,
                    "object_unchanged": unchanged}
        return {"writes_only_valid_object": valid, "section_omitted_only_when_empty": Not(skip),
                "documented_layout": layout_clause(sect, s.layout(self.T, st["f"], None)) if names == [s.section] else False,
                "object_unchanged": unchanged}

    def concretise(self, model, st):
        return dict((k, concretise.value_of(model, v)) for k, v in st["f"].items())

    def native_eval(self, inputs):
        s = self.s
        ti, o = _mk_nat(self.src, s)
        for k, v in copy.deepcopy(inputs).items():
            setattr(o, k, v)
        valid = bool(s.valid(self.T, o))
        if valid and s.repr_pre is not None and not bool(s.repr_pre(copy.deepcopy(inputs))):
            return ("skip", None), {}
        parser = self.src.mods["common"].SortedConfigParser()
        nat = native_call(o.serialize, parser)
        same = all(_same(getattr(o, k), v) for k, v in inputs.items())
        skip = bool(s.skip_if(copy.deepcopy(inputs))) if s.skip_if else False
        if nat[0] == "raise":
            return nat, {"raises_only_if_invalid": not valid, "raises_only_TypeError_ValueError": nat[1] in (TypeError, ValueError),
                         "nothing_written_on_refusal": parser.sections() == [], "object_unchanged": same}
        if not parser.has_section(s.section):
            return nat, {"writes_only_valid_object": valid, "section_omitted_only_when_empty": skip and parser.sections() == [],
                         "object_unchanged": same}
        lay = s.layout(self.T, copy.deepcopy(inputs), None)
        exp = dict((k, (v[1] if isinstance(v, tuple) else v)) for k, v in lay.items() if not isinstance(v, tuple) or v[0])
        got = dict((k, parser._sections[s.section][k]) for k in parser._sections[s.section])
        return nat, {"writes_only_valid_object": valid, "section_omitted_only_when_empty": not skip,
                     "documented_layout": got == exp and parser.sections() == [s.section], "object_unchanged": same}

    def describe(self, inputs):
        return "treeinfo %s(%s).serialize(parser)" % (self.s.cls[1], ", ".join("%s=%s" % (k, concretise.py_repr(v)) for k, v in inputs.items()))


class TiRoundTrip(Contract):
    def __init__(self, src, T, name):
        self.src, self.T, self.s = src, T, TI_SECTIONS[name]
        self.name = "productmd.%s.deserialize(serialize(x))" % name
        self.key = "rt:" + name

    def setup(self, E):
        s = self.s
        ti, o = _mk(E, s)
        f = _sv_fields(E, o, s.fields, "x")
        E.assume(s.valid(self.T, o))
        if s.repr_pre is not None:
            E.assume(s.repr_pre(f))
        if s.skip_if is not None:
            E.assume(Not(s.skip_if(f)))
        ti2, o2 = _mk(E, s)
        return {"o": o, "f": f, "o2": o2, "parser": _new_parser(E)}

    def call(self, E, st):
        E.call(E.getattr_(st["o"], "serialize"), [st["parser"]])
        return E.call(E.getattr_(st["o2"], "deserialize"), [st["parser"]])

    def norm(self, f):
        out = dict(f)
        if "is_layered" in out:
            t = truthy(out["is_layered"])
            out["is_layered"] = t if isinstance(t, bool) else sym.mk_bool(sym.B(t))
        for k in ("mainimage", "instimage"):
            if k in out:
                t = truthy(out[k])
                out[k] = (out[k] if t is True else None) if isinstance(t, bool) else If(t, out[k], None)
        return out

    def post(self, E, st, out):
        if out.kind == "raise":
            return {"write_read_cycle_succeeds": False}
        nf = self.norm(st["f"])
        o2 = st["o2"]
        return {"write_read_cycle_succeeds": True,
                "fields_equal_after_reload": And(*[_veq(o2.fields[k], nf[k]) for k in self.s.fields]),
                "reloaded_object_is_valid": self.s.valid(self.T, o2)}

    def concretise(self, model, st):
        return dict((k, concretise.value_of(model, v)) for k, v in st["f"].items())

    def native_eval(self, inputs):
        s = self.s
        ti, o = _mk_nat(self.src, s)
        for k, v in copy.deepcopy(inputs).items():
            setattr(o, k, v)
        if not bool(s.valid(self.T, o)) or (s.repr_pre and not bool(s.repr_pre(copy.deepcopy(inputs)))) or \
                (s.skip_if and bool(s.skip_if(copy.deepcopy(inputs)))):
            return ("skip", None), {}
        ti2, o2 = _mk_nat(self.src, s)
        parser = self.src.mods["common"].SortedConfigParser()

        def cyc():
            o.serialize(parser)
            o2.deserialize(parser)
        nat = native_call(cyc)
        if nat[0] == "raise":
            return nat, {"write_read_cycle_succeeds": False}
        nf = self.norm(copy.deepcopy(inputs))
        return nat, {"write_read_cycle_succeeds": True, "fields_equal_after_reload": all(_same(getattr(o2, k), nf[k]) for k in s.fields),
                     "reloaded_object_is_valid": bool(s.valid(self.T, o2))}

    def describe(self, inputs):
        return "treeinfo %s(%s) written and re-read" % (self.s.cls[1], ", ".join("%s=%s" % (k, concretise.py_repr(v)) for k, v in inputs.items()))



# ([release]/short is read leniently: when absent it defaults to the name -- derived from the code, the format description lists it
# without saying either way)
REQUIRED_OPTIONS = {"treeinfo.BaseProduct": ["name", "version", "short"], "treeinfo.Release": ["name", "version"],
                    "treeinfo.Stage2": [], "treeinfo.Media": ["discnum", "totaldiscs"]}
ALL_OPTIONS = {"treeinfo.BaseProduct": ["name", "version", "short"], "treeinfo.Release": ["name", "version", "short", "is_layered"],
               "treeinfo.Stage2": ["mainimage", "instimage"], "treeinfo.Media": ["discnum", "totaldiscs"]}


class TiReader(Contract):
    """X.deserialize(parser) of a current-version treeinfo whose [section] holds ANY subset of the documented options, each with an
    arbitrary text value (C07): a normal return means every REQUIRED option was present and the loaded object satisfies every
    documented rule.  (A reader that invents a value for a missing required option, or lets an out-of-domain value through, fails.)"""

    def __init__(self, src, T, name):
        self.src, self.T, self.s, self.sname = src, T, TI_SECTIONS[name], name
        self.name = "productmd.%s.deserialize[any subset of options, any text]" % name
        self.key = "de:" + name

    def setup(self, E):
        s = self.s
        ti, o = _mk(E, s)
        parser = _new_parser(E)
        E.call(E.getattr_(parser, "add_section"), [s.section])
        present, vals = {}, {}
        for opt in ALL_OPTIONS[self.sname]:
            present[opt] = bool(E.decide(E.fresh("has_%s" % opt, z3.BoolSort())))
            vals[opt] = SV(sym.Val.VStr(z3.Const("opt.%s" % opt, sym.S)))
            if present[opt]:
                E.call(E.getattr_(parser, "set"), [s.section, opt, vals[opt]])
        return {"o": o, "parser": parser, "present": present, "vals": vals}

    def call(self, E, st):
        return E.call(E.getattr_(st["o"], "deserialize"), [st["parser"]])

    def post(self, E, st, out):
        if out.kind == "raise":
            return {"returns_only_with_required_options": True}
        return {"returns_only_with_required_options": all(st["present"][k] for k in REQUIRED_OPTIONS[self.sname]),
                "loaded_object_is_valid": self.s.valid(self.T, st["o"])}

    def concretise(self, model, st):
        return {"options": dict((k, concretise.value_of(model, v)) for k, v in st["vals"].items() if st["present"][k])}

    def sample_inputs(self, rng):
        import itertools
        opts = ALL_OPTIONS[self.sname]
        pool = {"discnum": ["2", "x", "", "0"], "totaldiscs": ["3", "1.5", ""], "is_layered": ["true", "false", "1", "maybe"]}
        for mask in itertools.product((False, True), repeat=len(opts)):
            base = dict((o, pool.get(o, ["text"])[0]) for o, m in zip(opts, mask) if m)
            yield {"options": base}
            for o in base:
                for alt in pool.get(o, ["", " "])[1:]:
                    yield {"options": dict(base, **{o: alt})}

    def native_eval(self, inputs):
        s = self.s
        ti, o = _mk_nat(self.src, s)
        parser = self.src.mods["common"].SortedConfigParser()
        parser.add_section(s.section)
        for k, v in inputs["options"].items():
            if not isinstance(v, str) or "\n" in v or v.strip() != v:
                return ("skip", None), {}
            parser.set(s.section, k, v)
        nat = native_call(o.deserialize, parser)
        if nat[0] == "raise":
            return nat, {"returns_only_with_required_options": True}
        return nat, {"returns_only_with_required_options": all(k in inputs["options"] for k in REQUIRED_OPTIONS[self.sname]),
                     "loaded_object_is_valid": bool(s.valid(self.T, o))}

    def describe(self, inputs):
        return "treeinfo %s.deserialize of [%s] with options %r" % (self.s.cls[1], self.s.section, inputs["options"])

def contracts(src, T):
    out = []
    for n in TI_SECTIONS:
        out.append(TiWriter(src, T, n))
        out.append(TiRoundTrip(src, T, n))
    return out


# ---------------------------------------------------------------------------------------------------------------------
# C17: the legacy [general] section mirrors the authoritative sections
# ---------------------------------------------------------------------------------------------------------------------
class GeneralMirrors(Contract):
    """TreeInfo.serialize(parser, main_variant): [general] family/version/name/arch/platforms/timestamp equal [release] name/version,
    '<name> <version>', [tree] arch, [tree] platforms and str(int(build_timestamp)); 'variants' = sorted top-level keys; 'variant' is the
    requested main variant or else the first top-level key; packagedir/repository are that variant's packages/repository (in a 'src'
    tree falling back to source_packages/source_repository).  Stated for trees with 1 or 2 top-level variants (symbolic names and
    paths) and a platform set {p} (symbolic): bounded in the NUMBER of variants/platforms, unbounded in every value."""

    def __init__(self, src, T, nvar, main, mode):
        # mode 'flat': release/tree/platform values symbolic, variant paths fixed; mode 'paths': the four path fields of every
        # variant and the tree arch symbolic, release/timestamp/platform fixed  (keeps the number of paths small)
        self.src, self.T, self.nvar, self.main, self.mode = src, T, nvar, main, mode
        self.name = "productmd.treeinfo.TreeInfo.serialize[general:%s](%d variants%s)" % (mode, nvar, ", main_variant given" if main else "")
        self.key = "gen:%s:%d:%d" % (mode, nvar, int(main))

    PATHS = ("packages", "repository", "source_packages", "source_repository")

    def setup(self, E):
        from pyvc.models import ListSet
        ti, _ = _mk(E, TI_SECTIONS["treeinfo.Release"])
        f = {}

        FIXED = {"rel.name": "Fedora", "rel.version": "21", "rel.short": "F", "tree.ts": 1417653911, "tree.p": "xen"}

        def sv(name, o, attr, pre=None):
            if self.mode.startswith("paths") and name in FIXED:
                v = FIXED[name]
            else:
                v = SV(z3.Const("g.%s" % name, sym.Val))
                E.assume(concretise.wellformed(v))
            o.fields[attr] = v
            f[name] = v
            return v
        rel, tree = ti.fields["release"], ti.fields["tree"]
        for a in ("name", "version", "short"):
            sv("rel." + a, rel, a)
        rel.fields["is_layered"] = False
        sv("tree.arch", tree, "arch")
        sv("tree.ts", tree, "build_timestamp")
        p = sv("tree.p", tree, "platforms")
        tree.fields["platforms"] = ListSet([p])
        E.assume(is_str(p))
        E.assume(F.valid_ti_release(self.T, rel))
        E.assume(F.valid_ti_tree(self.T, tree))
        E.assume(And(*[_text(f[k]) for k in ("rel.name", "rel.version", "rel.short", "tree.arch", "tree.p")]))
        E.assume(sym.is_int(f["tree.ts"]))          # float timestamps: bounded stand-in (float->int->str is A5)
        vs = []
        for i in range(self.nvar):
            v = E.instantiate(("treeinfo", "Variant"), [ti])
            uid = SV(sym.Val.VStr(z3.Const("g.v%d.uid" % i, sym.S)))
            E.assume(And(sym.in_lang(uid, r"[A-Za-z0-9]+"), _text(uid)))
            v.fields.update({"id": uid, "uid": uid, "name": "N%d" % i, "type": "variant"})
            f["v%d.uid" % i] = uid
            for pn in self.PATHS:
                if self.mode == "flat":
                    pv = {"packages": "Packages", "repository": "."}.get(pn)
                elif (self.mode == "paths-pkg") != (pn in ("packages", "source_packages")):
                    pv = None
                else:
                    pv = SV(z3.Const("g.v%d.%s" % (i, pn), sym.Val))
                    E.assume(Or(is_none(pv), _text(pv)))
                v.fields["paths"].fields[pn] = pv
                f["v%d.%s" % (i, pn)] = pv
            vs.append(v)
        if self.nvar == 2:
            E.assume(Not(eq(f["v0.uid"], f["v1.uid"])))
        for v in vs:
            E.models.sd_set(ti.fields["variants"].fields["variants"], v.fields["uid"], v)
        mv = None
        if self.main:
            # the requested main variant is one of the top-level variants
            mv = f["v%d.uid" % (self.nvar - 1)]
        return {"ti": ti, "f": f, "vs": vs, "mv": mv, "parser": _new_parser(E)}

    def call(self, E, st):
        return E.call(E.getattr_(st["ti"], "serialize"), [st["parser"]], {"main_variant": st["mv"]})

    def post(self, E, st, out):
        if out.kind == "raise":
            return {"valid_tree_is_written": False}
        f = st["f"]
        gen = _section(E, st["parser"], "general")
        rel = _section(E, st["parser"], "release")
        tree = _section(E, st["parser"], "tree")
        if gen is None or rel is None or tree is None:
            return {"general_section_written": False}
        g = dict((e.key, e.value) for e in gen.entries if e.present is True and not isinstance(e.key, SV))
        r = dict((e.key, e.value) for e in rel.entries if e.present is True and not isinstance(e.key, SV))
        t = dict((e.key, e.value) for e in tree.entries if e.present is True and not isinstance(e.key, SV))
        s_ = lambda k: SV(sym.Val.VStr(sym.Val.s(f[k].t))) if isinstance(f[k], SV) else f[k]
        cl = {"general_section_written": True,
              "family_version_name_mirror_release": And(_veq(g.get("family"), r.get("name")), _veq(g.get("version"), r.get("version")),
                                                        _veq(g.get("name"), sym.concat(s_("rel.name"), " ", s_("rel.version")))),
              "arch_platforms_mirror_tree": And(_veq(g.get("arch"), t.get("arch")), _veq(g.get("platforms"), t.get("platforms")),
                                                _veq(t.get("arch"), f["tree.arch"])),
              "timestamp_is_integer_build_timestamp": _veq(g.get("timestamp"), sym.str_of_int(SV(sym.Val.VInt(sym.sint(f["tree.ts"]))) if isinstance(f["tree.ts"], SV) else f["tree.ts"]))}
        # main variant: requested, else the alphabetically first top-level key
        uids = [f["v%d.uid" % i] for i in range(self.nvar)]
        if self.main:
            want = st["mv"]
            idx = self.nvar - 1
            main_ok = _veq(g.get("variant"), want)
            sel = [(True, idx)]
        elif self.nvar == 1:
            main_ok = _veq(g.get("variant"), uids[0])
            sel = [(True, 0)]
        else:
            lt = sym.as_bool(sym.sstr(uids[0]) < sym.sstr(uids[1]))
            main_ok = And(Implies(lt, _veq(g.get("variant"), uids[0])), Implies(Not(lt), _veq(g.get("variant"), uids[1])))
            sel = [(lt, 0), (Not(lt), 1)]
        cl["variant_is_requested_or_first"] = main_ok
        if self.nvar == 1:
            cl["variants_lists_sorted_top_level"] = _veq(g.get("variants"), uids[0])
        else:
            lt = sym.as_bool(sym.sstr(uids[0]) < sym.sstr(uids[1]))
            cl["variants_lists_sorted_top_level"] = And(
                Implies(lt, _veq(g.get("variants"), sym.concat(uids[0], ",", uids[1]))),
                Implies(Not(lt), _veq(g.get("variants"), sym.concat(uids[1], ",", uids[0]))))
        cl["tree_variants_option_sorted_like_general"] = _veq(t.get("variants"), g.get("variants"))
        is_src = eq(f["tree.arch"], "src")
        pk = []
        for cond, i in sel:
            for opt, prim, fall in (("packagedir", "packages", "source_packages"), ("repository", "repository", "source_repository")):
                pv, fv = f["v%d.%s" % (i, prim)], f["v%d.%s" % (i, fall)]
                got = g.get(opt, None)
                has = opt in g
                exp_present = Or(Not(is_none(pv)), And(is_src, Not(is_none(fv))))
                if has:
                    pk.append(Implies(cond, And(exp_present, Implies(Not(is_none(pv)), _veq(got, pv)),
                                                Implies(And(is_none(pv), is_src, Not(is_none(fv))), _veq(got, fv)))))
                else:
                    pk.append(Implies(cond, Not(exp_present)))
        cl["packagedir_repository_of_main_variant"] = And(*pk)
        return cl

    def concretise(self, model, st):
        return dict((k, v if not isinstance(v, SV) else concretise.value_of(model, v)) for k, v in st["f"].items())

    def sample_inputs(self, rng):
        base = {"rel.name": "Fedora", "rel.version": "21", "rel.short": "F", "tree.arch": "x86_64", "tree.ts": 1417653911, "tree.p": "xen"}
        for uids in (("Server", "Client"), ("A", "B"), ("BaseOS", "AppStream")):
            for arch in ("x86_64", "src"):
                f = dict(base, **{"tree.arch": arch})
                for i in range(self.nvar):
                    f["v%d.uid" % i] = uids[i]
                    for pn in self.PATHS:
                        f["v%d.%s" % (i, pn)] = "%s/%s" % (uids[i], pn) if (i + len(pn)) % 3 else None
                    if self.mode == "flat":
                        f.update({"v%d.packages" % i: "Packages", "v%d.repository" % i: ".", "v%d.source_packages" % i: None,
                                  "v%d.source_repository" % i: None})
                yield f

    def _native_tree(self, f):
        TI = self.src.mods["treeinfo"]
        ti = TI.TreeInfo()
        ti.release.name, ti.release.version, ti.release.short = f["rel.name"], f["rel.version"], f["rel.short"]
        ti.tree.arch, ti.tree.build_timestamp, ti.tree.platforms = f["tree.arch"], f["tree.ts"], set([f["tree.p"]])
        uids = [f["v%d.uid" % i] for i in range(self.nvar)]
        if len(set(uids)) != len(uids) or not all(isinstance(u, str) for u in uids):
            return None, uids
        for i, u in enumerate(uids):
            v = TI.Variant(ti)
            v.id = v.uid = u
            v.name, v.type = "N%d" % i, "variant"
            for pn in self.PATHS:
                setattr(v.paths, pn, f.get("v%d.%s" % (i, pn)))
            ti.variants.variants[u] = v          # inserted in index order, whatever the names are
        try:
            ti.release.validate()
            ti.tree.validate()
        except Exception:
            return None, uids
        if not isinstance(f["tree.ts"], int):
            return None, uids
        return ti, uids

    def _native_clauses(self, f, uids, parser, mv):
        if not (parser.has_section("general") and parser.has_section("release") and parser.has_section("tree")):
            return {"general_section_written": False}
        g, r, t = dict(parser.items("general")), dict(parser.items("release")), dict(parser.items("tree"))
        first = mv if mv is not None else sorted(uids)[0]
        i = uids.index(first)
        is_src = f["tree.arch"] == "src"
        pk = True
        for opt, prim, fall in (("packagedir", "packages", "source_packages"), ("repository", "repository", "source_repository")):
            pv, fv = f.get("v%d.%s" % (i, prim)), f.get("v%d.%s" % (i, fall))
            exp = pv if pv is not None else (fv if is_src else None)
            pk = pk and g.get(opt) == exp
        return {"general_section_written": True,
                "family_version_name_mirror_release": g.get("family") == r.get("name") and g.get("version") == r.get("version") and
                g.get("name") == "%s %s" % (f["rel.name"], f["rel.version"]),
                "arch_platforms_mirror_tree": g.get("arch") == t.get("arch") == f["tree.arch"] and g.get("platforms") == t.get("platforms") ==
                ",".join(sorted(set([f["tree.p"], f["tree.arch"]]))),
                "timestamp_is_integer_build_timestamp": g.get("timestamp") == str(int(f["tree.ts"])),
                "variant_is_requested_or_first": g.get("variant") == first,
                "variants_lists_sorted_top_level": g.get("variants") == ",".join(sorted(uids)),
                "tree_variants_option_sorted_like_general": t.get("variants") == g.get("variants"),
                "packagedir_repository_of_main_variant": pk}

    def native_eval(self, f):
        ti, uids = self._native_tree(f)
        if ti is None:
            return ("skip", None), None
        parser = ti._get_parser()
        mv = uids[self.nvar - 1] if self.main else None
        nat = native_call(ti.serialize, parser, main_variant=mv)
        if nat[0] == "raise":
            return nat, {"valid_tree_is_written": False}
        return nat, self._native_clauses(f, uids, parser, mv)

    def history_search(self, run):
        """bounded: the SAME tree object written several times -- first with another main variant, then (after the tree arch was changed) as
        the contract's own call: the second output must be what a fresh object with the same content gives (the documented function of
        the content)."""
        import random
        for f in self.sample_inputs(random.Random(run.seed)):
            for other_arch in (None, "aarch64"):
                ti, uids = self._native_tree(f)
                if ti is None:
                    continue
                # (the second call is made without a main variant: "or else the alphabetically first" must not remember the first call)
                mv = None
                try:
                    ti.serialize(ti._get_parser(), main_variant=sorted(uids)[-1])
                    f2 = dict(f)
                    if other_arch and f["tree.arch"] != other_arch:
                        ti.tree.arch = other_arch
                        f2["tree.arch"] = other_arch
                    parser = ti._get_parser()
                    ti.serialize(parser, main_variant=mv)
                except Exception:
                    continue
                cl = self._native_clauses(f2, uids, parser, mv)
                for k, v in cl.items():
                    if v is False:
                        desc = ("%s, called on an object that had been written before with main_variant=%r%s"
                                % (self.describe(f), sorted(uids)[-1], " and whose tree arch was then set to %r" % other_arch if other_arch else ""))
                        script = ("import contracts\nfrom pyvc.source import Source\nsrc = Source(os.environ.get('VERIF_REPO', '/repo')); src.import_native()\n"
                                  "c = contracts.get(%r, src)\nf = %s\nti, uids = c._native_tree(f)\n"
                                  "ti.serialize(ti._get_parser(), main_variant=sorted(uids)[-1])\nf2 = dict(f)\n"
                                  "if %r: ti.tree.arch = %r; f2['tree.arch'] = %r\n"
                                  "parser = ti._get_parser(); ti.serialize(parser, main_variant=%r)\ncl = c._native_clauses(f2, uids, parser, %r)\nprint(cl)\n"
                                  "if cl.get(%r) is False: REPRODUCED('second write of the same object differs from the documented function of its content: %s')\n"
                                  "NOT_REPRODUCED()\n" % (self.key, concretise.py_repr(f), bool(other_arch and f["tree.arch"] != other_arch), other_arch, other_arch,
                                                           mv, mv, k, k))
                        return (k, desc + " -> clause '%s' fails" % k, script)
        return None

    def describe(self, f):
        return "TreeInfo.serialize(%s) with top-level variants inserted in the order %r" % (
            "main_variant=%r" % f["v%d.uid" % (self.nvar - 1)] if self.main else "no main_variant", [f["v%d.uid" % i] for i in range(self.nvar)])


def contracts(src, T):          # noqa: F811
    out = []
    for n in TI_SECTIONS:
        out.append(TiWriter(src, T, n))
        out.append(TiRoundTrip(src, T, n))
    for mode in ("flat", "paths-pkg", "paths-repo"):
        for nvar in (1, 2):
            for main in (False, True):
                if mode == "flat" and main and nvar == 1:
                    continue
                out.append(GeneralMirrors(src, T, nvar, main, mode))
    return out


class TreeRoundTrip(Contract):
    """TreeInfo.serialize + TreeInfo.deserialize on a tree with one top-level variant T, one child C of ANY type (symbolic), one image
    table, one checksum, stage2 and media: every fact is read back as written (section naming by variant type, option names kept,
    platforms incl. the arch, integer timestamp).  Bounded in SHAPE, unbounded in values."""
    name = "productmd.treeinfo.TreeInfo.deserialize(serialize(tree))"
    key = "rt:treeinfo.TreeInfo"

    def __init__(self, src, T):
        self.src, self.T = src, T

    def setup(self, E):
        from pyvc.models import ListSet
        from pyvc.engine import Entry
        ti, _ = _mk(E, TI_SECTIONS["treeinfo.Release"])
        ti2, _ = _mk(E, TI_SECTIONS["treeinfo.Release"])
        f = {}

        def s(name, o, attr, lang=None):
            v = SV(sym.Val.VStr(z3.Const("t.%s" % name, sym.S)))
            if lang:
                E.assume(sym.in_lang(v, lang))
            o.fields[attr] = v
            f[name] = v
            return v
        rel, tree = ti.fields["release"], ti.fields["tree"]
        s("rel.name", rel, "name")
        s("rel.short", rel, "short")
        s("rel.version", rel, "version", r"[0-9]+(\.[0-9]+)*")
        rel.fields["is_layered"] = False
        arch = s("tree.arch", tree, "arch", r"[A-Za-z0-9_.-]+")
        ts = SV(z3.Const("t.ts", sym.Val))
        E.assume(And(sym.is_strict_int(ts), Not(eq(ts, 0))))
        E.assume(sym.as_bool(z3.And(sym.sint(ts) >= -2 ** 53, sym.sint(ts) <= 2 ** 53)))      # A5: the reader goes through float()
        tree.fields["build_timestamp"] = ts
        f["ts"] = ts
        plat = s("tree.plat", tree, "platforms", r"[A-Za-z0-9_.-]+")
        tree.fields["platforms"] = ListSet([plat])
        tid = s("T.id", ti, "_tmp", r"[A-Za-z0-9]+")
        cid = s("C.id", ti, "_tmp", r"[A-Za-z0-9]+")
        ctype = s("C.type", ti, "_tmp")
        E.assume(sym.isin(ctype, self.T.TREE_VARIANT_TYPES))
        ti.fields.pop("_tmp", None)
        # a top-level variant of any type whose UID is its ID or a dashed UID such as 'Server-optional'
        ttype = s("T.type", ti, "_tmp")
        E.assume(sym.isin(ttype, self.T.TREE_VARIANT_TYPES))
        tuid = tid
        if E.decide(E.fresh("top_uid_dashed", z3.BoolSort())):
            pre = s("T.uid_prefix", ti, "_tmp", r"[A-Za-z0-9]+")
            tuid = sym.concat(pre, "-", tid)
            E.assume(eq(ttype, "optional"))       # VariantBase._validate_variants: a dashed top-level key is accepted for type 'optional' only
        ti.fields.pop("_tmp", None)
        f["T.uid"] = tuid
        top = E.instantiate(("treeinfo", "Variant"), [ti])
        tname = s("T.name", top, "name")
        top.fields.update({"id": tid, "uid": tuid, "type": ttype})
        pk = s("T.packages", top.fields["paths"], "packages")
        child = E.instantiate(("treeinfo", "Variant"), [ti])
        cname = s("C.name", child, "name")
        child.fields.update({"id": cid, "uid": sym.concat(tuid, "-", cid), "type": ctype, "parent": top})
        rp = s("C.repository", child.fields["paths"], "repository")
        top.fields["variants"].entries.append(Entry(cid, True, child))
        ti.fields["variants"].fields["variants"].entries.append(Entry(tuid, True, top))
        # images for the tree arch platform, mixed-case option name
        img = s("img.path", ti, "_tmp")
        ti.fields.pop("_tmp", None)
        E.assume(Not(sym.startswith(img, "/")))
        tbl = E.models.new_dict("images[arch]")
        tbl.entries.append(Entry("Boot.ISO", True, img))
        d = E.models.new_dict("images")
        d.entries.append(Entry(plat, True, tbl))
        ti.fields["images"].fields["images"] = d
        ckp = s("ck.path", ti, "_tmp", r"[A-Za-z0-9._-][A-Za-z0-9._/-]*")
        ckv = s("ck.value", ti, "_tmp", r"[0-9a-f]+")
        ti.fields.pop("_tmp", None)
        cd = E.models.new_dict("checksums")
        cd.entries.append(Entry(ckp, True, ("sha256", ckv)))
        ti.fields["checksums"].fields["checksums"] = cd
        main = s("stage2.main", ti.fields["stage2"], "mainimage")
        E.assume(And(Not(eq(main, "")), Not(sym.startswith(main, "/"))))
        inst = s("stage2.inst", ti.fields["stage2"], "instimage")
        E.assume(And(Not(eq(inst, "")), Not(sym.startswith(inst, "/"))))
        dn = SV(z3.Const("t.discnum", sym.Val))
        td = SV(z3.Const("t.totaldiscs", sym.Val))
        E.assume(And(sym.is_strict_int(dn), sym.is_strict_int(td), Not(eq(dn, 0))))
        ti.fields["media"].fields.update({"discnum": dn, "totaldiscs": td})
        f.update({"dn": dn, "td": td})
        for spec, o in ((F.valid_ti_release, rel), (F.valid_ti_tree, tree), (F.valid_ti_stage2, ti.fields["stage2"]),
                        (F.valid_ti_media, ti.fields["media"])):
            E.assume(spec(self.T, o))
        return {"ti": ti, "ti2": ti2, "f": f, "parser": _new_parser(E), "top": top, "child": child}

    def call(self, E, st):
        E.call(E.getattr_(st["ti"], "serialize"), [st["parser"]])
        return E.call(E.getattr_(st["ti2"], "deserialize"), [st["parser"]])

    def post(self, E, st, out):
        from pyvc.models import ListSet
        if out.kind == "raise":
            return {"write_read_cycle_succeeds": False}
        f, t2 = st["f"], st["ti2"]
        rel, tree = t2.fields["release"], t2.fields["tree"]
        pl = tree.fields["platforms"]
        pm = pl.items if isinstance(pl, ListSet) else None

        def find(cont, k):
            e = E.models.sd_lookup(cont, k, create=False)
            return e.value if e is not None and e.present is True else None
        top2 = find(t2.fields["variants"].fields["variants"], f["T.uid"])
        ch2 = find(top2.fields["variants"], f["C.id"]) if isinstance(top2, Obj) else None
        im = t2.fields["images"].fields["images"]
        tb = find(im, f["tree.plat"]) if isinstance(im, SymDict) else None
        ck = t2.fields["checksums"].fields["checksums"]
        cv = find(ck, f["ck.path"]) if isinstance(ck, SymDict) else None
        plat_ok = False
        if pm is not None:
            plat_ok = And(Or(*[eq(x, f["tree.arch"]) for x in pm]), Or(*[eq(x, f["tree.plat"]) for x in pm]),
                          *[Or(eq(x, f["tree.arch"]), eq(x, f["tree.plat"])) for x in pm])
        return {"write_read_cycle_succeeds": True,
                "release_and_tree_reproduced": And(_veq(rel.fields["name"], f["rel.name"]), _veq(rel.fields["short"], f["rel.short"]),
                                                   _veq(rel.fields["version"], f["rel.version"]), _veq(tree.fields["arch"], f["tree.arch"]),
                                                   _veq(tree.fields["build_timestamp"], f["ts"]), plat_ok),
                "top_variant_reproduced": isinstance(top2, Obj) and And(_veq(top2.fields["id"], f["T.id"]), _veq(top2.fields["uid"], f["T.uid"]),
                                                                        _veq(top2.fields["name"], f["T.name"]), _veq(top2.fields["type"], f["T.type"]),
                                                                        top2.fields["parent"] is None,
                                                                        _veq(top2.fields["paths"].fields["packages"], f["T.packages"]),
                                                                        top2.fields["paths"].fields["repository"] is None),
                "child_variant_of_any_type_reproduced": isinstance(ch2, Obj) and And(_veq(ch2.fields["id"], f["C.id"]), _veq(ch2.fields["name"], f["C.name"]),
                                                                                     _veq(ch2.fields["type"], f["C.type"]),
                                                                                     _veq(ch2.fields["uid"], st["child"].fields["uid"]),
                                                                                     _veq(ch2.fields["paths"].fields["repository"], f["C.repository"]),
                                                                                     ch2.fields["parent"] is top2),
                "image_table_reproduced_with_case_kept": isinstance(tb, SymDict) and
                [(e.key) for e in tb.entries if e.present is True] == ["Boot.ISO"] and _veq(find(tb, "Boot.ISO"), f["img.path"]),
                "checksum_reproduced": isinstance(cv, tuple) and And(_veq(cv[0], "sha256"), _veq(cv[1], f["ck.value"])),
                "stage2_and_media_reproduced": And(_veq(t2.fields["stage2"].fields["mainimage"], f["stage2.main"]),
                                                   _veq(t2.fields["stage2"].fields["instimage"], f["stage2.inst"]),
                                                   _veq(t2.fields["media"].fields["discnum"], f["dn"]),
                                                   _veq(t2.fields["media"].fields["totaldiscs"], f["td"])),
                "version_current_after_load": t2.fields["header"].fields["version"] == "%d.%d" % self.T.VERSION}

    def concretise(self, model, st):
        return dict((k, concretise.value_of(model, v)) for k, v in st["f"].items())

    def sample_inputs(self, rng):
        base = {"rel.name": "Fedora", "rel.short": "F", "rel.version": "21", "tree.arch": "x86_64", "ts": 1417653911, "tree.plat": "xen",
                "T.id": "Server", "T.uid": "Server", "T.type": "variant", "C.id": "HA", "C.type": "addon", "T.name": "Server", "T.packages": "Server/Packages", "C.name": "HA",
                "C.repository": "addons/HA", "img.path": "images/boot.iso", "ck.path": "images/boot.iso", "ck.value": "ab12",
                "stage2.main": "images/install.img", "stage2.inst": "images/inst.img", "dn": 1, "td": 2}
        yield dict(base)
        for ct in self.T.TREE_VARIANT_TYPES:
            yield dict(base, **{"C.type": ct})
        yield dict(base, **{"tree.plat": "xen-x86_64"})
        yield dict(base, **{"tree.plat": "x86_64"})
        yield dict(base, **{"T.id": "variant", "T.uid": "variant", "C.id": "addon", "C.type": "variant"})
        yield dict(base, **{"T.id": "optional", "T.uid": "Server-optional", "T.type": "optional"})
        yield dict(base, **{"T.type": "addon"})
        yield dict(base, **{"ts": -1, "td": 0})

    def _build(self, f):
        TI = self.src.mods["treeinfo"]
        ti = TI.TreeInfo()
        ti.release.name, ti.release.short, ti.release.version = f["rel.name"], f["rel.short"], f["rel.version"]
        ti.tree.arch, ti.tree.build_timestamp, ti.tree.platforms = f["tree.arch"], f["ts"], set([f["tree.plat"]])
        top = TI.Variant(ti)
        top.id, top.uid = f["T.id"], f["T.uid"]
        top.name, top.type = f["T.name"], f["T.type"]
        top.paths.packages = f["T.packages"]
        ch = TI.Variant(ti)
        ch.id, ch.uid, ch.name, ch.type, ch.parent = f["C.id"], "%s-%s" % (f["T.uid"], f["C.id"]), f["C.name"], f["C.type"], top
        ch.paths.repository = f["C.repository"]
        top.variants[ch.id] = ch
        ti.variants.variants[top.uid] = top
        ti.images.images[f["tree.plat"]] = {"Boot.ISO": f["img.path"]}
        ti.checksums.checksums[f["ck.path"]] = ("sha256", f["ck.value"])
        ti.stage2.mainimage, ti.stage2.instimage = f["stage2.main"], f["stage2.inst"]
        ti.media.discnum, ti.media.totaldiscs = f["dn"], f["td"]
        return ti

    def native_eval(self, f):
        TI = self.src.mods["treeinfo"]
        try:
            ti = self._build(f)
            for o in (ti.release, ti.tree, ti.stage2, ti.media):
                o.validate()
        except Exception:
            return ("skip", None), None
        if not (isinstance(f["ts"], int) and abs(f["ts"]) <= 2 ** 53):
            return ("skip", None), None
        t2 = TI.TreeInfo()
        parser = ti._get_parser()

        def cyc():
            ti.serialize(parser)
            t2.deserialize(parser)
        nat = native_call(cyc)
        if nat[0] == "raise":
            return nat, {"write_read_cycle_succeeds": False}
        top2 = t2.variants.variants.get(f["T.uid"])
        ch2 = top2.variants.get(f["C.id"]) if top2 is not None else None
        cl = {"write_read_cycle_succeeds": True,
              "release_and_tree_reproduced": (t2.release.name, t2.release.short, t2.release.version, t2.tree.arch, t2.tree.build_timestamp) ==
              (f["rel.name"], f["rel.short"], f["rel.version"], f["tree.arch"], f["ts"]) and
              t2.tree.platforms == set([f["tree.arch"], f["tree.plat"]]),
              "top_variant_reproduced": top2 is not None and (top2.id, top2.uid, top2.name, top2.type, top2.paths.packages, top2.paths.repository, top2.parent) ==
              (f["T.id"], f["T.uid"], f["T.name"], f["T.type"], f["T.packages"], None, None),
              "child_variant_of_any_type_reproduced": ch2 is not None and
              (ch2.id, ch2.uid, ch2.name, ch2.type, ch2.paths.repository) ==
              (f["C.id"], "%s-%s" % (f["T.uid"], f["C.id"]), f["C.name"], f["C.type"], f["C.repository"]) and ch2.parent is top2,
              "image_table_reproduced_with_case_kept": t2.images.images.get(f["tree.plat"]) == {"Boot.ISO": f["img.path"]},
              "checksum_reproduced": tuple(t2.checksums.checksums.get(f["ck.path"], ())) == ("sha256", f["ck.value"]),
              "stage2_and_media_reproduced": (t2.stage2.mainimage, t2.stage2.instimage, t2.media.discnum, t2.media.totaldiscs) ==
              (f["stage2.main"], f["stage2.inst"], f["dn"], f["td"]),
              "version_current_after_load": t2.header.version == "%d.%d" % self.T.VERSION}
        return nat, cl

    def describe(self, f):
        return "TreeInfo(%s) serialised into a parser and re-read" % ", ".join("%s=%s" % (k, concretise.py_repr(v)) for k, v in sorted(f.items()))


TI_VARIANT_KEYS = ("id", "uid", "name", "type")


class TreeVariantsReaderValid(Contract):
    """treeinfo Variants.deserialize on a current-format parser whose [tree] lists one variant and whose [variant-<uid>] section is
    valid except for ONE corruption: option k (id, uid, name, type) replaced by an arbitrary string, or deleted.  A normal return means
    the option was present and the registered variant satisfies the documented rules (id without '-', type in the table) (C07)."""

    def __init__(self, src, T, k, mode):
        self.src, self.T, self.k, self.mode = src, T, k, mode
        self.name = "productmd.treeinfo.Variants.deserialize[variant section: %s %s]" % (k, "corrupted" if mode == "corrupt" else "deleted")
        self.key = "de:treeinfo.Variants:%s:%s" % (k, mode)

    def setup(self, E):
        ti, _ = _mk(E, TI_SECTIONS["treeinfo.Release"])
        uid = SV(sym.Val.VStr(z3.Const("sec.uid", sym.S)))
        name = SV(sym.Val.VStr(z3.Const("sec.name", sym.S)))
        typ = SV(sym.Val.VStr(z3.Const("sec.type", sym.S)))
        bad = SV(sym.Val.VStr(z3.Const("corrupt.%s" % self.k, sym.S)))
        E.assume(And(sym.in_lang(uid, r"[A-Za-z0-9]+"), sym.isin(typ, self.T.TREE_VARIANT_TYPES), Not(eq(typ, "addon"))))
        good = {"id": uid, "uid": uid, "name": name, "type": typ}
        parser = _new_parser(E)
        E.call(E.getattr_(parser, "add_section"), ["tree"])
        E.call(E.getattr_(parser, "set"), ["tree", "variants", uid])
        sec = sym.concat("variant-", uid)
        E.call(E.getattr_(parser, "add_section"), [sec])
        for a in TI_VARIANT_KEYS:
            if a == self.k:
                if self.mode == "corrupt":
                    E.call(E.getattr_(parser, "set"), [sec, a, bad])
                continue
            E.call(E.getattr_(parser, "set"), [sec, a, good[a]])
        return {"ti": ti, "parser": parser, "good": good, "bad": bad, "uid": uid}

    def call(self, E, st):
        return E.call(E.getattr_(st["ti"].fields["variants"], "deserialize"), [st["parser"]])

    def post(self, E, st, out):
        if out.kind == "raise":
            return {"returns_only_with_required_keys": True}
        vs = [e.value for e in st["ti"].fields["variants"].fields["variants"].entries if e.present is True]
        ok = len(vs) == 1 and isinstance(vs[0], Obj)
        if ok:
            v = vs[0]
            ok = And(is_str(v.fields["id"]), Not(sym.contains(v.fields["id"], "-")), sym.isin(v.fields["type"], self.T.TREE_VARIANT_TYPES))
        return {"returns_only_with_required_keys": self.mode == "corrupt", "registered_variant_is_valid": ok}

    def concretise(self, model, st):
        sec = dict((a, concretise.value_of(model, v)) for a, v in st["good"].items())
        if self.mode == "corrupt":
            sec[self.k] = concretise.value_of(model, st["bad"])
        else:
            sec.pop(self.k)
        return {"uid": concretise.value_of(model, st["uid"]), "section": sec}

    def sample_inputs(self, rng):
        for typ in ("variant", "optional"):
            base = {"id": "Server", "uid": "Server", "name": "Server", "type": typ}
            if self.mode == "delete":
                d = dict(base)
                d.pop(self.k)
                yield {"uid": "Server", "section": d}
            else:
                for bad in ("", "a-b", "bogus", "Server-x", " ", "addon", "x"):
                    yield {"uid": "Server", "section": dict(base, **{self.k: bad})}

    def native_eval(self, inputs):
        TI = self.src.mods["treeinfo"]
        ti = TI.TreeInfo()
        ti.header.set_current_version()
        parser = ti._get_parser()
        parser.add_section("tree")
        parser.set("tree", "variants", inputs["uid"])
        sec = "variant-%s" % inputs["uid"]
        parser.add_section(sec)
        for a, v in inputs["section"].items():
            parser.set(sec, a, v)
        nat = native_call(ti.variants.deserialize, parser)
        if nat[0] == "raise":
            return nat, {"returns_only_with_required_keys": True}
        vs = list(ti.variants.variants.values())
        ok = len(vs) == 1 and isinstance(vs[0].id, str) and "-" not in vs[0].id and vs[0].type in self.T.TREE_VARIANT_TYPES
        return nat, {"returns_only_with_required_keys": self.k in inputs["section"], "registered_variant_is_valid": ok}

    def describe(self, inputs):
        return "treeinfo Variants.deserialize with [tree] variants=%r and [variant-%s] = %r" % (inputs["uid"], inputs["uid"], inputs["section"])


def contracts(src, T):          # noqa: F811
    out = []
    for n in TI_SECTIONS:
        out.append(TiWriter(src, T, n))
        out.append(TiRoundTrip(src, T, n))
    for mode in ("flat", "paths-pkg", "paths-repo"):
        for nvar in (1, 2):
            for main in (False, True):
                if mode == "flat" and main and nvar == 1:
                    continue
                out.append(GeneralMirrors(src, T, nvar, main, mode))
    for n in TI_SECTIONS:
        out.append(TiReader(src, T, n))
    out.append(TreeRoundTrip(src, T))
    out += [TreeVariantsReaderValid(src, T, k, mode) for k in TI_VARIANT_KEYS for mode in ("corrupt", "delete")]
    return out
