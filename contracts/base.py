"""Contract helpers shared by the sidecar contract files."""
import copy

import z3

from pyvc import sym, concretise
from pyvc.engine import FuncRef, ExcVal, Obj, SymDict
from pyvc.sym import SV
from pyvc.verify import Contract, Outcome, native_call


class FnContract(Contract):
    """Contract of a module-level function over scalar arguments.

    Subclasses give MODULE, FUNC, PARAMS, ``requires(a)`` (dual mode) and ``ensures(a, out, aux)`` (dual mode:
    `a` maps parameter names to values, `out` is an Outcome, `aux` carries ghost values such as abstract match
    groups).  The same ``ensures`` text is evaluated symbolically by pyvc and natively by replays."""
    MODULE = None
    FUNC = None
    PARAMS = ()
    OPTIONAL = {}       # parameter -> default value when the model leaves it out

    def __init__(self, src, T=None):
        self.src = src
        self.T = T
        self.name = "productmd.%s.%s" % (self.MODULE, self.FUNC)
        self.key = "fn:%s.%s" % (self.MODULE, self.FUNC) if self.key is None else self.key

    key = None

    # dual-mode parts ---------------------------------------------------------------------------------------
    def requires(self, a):
        return True

    def ensures(self, a, out, aux):
        raise NotImplementedError

    def native_aux(self, a):
        return {}

    def sym_aux(self, E, st):
        return {}

    # symbolic ------------------------------------------------------------------------------------------------
    def setup(self, E):
        a = {}
        for p in self.PARAMS:
            v = SV(z3.Const("arg.%s" % p, sym.Val))
            E.assume(concretise.wellformed(v))
            a[p] = v
        E.assume(self.requires(a))
        return {"a": a}

    def call(self, E, st):
        fn = FuncRef(self.MODULE, self.src.funcs[(self.MODULE, self.FUNC)])
        return E.call(fn, [st["a"][p] for p in self.PARAMS])

    def post(self, E, st, out):
        return self.ensures(st["a"], out, self.sym_aux(E, st))

    # native --------------------------------------------------------------------------------------------------
    def concretise(self, model, st):
        return dict((p, concretise.value_of(model, v)) for p, v in st["a"].items())

    def native_fn(self):
        return getattr(self.src.mods[self.MODULE], self.FUNC)

    def native_eval(self, inputs):
        a = copy.deepcopy(inputs)
        if self.requires(a) is False:
            return ("skip", None), {}
        nat = native_call(self.native_fn(), *[a[p] for p in self.PARAMS])
        out = Outcome(nat[0], nat[1] if nat[0] == "return" else ExcVal(nat[1]))
        cl = self.ensures(copy.deepcopy(inputs), out, self.native_aux(copy.deepcopy(inputs)))
        return nat, dict((k, bool(v)) for k, v in cl.items())

    def describe(self, inputs):
        return "%s(%s)" % (self.FUNC, ", ".join(concretise.py_repr(inputs[p]) for p in self.PARAMS))

    # sample inputs for the bounded search: one value pool shared by ALL parameters (so the same text occurs in different
    # argument positions across calls -- what a cache keyed by the text alone gets wrong), random combinations
    SAMPLE_POOL = None

    def sample_inputs(self, rng):
        pool = self.SAMPLE_POOL
        if not pool:
            return
        for _ in range(400):
            yield dict((p, rng.choice(pool)) for p in self.PARAMS)


def dict_get(d, k):
    """dual-mode lookup in a dict with concrete keys: SymDict (closed) or python dict; returns value or None if absent"""
    if isinstance(d, SymDict):
        for e in d.entries:
            if e.key == k and e.present is True:
                return e.value
        return KeyError
    if isinstance(d, dict):
        return d.get(k, KeyError)
    return KeyError


def dict_keys(d):
    if isinstance(d, SymDict):
        if not d.closed:
            return None
        return sorted(e.key for e in d.entries if e.present is True)
    if isinstance(d, dict):
        return sorted(d.keys())
    return None


class MethContract(FnContract):
    """Contract of a method whose receiver is a freshly constructed object (real __init__ run symbolically)."""
    CLASS = None        # (module, classname)
    INIT_ARGS = ()

    def __init__(self, src, T=None):
        self.MODULE = self.CLASS[0]
        FnContract.__init__(self, src, T)
        self.name = "productmd.%s.%s.%s" % (self.CLASS[0], self.CLASS[1], self.FUNC)
        self.key = "meth:%s.%s.%s" % (self.CLASS[0], self.CLASS[1], self.FUNC)

    def make_self(self, E):
        return E.instantiate(self.CLASS, list(self.INIT_ARGS))

    def native_self(self):
        return self.src.native_class(self.CLASS)(*self.INIT_ARGS)

    def setup(self, E):
        st = FnContract.setup(self, E)
        st["self"] = self.make_self(E)
        return st

    def call(self, E, st):
        return E.call(E.getattr_(st["self"], self.FUNC), [st["a"][p] for p in self.PARAMS])

    def native_eval(self, inputs):
        a = copy.deepcopy(inputs)
        if self.requires(a) is False:
            return ("skip", None), {}
        o = self.native_self()
        nat = native_call(getattr(o, self.FUNC), *[a[p] for p in self.PARAMS])
        out = Outcome(nat[0], nat[1] if nat[0] == "return" else ExcVal(nat[1]))
        aux = self.native_aux(copy.deepcopy(inputs))
        aux["self"] = o
        cl = self.ensures(copy.deepcopy(inputs), out, aux)
        return nat, dict((k, bool(v)) for k, v in cl.items())

    def describe(self, inputs):
        return "%s().%s(%s)" % (self.CLASS[1], self.FUNC, ", ".join(concretise.py_repr(inputs[p]) for p in self.PARAMS))
