"""Contracts for C15: compose id creation and decoding (composeinfo.py)."""
import copy
import re

import z3

from pyvc import sym, concretise
from pyvc.sym import And, Or, Not, Implies, If, is_str, is_none, eq, SV
from pyvc.engine import FuncRef, ExcVal, Obj
from pyvc.verify import Contract, Outcome, native_call
from .base import FnContract, dict_get

COMPOSE_SUFFIX = {"production": "", "ci": ".ci", "nightly": ".n", "test": ".t", "development": ".d"}   # documented spellings
DECODE_TABLE = {"": "production", "n": "nightly", "nightly": "nightly", "t": "test", "test": "test", "ci": "ci", "d": "development"}


def gdtr_pattern(src):
    """the pattern get_date_type_respin compiles, taken from the function's AST"""
    fn = src.funcs[("composeinfo", "get_date_type_respin")]
    import ast
    pats = []
    for n in ast.walk(fn):
        if isinstance(n, ast.Call) and ast.unparse(n.func) in ("re.compile", "re.match") and n.args \
                and isinstance(n.args[0], ast.Constant) and isinstance(n.args[0].value, str):
            pats.append((n.lineno, n.col_offset, n.args[0].value))
    return [p for _, _, p in sorted(pats)]       # in source order: the first one is tried first


class ObjPropContract(Contract):
    """contract of a property/method of an object with symbolic scalar fields (no __init__ run: every field free)"""
    CLASS = None
    ATTR = None
    FIELDS = ()
    CONSTS = {}

    def __init__(self, src, T=None):
        self.src = src
        self.T = T
        self.name = "productmd.%s.%s.%s" % (self.CLASS[0], self.CLASS[1], self.ATTR)
        self.key = "prop:%s.%s.%s" % (self.CLASS[0], self.CLASS[1], self.ATTR)

    def requires(self, a):
        return True

    def setup(self, E):
        o = E.new_obj(self.CLASS, "x")
        a = {}
        for k, v in self.CONSTS.items():
            o.fields[k] = v
        for f in self.FIELDS:
            v = SV(z3.Const("x.%s" % f, sym.Val))
            E.assume(concretise.wellformed(v))
            o.fields[f] = v
            a[f] = v
        E.assume(self.requires(a))
        return {"o": o, "a": a}

    def call(self, E, st):
        return E.getattr_(st["o"], self.ATTR)

    def post(self, E, st, out):
        return self.ensures(st["a"], out, {})

    def concretise(self, model, st):
        return dict((p, concretise.value_of(model, v)) for p, v in st["a"].items())

    def native_eval(self, inputs):
        a = copy.deepcopy(inputs)
        if self.requires(a) is False:
            return ("skip", None), {}
        real = object.__new__(self.src.native_class(self.CLASS))
        for k, v in self.CONSTS.items():
            setattr(real, k, v)
        for k, v in a.items():
            setattr(real, k, v)
        nat = native_call(lambda: getattr(real, self.ATTR))
        out = Outcome(nat[0], nat[1] if nat[0] == "return" else ExcVal(nat[1]))
        cl = self.ensures(copy.deepcopy(inputs), out, {})
        return nat, dict((k, bool(v)) for k, v in cl.items())

    def describe(self, inputs):
        return "%s(%s).%s" % (self.CLASS[1], ", ".join("%s=%s" % (k, concretise.py_repr(v)) for k, v in inputs.items()), self.ATTR)


class ComposeTypeSuffix(ObjPropContract):
    """Compose.type_suffix: the documented suffix of each of the five compose types, ValueError for anything else"""
    CLASS, ATTR, FIELDS = ("composeinfo", "Compose"), "type_suffix", ("type",)

    def ensures(self, a, out, aux):
        t = a["type"]
        known = sym.isin(t, list(COMPOSE_SUFFIX))
        if out.kind == "raise":
            return {"raises_only_for_unknown_type": Not(known), "raises_ValueError": out.exc_cls is ValueError}
        r = out.value
        return {"documented_suffix": And(known, *[Implies(eq(t, k), eq(r, v)) for k, v in COMPOSE_SUFFIX.items()])}


def _summary_compose_type_suffix(E, o, args, kwargs):
    """modular use of ComposeTypeSuffix at call sites: one path per outcome"""
    from pyvc.engine import PyRaise
    t = o.fields["type"]
    if not E.decide(sym.isin(t, list(COMPOSE_SUFFIX))):
        raise PyRaise(ExcVal(ValueError, ("Invalid compose type",)))
    if not isinstance(t, SV):
        return COMPOSE_SUFFIX[t]
    r = ""
    for k, v in COMPOSE_SUFFIX.items():
        r = If(eq(t, k), v, r)
    return r


def _summary_bp_type_suffix(T):
    def summ(E, o, args, kwargs):
        from pyvc.engine import Unsupported
        t = o.fields["type"]
        if not isinstance(t, SV):
            return "" if (not t or t.lower() == "ga") else "-" + t.lower()
        if not E.decide(Or(is_none(t), is_str(t))):
            raise Unsupported("precondition of BaseProduct.type_suffix (type is None or str) not established at the call site")
        # the contract pins the result for None/''/the known types (either case); anything else is unconstrained
        r = SV(sym.Val.VStr(E.fresh("type_suffix", sym.S)))
        r = If(Or(is_none(t), eq(t, "")), "", r)
        for k in T.RELEASE_TYPES:
            r = If(Or(eq(t, k), eq(t, k.upper())), "" if k == "ga" else "-" + k, r)
        return r
    return summ


class BaseProductTypeSuffix(ObjPropContract):
    """BaseProduct/Release.type_suffix: '' for a missing type or ga (any case), else '-' + lower-cased type"""
    CLASS, ATTR, FIELDS = ("composeinfo", "BaseProduct"), "type_suffix", ("type",)

    def __init__(self, src, T=None, cls="BaseProduct"):
        self.CLASS = ("composeinfo", cls)
        ObjPropContract.__init__(self, src, T)

    def requires(self, a):
        return Or(is_none(a["type"]), is_str(a["type"]))

    def ensures(self, a, out, aux):
        t = a["type"]
        if out.kind == "raise":
            return {"never_raises": False}
        r = out.value
        if not isinstance(t, SV):
            exp = "" if (not t or t.lower() == "ga") else "-" + t.lower()
            return {"documented_suffix": r == exp}
        # symbolic: stated for the types the library knows (lower-case constants) and None/''
        cl = [Implies(Or(is_none(t), eq(t, "")), eq(r, ""))]
        for k in self.T.RELEASE_TYPES:
            cl.append(Implies(eq(t, k), eq(r, "" if k == "ga" else "-" + k)))
            cl.append(Implies(eq(t, k.upper()), eq(r, "" if k == "ga" else "-" + k)) if k.upper() != k else True)
        return {"documented_suffix": And(*cl)}


class GetDateTypeRespin(FnContract):
    """composeinfo.get_date_type_respin body: no match -> (None, None, None); else (date group, decoded type, int(respin or 0));
    unknown type suffix -> ValueError.  WHERE the groups lie is the rx obligation cid.decode."""
    MODULE, FUNC, PARAMS = "composeinfo", "get_date_type_respin", ("compose_id",)

    def requires(self, a):
        return is_str(a["compose_id"])

    def sym_aux(self, E, st):
        ms = [m for tag, m in E.path.notes if tag == "match"]
        return {"match": ms[0] if ms else None}

    def native_aux(self, a):
        pats = gdtr_pattern(self.src)
        m = None
        for p in pats:
            m = re.compile(p).match(a["compose_id"])
            if m:
                break

        class M(object):
            pass
        if m is None:
            return {"match": None}
        mm = M()
        mm.groups = m.groupdict()
        return {"match": mm}

    def ensures(self, a, out, aux):
        m = aux["match"]
        if m is None:
            if out.kind == "raise":
                return {"no_match_returns_None_triple": False}
            return {"no_match_returns_None_triple": out.value == (None, None, None)}
        g = m.groups
        ty = g["type"]
        no_type = Or(is_none(ty), eq(ty, ""))
        tail = lambda: sym.drop_prefix(SV(sym.Val.VStr(sym.Val.s(ty.t))) if isinstance(ty, SV) else ty, 1)
        if no_type is True:
            known = True
        else:
            known = Or(no_type, sym.isin(tail(), [k for k in DECODE_TABLE if k]))
        if out.kind == "raise":
            return {"raises_only_for_unknown_suffix": Not(known), "raises_ValueError": out.exc_cls is ValueError}
        r = out.value
        if not isinstance(r, tuple) or len(r) != 3:
            return {"returns_triple": False}
        cl = {"accepts_only_known_suffix": known, "date_is_date_group": eq(r[0], g["date"])}
        tcl = [Implies(no_type, eq(r[1], "production"))]
        if no_type is not True:
            for k, v in DECODE_TABLE.items():
                if k:
                    tcl.append(Implies(And(Not(no_type), eq(tail(), k)), eq(r[1], v)))
        cl["type_decoded_by_documented_table"] = And(*tcl)
        rs = g["respin"]
        if is_none(rs) is True:
            cl["respin_int_default_0"] = eq(r[2], 0)
        elif is_none(rs) is False:
            cl["respin_int_default_0"] = And(sym.is_strict_int(r[2]), eq(r[2], sym.int_of_digits(rs)))
        else:
            rstr = SV(sym.Val.VStr(sym.Val.s(rs.t)))
            cl["respin_int_default_0"] = And(sym.is_strict_int(r[2]), Implies(is_none(rs), eq(r[2], 0)),
                                             Implies(Not(is_none(rs)), eq(r[2], sym.int_of_digits(rstr))))
        return cl


class CreateComposeId(Contract):
    """ComposeInfo.create_compose_id: short-version<release suffix>[-bpshort-bpversion<bp suffix>][-Client|-Server (RHEL 5)]
    -date<compose suffix>.respin"""
    name = "productmd.composeinfo.ComposeInfo.create_compose_id"
    key = "meth:composeinfo.ComposeInfo.create_compose_id"
    F = ("rel.short", "rel.version", "rel.type", "rel.is_layered", "bp.short", "bp.version", "bp.type",
         "c.date", "c.type", "c.respin")

    def __init__(self, src, T):
        self.src = src
        self.T = T

    def requires(self, a):
        s = lambda k: is_str(a[k])
        return And(s("rel.short"), s("rel.version"), sym.isin(a["rel.type"], self.T.RELEASE_TYPES), sym.is_bool(a["rel.is_layered"]),
                   Implies(sym.truthy(a["rel.is_layered"]), And(s("bp.short"), s("bp.version"), sym.isin(a["bp.type"], self.T.RELEASE_TYPES))),
                   Implies(Not(sym.truthy(a["rel.is_layered"])), And(is_none(a["bp.short"]), is_none(a["bp.version"]), is_none(a["bp.type"]))),
                   sym.matches(r"^\d{8}$", a["c.date"]), sym.isin(a["c.type"], list(COMPOSE_SUFFIX)), sym.is_strict_int(a["c.respin"]),
                   # the RHEL 5 special case (variant name appended) is outside this contract
                   Not(eq(a["rel.short"], "RHEL")))

    def setup(self, E):
        ci = E.instantiate(("composeinfo", "ComposeInfo"))
        a = {}
        objs = {"rel": ci.fields["release"], "bp": ci.fields["base_product"], "c": ci.fields["compose"]}
        for f in self.F:
            o, n = f.split(".")
            v = SV(z3.Const("ci.%s" % f, sym.Val))
            E.assume(concretise.wellformed(v))
            objs[o].fields[n] = v
            a[f] = v
        E.assume(self.requires(a))
        return {"ci": ci, "a": a}

    def call(self, E, st):
        return E.call(E.getattr_(st["ci"], "create_compose_id"), [])

    def post(self, E, st, out):
        return self.ensures(st["a"], out)

    def ensures(self, a, out):
        if out.kind == "raise":
            return {"never_raises_on_valid_parts": False}

        def rsuf(t):
            if isinstance(t, SV):
                r = ""
                for k in self.T.RELEASE_TYPES:
                    r = If(eq(t, k), "" if k == "ga" else "-" + k, r)
                return r
            return "" if t == "ga" else "-" + t

        def csuf(t):
            if isinstance(t, SV):
                r = ""
                for k, v in COMPOSE_SUFFIX.items():
                    r = If(eq(t, k), v, r)
                return r
            return COMPOSE_SUFFIX[t]
        st_ = lambda k: SV(sym.Val.VStr(sym.Val.s(a[k].t))) if isinstance(a[k], SV) else a[k]
        head = sym.concat(st_("rel.short"), "-", st_("rel.version"), rsuf(a["rel.type"]))
        lay = sym.truthy(a["rel.is_layered"])
        if lay is True or lay is False:
            mid = sym.concat("-", a["bp.short"], "-", a["bp.version"], rsuf(a["bp.type"])) if lay else ""
        else:
            mid = If(lay, sym.concat("-", st_("bp.short"), "-", st_("bp.version"), rsuf(a["bp.type"])), "")
        resp = a["c.respin"]
        tail = sym.concat("-", st_("c.date"), csuf(a["c.type"]), ".",
                          sym.str_of_int(SV(sym.Val.VInt(sym.Val.i(resp.t))) if isinstance(resp, SV) else resp))
        return {"returns_documented_id": eq(out.value, sym.concat(head, mid, tail))}

    def concretise(self, model, st):
        return dict((p, concretise.value_of(model, v)) for p, v in st["a"].items())

    def native_eval(self, inputs):
        a = copy.deepcopy(inputs)
        if self.requires(a) is False:
            return ("skip", None), {}
        ci = self.src.mods["composeinfo"].ComposeInfo()
        objs = {"rel": ci.release, "bp": ci.base_product, "c": ci.compose}
        for f, v in a.items():
            o, n = f.split(".")
            setattr(objs[o], n, v)
        nat = native_call(ci.create_compose_id)
        out = Outcome(nat[0], nat[1] if nat[0] == "return" else ExcVal(nat[1]))
        return nat, dict((k, bool(v)) for k, v in self.ensures(copy.deepcopy(inputs), out).items())


def summaries(src, T):
    """(class key, attribute) -> summary implementing the proved contract at call sites"""
    return {(("composeinfo", "Compose"), "type_suffix"): _summary_compose_type_suffix,
            (("composeinfo", "BaseProduct"), "type_suffix"): _summary_bp_type_suffix(T),
            (("composeinfo", "Release"), "type_suffix"): _summary_bp_type_suffix(T)}


def contracts(src, T):
    return [ComposeTypeSuffix(src, T), BaseProductTypeSuffix(src, T, "BaseProduct"), BaseProductTypeSuffix(src, T, "Release"),
            GetDateTypeRespin(src, T), CreateComposeId(src, T)]
