"""F-ser / F-de contracts and round-trip lemmas for the flat JSON sections (composeinfo, images, common.Header).

Writer: returns normally only if valid_X(self) held (C06 writes.validate), emits exactly the documented key set with
the documented values (C01/C02 layout; catches a field dropped symmetrically by writer and reader), leaves every
other key of the output dict and the object itself unchanged; otherwise raises only TypeError/ValueError and writes
nothing.  Reader: on normal return the object is valid_X (C07 de.valid).  Round trip: reader(writer(x)) == norm(x)."""
import copy

import z3

from pyvc import sym, concretise
from pyvc.sym import And, Or, Not, Implies, If, eq, SV, is_none, is_str, truthy
from pyvc.engine import Obj, SymDict, ExcVal, PyRaise, Entry
from pyvc.verify import Contract, Outcome, native_call
from spec import fields as F
from .validators import IMAGE_FIELDS

ABSENT = "<absent>"


def _b(v):
    """bool(v) as a value"""
    t = truthy(v)
    return t if isinstance(t, bool) else sym.mk_bool(sym.B(t))


# ---- documented layouts (doc/*-1.1.rst) : fields -> {key: value} with ABSENT for keys that must not be written ----------
def layout_compose(T, f):
    has = truthy(f["label"])
    d = {"id": f["id"], "type": f["type"], "date": f["date"], "respin": f["respin"]}
    d["label"] = (has, f["label"])
    d["final"] = (has, f["final"])
    return d


def layout_base_product(T, f):
    return {"name": f["name"], "version": f["version"], "short": f["short"], "type": f["type"]}


def layout_release(T, f):
    d = layout_base_product(T, f)
    d["is_layered"] = (truthy(f["is_layered"]), _b(f["is_layered"]))
    d["internal"] = _b(f["internal"])
    return d


def layout_image(T, f):
    d = dict((k, f[k]) for k in IMAGE_FIELDS if k not in ("unified", "additional_variants"))
    d["unified"] = (truthy(f["unified"]), f["unified"])
    d["additional_variants"] = (truthy(f["unified"]), f["additional_variants"])
    return d


# ---- documented normalisations applied by a write/read cycle -------------------------------------------------------------
def norm_compose(T, f):
    has = truthy(f["label"])
    out = dict(f)
    out["label"] = f["label"] if has is True else (None if has is False else If(has, f["label"], None))
    out["final"] = (_b(f["final"]) if has is True else (False if has is False else If(has, _b(f["final"]), False)))
    return out


def norm_release(T, f):
    out = dict(f)
    out["is_layered"] = _b(f["is_layered"])
    out["internal"] = _b(f["internal"])
    return out


def norm_same(T, f):
    return dict(f)


class Section(object):
    def __init__(self, cls, fields, valid, layout, norm, section, holder, attr, consts=None, into_list=False, make=None):
        self.into_list = into_list  # writer appends the section dict to a list instead of storing it under a key
        self.make = make            # (symbolic, native) constructors of the section object when it is not an attribute
        self.cls = cls              # (module, class)
        self.fields = fields
        self.valid = valid
        self.layout = layout
        self.norm = norm
        self.section = section      # key written into the output dict
        self.holder = holder        # top-level class whose instance owns the section object
        self.attr = attr            # attribute of the holder


SECTIONS = {
    "composeinfo.Compose": Section(("composeinfo", "Compose"), ["id", "type", "date", "respin", "label", "final"], F.valid_compose,
                                   layout_compose, norm_compose, "compose", ("composeinfo", "ComposeInfo"), "compose"),
    "composeinfo.BaseProduct": Section(("composeinfo", "BaseProduct"), ["name", "version", "short", "type"], F.valid_base_product,
                                       layout_base_product, norm_same, "base_product", ("composeinfo", "ComposeInfo"), "base_product"),
    "composeinfo.Release": Section(("composeinfo", "Release"), ["name", "version", "short", "type", "is_layered", "internal"],
                                   F.valid_release, layout_release, norm_release, "release", ("composeinfo", "ComposeInfo"), "release"),
    "images.Image": Section(("images", "Image"), IMAGE_FIELDS, F.valid_image, layout_image, norm_same, None,
                            ("images", "Images"), None, into_list=True),
}


def _mk_sym(E, s):
    """(holder, section object) built by running the real constructors symbolically"""
    top = E.instantiate(s.holder)
    if "header" in top.fields:
        top.fields["header"].fields["version"] = "%d.%d" % tuple(E.mods["common"].VERSION)
    if s.attr:
        return top, top.fields[s.attr]
    return top, E.instantiate(s.cls, [top])


def _mk_nat(src, s):
    top = src.native_class(s.holder)()
    if hasattr(top, "header"):
        top.header.set_current_version()
    if s.attr:
        return top, getattr(top, s.attr)
    return top, src.native_class(s.cls)(top)


def version_tuple_summary(T):
    """common.Header.version_tuple at call sites: raises TypeError/ValueError unless the version is `digits.digits`, else
    returns (int(major), int(minor)) -- justified by the obligations of VersionTupleContract"""
    def summ(E, o, args, kwargs):
        v = o.fields["version"]
        if not isinstance(v, SV):
            if F.valid_header(T, o):
                return tuple(int(x) for x in v.strip().split("."))
            E.path.abstract = True
            raise PyRaise(ExcVal(ValueError if isinstance(v, str) else TypeError, ("version",)))
        if not E.decide(F.valid_header(T, o)):
            cls = TypeError if E.decide(E.fresh("raises_TypeError", z3.BoolSort())) else ValueError
            E.path.abstract = True
            raise PyRaise(ExcVal(cls, ("invalid version",)))
        return version_parts(E, v)
    return summ


def version_parts(E, v):
    """(major, minor) of a version string known to match ^\\d+\\.\\d+$ (one trailing newline tolerated by `$`)"""
    s = sym.sstr(v)
    ck = ("vparts", s.get_id())
    hit = E.path.refs.get(ck)
    if hit is not None and hit[0].eq(s):
        return hit[1]
    pa = E.fresh("ver_major", sym.S)
    pb = E.fresh("ver_minor", sym.S)
    nl = E.fresh("ver_nl", sym.S)
    digits = z3.Plus(z3.Range("0", "9"))
    E.assume(s == z3.Concat(pa, z3.StringVal("."), pb, nl))
    E.assume(z3.InRe(pa, digits))
    E.assume(z3.InRe(pb, digits))
    E.assume(z3.Or(nl == z3.StringVal(""), nl == z3.StringVal("\n")))
    res = (sym.mk_int(z3.StrToInt(pa)), sym.mk_int(z3.StrToInt(pb)))
    E.path.refs[ck] = (s, res)
    return res


def install_valid_summaries(E, src, T):
    """modular use of the F-valid contracts: X.validate() returns iff valid_X, else raises TypeError or ValueError"""
    from . import validators

    def mk(spec):
        def summ(E, o, args, kwargs):
            ok = spec(T, o)
            if E.decide(ok):
                return None
            cls = TypeError if E.decide(E.fresh("raises_TypeError", z3.BoolSort())) else ValueError
            E.path.abstract = True      # which of the two classes is a ghost choice of the callee's contract
            raise PyRaise(ExcVal(cls, ("invalid",)))
        return summ
    for c in validators.flat_contracts(src, T):
        E.summaries[(c.key_cls, "validate")] = mk(c.spec)
    E.summaries[(("common", "Header"), "version_tuple")] = version_tuple_summary(T)
    E.summaries[(("treeinfo", "Header"), "version_tuple")] = version_tuple_summary(T)


def _sv_fields(E, o, names, tag):
    out = {}
    for f in names:
        v = SV(z3.Const("%s.%s" % (tag, f), sym.Val))
        E.assume(concretise.wellformed(v))
        o.fields[f] = v
        out[f] = v
    return out


def _entry(d, k):
    for e in d.entries:
        if not isinstance(e.key, SV) and e.key == k:
            return e
    return None


def layout_clause(d, lay):
    """closed dict d has exactly the documented keys with the documented values"""
    if not isinstance(d, SymDict) or not d.closed:
        return False
    cl = []
    keys = set()
    for e in d.entries:
        if isinstance(e.key, SV):
            return False
        keys.add(e.key)
    for k, v in lay.items():
        e = _entry(d, k)
        cond, val = v if isinstance(v, tuple) else (True, v)
        if e is None or e.present is False:
            cl.append(Not(cond))
            continue
        pres = e.present
        cl.append(sym.Iff(pres, cond))
        cl.append(Implies(cond, _veq(e.value, val)))
    for k in keys - set(lay):
        e = _entry(d, k)
        cl.append(Not(e.present))
    return And(*cl)


def _veq(a, b):
    if a is b:
        return True
    for x, y in ((a, b), (b, a)):
        # an empty concrete container equals a symbolic reference iff that is an empty container of the same kind
        if isinstance(x, list) and not x and isinstance(y, SV):
            return And(sym.is_kind(y, sym.K_LIST), sym.as_bool(sym.ref_len(sym.Val.r(y.t)) == 0))
        if isinstance(x, SymDict) and x.closed and not x.entries and isinstance(y, SV):
            return And(sym.is_kind(y, sym.K_DICT), sym.as_bool(sym.ref_len(sym.Val.r(y.t)) == 0))
    if sym.liftable(a) and sym.liftable(b):
        return eq(a, b)
    if isinstance(a, (list, tuple)) and isinstance(b, (list, tuple)) and type(a) is type(b):
        return len(a) == len(b) and And(*[_veq(x, y) for x, y in zip(a, b)])
    return a is b


class WriterContract(Contract):
    def __init__(self, src, T, name):
        self.src, self.T, self.sec = src, T, SECTIONS[name]
        self.name = "productmd.%s.serialize" % name
        self.key = "ser:" + name

    def setup(self, E):
        s = self.sec
        top, o = _mk_sym(E, s)
        f = _sv_fields(E, o, s.fields, "x")
        if s.into_list:
            return {"top": top, "o": o, "f": f, "data": [], "before": dict(o.fields)}
        data = SymDict("data", closed=False)
        # observer: an arbitrary other key of the output dict (frame clause, Skolemised universal quantifier)
        k = SV(sym.Val.VStr(z3.Const("obs.key", sym.S)))
        pre = E.models.sd_lookup(data, k)
        return {"top": top, "o": o, "f": f, "data": data, "obs": k, "obs_pre": (pre.present, pre.value), "before": dict(o.fields)}

    def call(self, E, st):
        return E.call(E.getattr_(st["o"], "serialize"), [st["data"]])

    def post(self, E, st, out):
        s = self.sec
        o = st["o"]
        pre = Obj(o.cls, "pre", 0)
        pre.fields = st["before"]
        valid = s.valid(self.T, pre)
        unchanged = all(o.fields.get(k) is v for k, v in st["before"].items())
        if s.into_list:
            lst = st["data"]
            if out.kind == "raise":
                return {"raises_only_if_invalid": Not(valid), "raises_only_TypeError_ValueError": out.exc_cls in (TypeError, ValueError),
                        "nothing_written_on_refusal": len(lst) == 0, "object_unchanged": unchanged}
            return {"writes_only_valid_object": valid,
                    "documented_layout": layout_clause(lst[0], s.layout(self.T, st["f"])) if len(lst) == 1 else False,
                    "object_unchanged": unchanged}
        obs = E.models.sd_lookup(st["data"], st["obs"])
        obs_same = And(sym.Iff(obs.present, st["obs_pre"][0]), Implies(obs.present, _veq(obs.value, st["obs_pre"][1])))
        other = Not(eq(st["obs"], s.section))
        if out.kind == "raise":
            e = E.models.sd_lookup(st["data"], s.section)
            return {"raises_only_if_invalid": Not(valid), "raises_only_TypeError_ValueError": out.exc_cls in (TypeError, ValueError),
                    "nothing_written_on_refusal": Implies(other, obs_same), "object_unchanged": unchanged}
        e = E.models.sd_lookup(st["data"], s.section, create=False)
        sect = e.value if e is not None and e.present is True else None
        return {"writes_only_valid_object": valid,
                "documented_layout": layout_clause(sect, s.layout(self.T, st["f"])) if sect is not None else False,
                "other_keys_unchanged": Implies(other, obs_same), "object_unchanged": unchanged}

    # native --------------------------------------------------------------------------------------------------
    def concretise(self, model, st):
        return dict((k, concretise.value_of(model, v)) for k, v in st["f"].items())

    def _real(self, inputs):
        s = self.sec
        top, o = _mk_nat(self.src, s)
        for k, v in inputs.items():
            setattr(o, k, v)
        return top, o

    def native_eval(self, inputs):
        s = self.sec
        top, o = self._real(copy.deepcopy(inputs))
        data = [] if s.into_list else {"other": 1}
        nat = native_call(o.serialize, data)
        valid = bool(s.valid(self.T, self._real(copy.deepcopy(inputs))[1]))
        same = all(_same(getattr(o, k), v) for k, v in inputs.items())
        if s.into_list:
            lay = s.layout(self.T, copy.deepcopy(inputs))
            exp = dict((k, (v[1] if isinstance(v, tuple) else v)) for k, v in lay.items() if not isinstance(v, tuple) or v[0])
            if nat[0] == "raise":
                return nat, {"raises_only_if_invalid": not valid, "raises_only_TypeError_ValueError": nat[1] in (TypeError, ValueError),
                             "nothing_written_on_refusal": data == [], "object_unchanged": same}
            return nat, {"writes_only_valid_object": valid, "documented_layout": len(data) == 1 and _deq(data[0], exp),
                         "object_unchanged": same}
        if nat[0] == "raise":
            return nat, {"raises_only_if_invalid": not valid, "raises_only_TypeError_ValueError": nat[1] in (TypeError, ValueError),
                         "nothing_written_on_refusal": data == {"other": 1}, "object_unchanged": same}
        lay = s.layout(self.T, copy.deepcopy(inputs))
        exp = {}
        for k, v in lay.items():
            cond, val = v if isinstance(v, tuple) else (True, v)
            if cond:
                exp[k] = val
        got = data.get(s.section)
        return nat, {"writes_only_valid_object": valid, "documented_layout": _deq(got, exp),
                     "other_keys_unchanged": data.get("other") == 1 and set(data) == {"other", s.section}, "object_unchanged": same}

    def describe(self, inputs):
        return "%s(%s).serialize({})" % (self.sec.cls[1], ", ".join("%s=%s" % (k, concretise.py_repr(v)) for k, v in inputs.items()))


def _same(a, b):
    """python equality; bool/int are interchangeable (True == 1), nothing else is"""
    if isinstance(a, (bool, int)) and isinstance(b, (bool, int)):
        return a == b
    return type(a) is type(b) and a == b


def _deq(got, exp):
    if not isinstance(got, dict) or set(got) != set(exp):
        return False
    return all(_same(got[k], exp[k]) for k in exp)


class RoundTripContract(Contract):
    """lemma: for every object the writer accepts, reader(writer(x)) has fields norm(x) and is accepted again"""

    def __init__(self, src, T, name):
        self.src, self.T, self.sec = src, T, SECTIONS[name]
        self.name = "productmd.%s.deserialize(serialize(x))" % name
        self.key = "rt:" + name

    def setup(self, E):
        s = self.sec
        top, o = _mk_sym(E, s)
        f = _sv_fields(E, o, s.fields, "x")
        E.assume(s.valid(self.T, o))            # quantifier of C01/C02: objects the library agrees to write
        top2, o2 = _mk_sym(E, s)
        return {"o": o, "f": f, "o2": o2, "data": [] if s.into_list else E.models.new_dict("data")}

    def call(self, E, st):
        E.call(E.getattr_(st["o"], "serialize"), [st["data"]])
        if self.sec.into_list:
            return E.call(E.getattr_(st["o2"], "deserialize"), [st["data"][0]])
        return E.call(E.getattr_(st["o2"], "deserialize"), [st["data"]])

    def post(self, E, st, out):
        if out.kind == "raise":
            return {"write_read_cycle_succeeds": False}
        nf = self.sec.norm(self.T, st["f"])
        o2 = st["o2"]
        return {"write_read_cycle_succeeds": True,
                "fields_equal_after_reload": And(*[_veq(o2.fields[k], nf[k]) for k in self.sec.fields]),
                "reloaded_object_is_valid": self.sec.valid(self.T, o2)}

    def concretise(self, model, st):
        return dict((k, concretise.value_of(model, v)) for k, v in st["f"].items())

    def native_eval(self, inputs):
        s = self.sec
        top, o = _mk_nat(self.src, s)
        for k, v in copy.deepcopy(inputs).items():
            setattr(o, k, v)
        if not bool(s.valid(self.T, o)):
            return ("skip", None), {}
        top2, o2 = _mk_nat(self.src, s)
        data = [] if s.into_list else {}

        def cyc():
            o.serialize(data)
            o2.deserialize(data[0] if s.into_list else data)
        nat = native_call(cyc)
        if nat[0] == "raise":
            return nat, {"write_read_cycle_succeeds": False}
        nf = s.norm(self.T, copy.deepcopy(inputs))
        return nat, {"write_read_cycle_succeeds": True,
                     "fields_equal_after_reload": all(_same(getattr(o2, k), nf[k]) for k in s.fields),
                     "reloaded_object_is_valid": bool(s.valid(self.T, o2))}

    def describe(self, inputs):
        return "%s(%s) written and re-read" % (self.sec.cls[1], ", ".join("%s=%s" % (k, concretise.py_repr(v)) for k, v in inputs.items()))


# ---- documented reader mappings (current format): doc section -> fields ------------------------------------------------
def _get(E, sec, key, default=ABSENT):
    """value of sec[key] (SymDict of the document section); default when absent"""
    if isinstance(sec, dict):            # native mode
        if default is ABSENT:
            return key in sec, sec.get(key)
        return True, sec.get(key, default)
    e = E.models.sd_lookup(sec, key)
    if default is ABSENT:
        return e.present, e.value
    p = e.present
    if p is True:
        return True, e.value
    if p is False:
        return True, default
    if sym.liftable(default) and sym.liftable(e.value):
        return True, If(p, e.value, default)
    raise NotImplementedError


def de_compose(E, T, sec):
    out = {}
    req = []
    for k in ("id", "type", "date", "respin"):
        p, v = _get(E, sec, k)
        req.append(p)
        out[k] = v
    _, lab = _get(E, sec, "label", None)
    out["label"] = If(truthy(lab), lab, None) if not isinstance(truthy(lab), bool) else (lab if truthy(lab) else None)
    _, fin = _get(E, sec, "final", False)
    out["final"] = _b(fin)
    return And(*req), out


def de_base_product(E, T, sec):
    out = {}
    req = []
    for k in ("name", "version", "short"):
        p, v = _get(E, sec, k)
        req.append(p)
        out[k] = v
    _, out["type"] = _get(E, sec, "type", "ga")
    return And(*req), out


def de_release(E, T, sec):
    req, out = de_base_product(E, T, sec)
    t = out["type"]
    out["type"] = ("lower", t)
    _, il = _get(E, sec, "is_layered", False)
    _, it = _get(E, sec, "internal", False)
    out["is_layered"] = _b(il)
    out["internal"] = _b(it)
    return req, out


READERS = {"composeinfo.Compose": de_compose, "composeinfo.BaseProduct": de_base_product, "composeinfo.Release": de_release}


class ReaderContract(Contract):
    """X.deserialize(doc) on a current-format document: a normal return means every required key was present, the
    fields are the documented function of the document section, and the object is valid_X (C07 de.valid)."""

    def __init__(self, src, T, name):
        self.src, self.T, self.sec = src, T, SECTIONS[name]
        self.name = "productmd.%s.deserialize" % name
        self.key = "de:" + name
        self.mapping = READERS[name]

    def setup(self, E):
        s = self.sec
        top, o = _mk_sym(E, s)
        doc = SymDict("doc", closed=False)
        return {"o": o, "doc": doc, "refs": E.path.refs}

    def call(self, E, st):
        return E.call(E.getattr_(st["o"], "deserialize"), [st["doc"]])

    def post(self, E, st, out):
        s = self.sec
        e = E.models.sd_lookup(st["doc"], s.section)
        if e.present is not True and not E.decide(e.present):
            return {"returns_only_with_required_keys": False} if out.kind == "return" else {"rejects_only_invalid_documents": True}
        secd = E.models.as_dict(e.value)
        if secd is None:
            return {"returns_only_with_required_keys": False} if out.kind == "return" else {"rejects_only_invalid_documents": True}
        req, exp = self.mapping(E, self.T, secd)
        o = st["o"]
        cl = []
        want_obj = Obj(o.cls, "want", 0)
        for k in s.fields:
            want = exp[k]
            got = o.fields.get(k)
            if isinstance(want, tuple) and want[0] == "lower":
                w = want[1]
                if isinstance(w, SV):
                    if not E.decide(is_str(w)):
                        if out.kind == "raise":
                            return {"rejects_only_invalid_documents": True}
                        cl.append(False)
                        continue
                    want = E.models.lower(sym.sstr(w))
                else:
                    want = w.lower()
            want_obj.fields[k] = want
            cl.append(_veq(got, want))
        if out.kind == "raise":
            # converse (documented normalisations are part of the oracle): a document whose required keys are present
            # and whose mapped fields satisfy the field rules must load
            return {"rejects_only_invalid_documents": Not(And(req, s.valid(self.T, want_obj)))}
        return {"returns_only_with_required_keys": req, "fields_are_documented_function_of_document": And(*cl),
                "loaded_object_is_valid": s.valid(self.T, o)}

    def setup_refs(self, E, st):
        st["refs"] = E.path.refs
        return st

    def concretise(self, model, st):
        return {"doc": conc_doc(model, st["doc"], st.get("refs", {}))}

    def native_eval(self, inputs):
        s = self.sec
        doc = copy.deepcopy(inputs["doc"])
        top, o = _mk_nat(self.src, s)
        nat = native_call(o.deserialize, doc)
        sec = inputs["doc"].get(s.section)
        if not isinstance(sec, dict):
            return nat, ({"returns_only_with_required_keys": False} if nat[0] == "return" else {"rejects_only_invalid_documents": True})
        req, exp = self.mapping(None, self.T, sec)
        want = object.__new__(self.src.native_class(s.cls))
        ok = True
        for k in s.fields:
            w = exp[k]
            if isinstance(w, tuple) and w[0] == "lower":
                if not isinstance(w[1], str):
                    return nat, ({"fields_are_documented_function_of_document": False} if nat[0] == "return"
                                 else {"rejects_only_invalid_documents": True})
                w = w[1].lower()
            setattr(want, k, w)
            if nat[0] == "return":
                ok = ok and _same(getattr(o, k), w)
        if nat[0] == "raise":
            return nat, {"rejects_only_invalid_documents": not (bool(req) and bool(s.valid(self.T, want)))}
        return nat, {"returns_only_with_required_keys": bool(req), "fields_are_documented_function_of_document": ok,
                     "loaded_object_is_valid": bool(s.valid(self.T, o))}

    def describe(self, inputs):
        return "%s.deserialize(%s)" % (self.sec.cls[1], concretise.py_repr(inputs["doc"]))


def conc_doc(model, d, refs):
    """concrete python document from a lazily initialised symbolic one (the keys the path touched)"""
    out = {}
    for e in d.entries:
        k = concretise.value_of(model, e.key) if isinstance(e.key, SV) else e.key
        pres = e.present if isinstance(e.present, bool) else z3.is_true(model.eval(e.present, model_completion=True))
        if not pres:
            continue
        out[k] = conc_val(model, e.value, refs)
    return out


def conc_val(model, v, refs):
    if isinstance(v, SymDict):
        return conc_doc(model, v, refs)
    if isinstance(v, SV):
        t = model.eval(v.t, model_completion=True)
        if z3.is_app(t) and t.decl().name() == "VRef":
            key = ("d", z3.simplify(sym.Val.r(v.t)).get_id())
            if key in refs and isinstance(refs[key], SymDict):
                return conc_doc(model, refs[key], refs)
        return concretise.value_of(model, v)
    if isinstance(v, list):
        return [conc_val(model, x, refs) for x in v]
    return v


class VersionTupleContract(Contract):
    """common.Header.version_tuple: raises only TypeError/ValueError and only for a version that is not `digits.digits`;
    otherwise returns the two integers.  (This is the contract the summary above implements at call sites.)"""
    name = "productmd.common.Header.version_tuple"
    key = "prop:common.Header.version_tuple"

    def __init__(self, src, T):
        self.src, self.T = src, T

    def setup(self, E):
        o = E.new_obj(("common", "Header"), "h")
        o.fields.update({"_section": "header", "parent": None, "metadata_type": "productmd.x"})
        v = SV(z3.Const("h.version", sym.Val))
        E.assume(concretise.wellformed(v))
        o.fields["version"] = v
        return {"o": o, "v": v}

    def call(self, E, st):
        return E.getattr_(st["o"], "version_tuple")

    def post(self, E, st, out):
        valid = F.valid_header(self.T, st["o"])
        if out.kind == "raise":
            return {"raises_only_for_malformed_version": Not(valid),
                    "raises_only_TypeError_ValueError": out.exc_cls in (TypeError, ValueError)}
        r = out.value
        if not isinstance(r, tuple) or len(r) != 2:
            return {"returns_two_integers": False}
        if not E.decide(valid):
            return {"returns_only_for_wellformed_version": False}
        a, b = version_parts(E, st["v"])
        return {"returns_only_for_wellformed_version": True, "returns_two_integers": And(eq(r[0], a), eq(r[1], b))}

    def concretise(self, model, st):
        return {"version": concretise.value_of(model, st["v"])}

    def native_eval(self, inputs):
        H = self.src.mods["common"].Header
        h = H(None, "productmd.x")
        h.version = inputs["version"]
        nat = native_call(lambda: h.version_tuple)
        valid = bool(F.valid_header(self.T, h))
        if nat[0] == "raise":
            return nat, {"raises_only_for_malformed_version": not valid, "raises_only_TypeError_ValueError": nat[1] in (TypeError, ValueError)}
        v = inputs["version"]
        ok = valid and nat[1] == tuple(int(x) for x in v.strip("\n").split("."))
        return nat, {"returns_only_for_wellformed_version": valid, "returns_two_integers": ok}


def contracts(src, T):
    out = []
    for n in SECTIONS:
        out.append(WriterContract(src, T, n))
        out.append(RoundTripContract(src, T, n))
        if n in READERS:
            out.append(ReaderContract(src, T, n))
    out.append(VersionTupleContract(src, T))
    return out
