"""F-valid contracts (DESIGN 8, shared family): for every metadata class X, X.validate() returns normally iff
valid_X(fields) (spec/fields.py), otherwise raises only TypeError/ValueError, and changes nothing."""
from pyvc.verify import ValidateContract
from spec import fields as F

IMAGE_FIELDS = ["path", "mtime", "size", "volume_id", "type", "format", "arch", "disc_number", "disc_count", "checksums",
                "implant_md5", "bootable", "subvariant", "unified", "additional_variants"]


def always_valid(T, o):
    return True


def flat_contracts(src, T):
    """(contract, properties) for the classes whose validators only look at their own scalar fields"""
    V = ValidateContract
    out = [
        V(src, ("common", "Header"), F.valid_header, ["version"], T,
          consts={"_section": "header", "parent": None, "metadata_type": "productmd.composeinfo"}),
        V(src, ("composeinfo", "Compose"), F.valid_compose, ["id", "type", "date", "respin", "label", "final"], T,
          consts={"_section": "compose", "_metadata": None}),
        V(src, ("composeinfo", "BaseProduct"), F.valid_base_product, ["name", "version", "short", "type"], T,
          consts={"_section": "base_product", "_metadata": None}),
        V(src, ("composeinfo", "Release"), F.valid_release, ["name", "version", "short", "type", "is_layered", "internal"], T,
          consts={"_section": "release", "_metadata": None}),
        V(src, ("images", "Image"), F.valid_image, IMAGE_FIELDS, T, consts={"parent": None}),
        V(src, ("treeinfo", "Header"), F.valid_header, ["version"], T,
          consts={"_section": "header", "parent": None, "metadata_type": "productmd.treeinfo"}),
        V(src, ("treeinfo", "BaseProduct"), F.valid_ti_base_product, ["name", "version", "short"], T,
          consts={"_section": "base_product", "_metadata": None}),
        V(src, ("treeinfo", "Release"), F.valid_ti_release, ["name", "version", "short", "is_layered"], T,
          consts={"_section": "release", "_metadata": None}),
        V(src, ("treeinfo", "Tree"), F.valid_ti_tree, ["arch", "build_timestamp", "platforms"], T,
          consts={"_section": "tree", "_metadata": None}),
        V(src, ("treeinfo", "Stage2"), F.valid_ti_stage2, ["mainimage", "instimage"], T,
          consts={"_section": "stage2", "_metadata": None}),
        V(src, ("treeinfo", "Media"), F.valid_ti_media, ["discnum", "totaldiscs"], T,
          consts={"_section": "media", "_metadata": None}),
        V(src, ("discinfo", "DiscInfo"), F.valid_discinfo, ["timestamp", "description", "arch", "disc_numbers"], T),
        V(src, ("composeinfo", "VariantPaths"), always_valid, [], T, spec_name="always_valid"),
        V(src, ("treeinfo", "VariantPaths"), always_valid, [], T, spec_name="always_valid"),
        V(src, ("treeinfo", "General"), always_valid, [], T, consts={"_section": "general", "_metadata": None},
          spec_name="always_valid"),
    ]
    return out
