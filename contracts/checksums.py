"""C16 contracts: compute_checksum (digest loop by invariant), Checksums.add, Image.add_checksum, [checksums] reader/writer."""
import copy
import hashlib
import os

import z3

from pyvc import sym, concretise, effects
from pyvc.sym import And, Or, Not, Implies, If, eq, SV, is_none, is_str, truthy
from pyvc.engine import SymDict, ExcVal, Obj, FuncRef, PyRaise
from pyvc.verify import Contract, Outcome, native_call
from .sections import _veq, _same


class DigestLoopInvariant(object):
    """invariant of the `while True` loop of compute_checksum:  fed == content[0:pos]  and  0 <= pos <= len(content)"""

    def _objs(self, E, env):
        return env["fo"], env["checksum"]

    def havoc(self, E, env):
        fo, h = self._objs(E, env)
        if fo.content is None:
            p = sym.sstr(fo.path) if sym.liftable(fo.path) else z3.StringVal("?")
            fo.content = effects.content_uf(p)
            fo.rpos = z3.IntVal(0)
        fo.rpos = E.fresh("loop_pos", z3.IntSort())
        h.fed = E.fresh("loop_fed", sym.S)

    def invariant(self, E, env):
        fo, h = self._objs(E, env)
        if fo.content is None:
            p = sym.sstr(fo.path) if sym.liftable(fo.path) else z3.StringVal("?")
            fo.content = effects.content_uf(p)
            fo.rpos = z3.IntVal(0)
        return z3.And(h.fed == z3.SubString(fo.content, 0, fo.rpos), fo.rpos >= 0, fo.rpos <= z3.Length(fo.content))


class ComputeChecksum(Contract):
    """treeinfo.compute_checksum(path, type) == lower(hexdigest_type(content(path))) for every file size: everything fed to the
    hash object is exactly the full content, in order (loop invariant), whatever chunk sizes read() returns."""
    name = "productmd.treeinfo.compute_checksum"
    key = "fn:treeinfo.compute_checksum"

    def __init__(self, src, T):
        self.src, self.T = src, T

    def setup(self, E):
        E.loop_invariants[("treeinfo", "compute_checksum", "while")] = DigestLoopInvariant()
        path = SV(sym.Val.VStr(z3.Const("arg.path", sym.S)))
        algo = SV(sym.Val.VStr(z3.Const("arg.type", sym.S)))
        E.assume(effects.exists_uf(sym.sstr(path)))
        return {"path": path, "algo": algo}

    def call(self, E, st):
        return E.call(FuncRef("treeinfo", self.src.funcs[("treeinfo", "compute_checksum")]), [st["path"], st["algo"]])

    def post(self, E, st, out):
        if out.kind == "raise":
            return {"existing_file_is_digested": False}
        content = effects.content_uf(sym.sstr(st["path"]))
        want = E.models.lower(effects.digest_uf(sym.sstr(st["algo"]), content))
        reads = [e for e in E.path.effects if e[0] == "open"]
        return {"digest_of_full_content_lowercase": _veq(out.value, want),
                "opens_the_given_path_for_binary_reading": len(reads) == 1 and reads[0][1] is st["path"] and reads[0][2] == "rb"}

    def concretise(self, model, st):
        return None

    def sample_inputs(self, rng):
        M = 1024 ** 2
        for size in (0, 1, M - 1, M, M + 1, 2 * M, 3 * M + 7):
            for algo in sorted(hashlib.algorithms_available):
                yield {"size": size, "algo": algo}

    def native_eval(self, inputs):
        import tempfile
        data = (b"0123456789abcdef" * (inputs["size"] // 16 + 1))[:inputs["size"]]
        fd, p = tempfile.mkstemp(prefix="c16_")
        try:
            os.write(fd, data)
            os.close(fd)
            nat = native_call(self.src.mods["treeinfo"].compute_checksum, p, inputs["algo"])
            try:
                h = hashlib.new(inputs["algo"], data)
                want = h.hexdigest().lower()
            except TypeError:
                return ("skip", None), {}          # variable-length digests (shake) need a length: outside the claim
            if nat[0] == "raise":
                return nat, {"existing_file_is_digested": False}
            return nat, {"digest_of_full_content_lowercase": nat[1] == want}
        finally:
            os.unlink(p)

    def history_search(self, run):
        """bounded: the digest is a function of the file's CONTENT at the time of the call -- the same path rewritten in place (same
        size, modification time restored, as rsync -t / SOURCE_DATE_EPOCH builds do) and a second path holding other bytes of the same
        size must each get their own digest, whatever was computed before"""
        import tempfile
        fn = self.src.mods["treeinfo"].compute_checksum
        for algo in ("sha256", "md5"):
            d = tempfile.mkdtemp(prefix="c16_")
            try:
                p = os.path.join(d, "boot.iso")
                for step, data in enumerate((b"A" * 4096, b"B" * 4096, b"C" * 4096)):
                    st = os.stat(p) if step else None
                    with open(p, "wb") as f:
                        f.write(data)
                    if st is not None:
                        os.utime(p, ns=(st.st_atime_ns, st.st_mtime_ns))
                    got = fn(p, algo)
                    if got != hashlib.new(algo, data).hexdigest().lower():
                        script = ("import os, tempfile, hashlib, shutil\nimport productmd.treeinfo as T\nd = tempfile.mkdtemp()\np = os.path.join(d, 'boot.iso')\n"
                                  "bad = None\nfor step, data in enumerate((b'A' * 4096, b'B' * 4096, b'C' * 4096)):\n"
                                  "    st = os.stat(p) if step else None\n    open(p, 'wb').write(data)\n"
                                  "    if st is not None: os.utime(p, ns=(st.st_atime_ns, st.st_mtime_ns))\n"
                                  "    if T.compute_checksum(p, %r) != hashlib.new(%r, data).hexdigest(): bad = step\n"
                                  "shutil.rmtree(d)\nif bad is not None: REPRODUCED('digest of the rewritten file (step %%d) is the digest of its OLD content' %% bad)\n"
                                  "NOT_REPRODUCED()\n" % (algo, algo))
                        return ("digest_of_full_content_lowercase",
                                "compute_checksum(path, %r) after the file was rewritten in place (same size, mtime restored) returns the digest "
                                "of the previous content" % algo, script)
            finally:
                import shutil
                shutil.rmtree(d, ignore_errors=True)
        return None

    def describe(self, inputs):
        return "compute_checksum(<file of %d bytes>, %r)" % (inputs["size"], inputs["algo"])


class ImageAddChecksum(Contract):
    """Image.add_checksum(root, type, value): an existing type returns the recorded value and records nothing, raising ValueError
    iff a truthy different value is given; a new type is recorded.  A recorded checksum is never silently replaced."""
    name = "productmd.images.Image.add_checksum"
    key = "meth:images.Image.add_checksum"

    def __init__(self, src, T):
        self.src, self.T = src, T

    def setup(self, E):
        im = E.instantiate(("images", "Image"), [None])
        cs = SymDict("checksums", closed=False)
        cs.json = True
        cs.shape = ("str",)
        im.fields["checksums"] = cs
        t = SV(sym.Val.VStr(z3.Const("arg.type", sym.S)))
        v = SV(z3.Const("arg.value", sym.Val))
        E.assume(Or(is_str(v), is_none(v)))
        e = E.models.sd_lookup(cs, t)
        return {"im": im, "cs": cs, "t": t, "v": v, "had": e.present, "old": e.value, "mark": len(E.path.effects)}

    def call(self, E, st):
        return E.call(E.getattr_(st["im"], "add_checksum"), [None, st["t"], st["v"]])

    def post(self, E, st, out):
        writes = [w for w in E.path.effects[st["mark"]:] if w[0] == "dict_write" and w[1] is st["cs"]]
        conflict = And(st["had"], truthy(st["v"]), Not(eq(st["v"], st["old"])))
        if out.kind == "raise":
            return {"raises_only_on_conflicting_value": conflict, "raises_ValueError": out.exc_cls is ValueError,
                    "recorded_checksums_unchanged_on_refusal": not writes}
        e = E.models.sd_lookup(st["cs"], st["t"])
        return {"accepts_only_without_conflict": Not(conflict),
                "existing_value_returned_and_kept": Implies(st["had"], And(_veq(out.value, st["old"]), _veq(e.value, st["old"]))),
                "new_type_recorded": Implies(Not(st["had"]), And(_veq(e.value, st["v"]), _veq(out.value, st["v"]),
                                                                  all(_veq(w[2].key, st["t"]) is True or w[2] is e for w in writes)))}

    def concretise(self, model, st):
        had = st["had"] if isinstance(st["had"], bool) else z3.is_true(model.eval(st["had"], model_completion=True))
        return {"type": concretise.value_of(model, st["t"]), "value": concretise.value_of(model, st["v"]),
                "existing": concretise.value_of(model, st["old"]) if had else None, "had": had}

    def sample_inputs(self, rng):
        for had in (False, True):
            for v in ("abc", "def", "", None):
                yield {"type": "sha256", "value": v, "existing": "abc", "had": had}

    def native_eval(self, inputs):
        im = self.src.mods["images"].Image(None)
        im.checksums = {"other": "zzz"}
        if inputs["had"]:
            im.checksums[inputs["type"]] = inputs["existing"]
        before = dict(im.checksums)
        nat = native_call(im.add_checksum, None, inputs["type"], inputs["value"])
        conflict = inputs["had"] and bool(inputs["value"]) and inputs["value"] != inputs["existing"]
        if nat[0] == "raise":
            return nat, {"raises_only_on_conflicting_value": conflict, "raises_ValueError": nat[1] is ValueError,
                         "recorded_checksums_unchanged_on_refusal": im.checksums == before}
        cl = {"accepts_only_without_conflict": not conflict}
        if inputs["had"]:
            cl["existing_value_returned_and_kept"] = nat[1] == inputs["existing"] and im.checksums == before
        else:
            exp = dict(before)
            exp[inputs["type"]] = inputs["value"]
            cl["new_type_recorded"] = im.checksums == exp and nat[1] == inputs["value"]
        return nat, cl

    def describe(self, inputs):
        return "Image(checksums=%r).add_checksum(None, %r, %r)" % ({inputs["type"]: inputs["existing"]} if inputs["had"] else {},
                                                                    inputs["type"], inputs["value"])


class ChecksumsAdd(Contract):
    """Checksums.add(relative_path, type, value, root_dir): absolute path -> ValueError and no change; otherwise exactly the key
    normpath(relative_path) is set to [type, value] (value as given when truthy, else the digest of root_dir/normpath)."""
    name = "productmd.treeinfo.Checksums.add"
    key = "meth:treeinfo.Checksums.add"

    def __init__(self, src, T):
        self.src, self.T = src, T

    def setup(self, E):
        ti = E.instantiate(("treeinfo", "TreeInfo"))
        ck = ti.fields["checksums"]
        d = SymDict("checksums", closed=False)
        d.json = False
        ck.fields["checksums"] = d
        a = {}
        for p in ("relative_path", "checksum_type", "root_dir"):
            a[p] = SV(sym.Val.VStr(z3.Const("arg.%s" % p, sym.S)))
        v = SV(z3.Const("arg.checksum_value", sym.Val))
        E.assume(Or(is_str(v), is_none(v)))
        a["checksum_value"] = v
        # compute_checksum is used through its contract (ComputeChecksum)

        def summ(E_, args, kwargs):
            p, t = args[0], args[1]
            if not E_.decide(effects.exists_uf(sym.sstr(p))):
                raise PyRaise(ExcVal(IOError, ("No such file",)))
            E_.path.effects.append(("digest", p, t))
            return E_.models.lower(effects.digest_uf(sym.sstr(t), effects.content_uf(sym.sstr(p))))
        E.func_summaries[("treeinfo", "compute_checksum")] = summ
        return {"ck": ck, "d": d, "a": a, "mark": len(E.path.effects)}

    def call(self, E, st):
        a = st["a"]
        try:
            return E.call(E.getattr_(st["ck"], "add"), [a["relative_path"], a["checksum_type"], a["checksum_value"], a["root_dir"]])
        finally:
            E.func_summaries.pop(("treeinfo", "compute_checksum"), None)

    def post(self, E, st, out):
        a = st["a"]
        writes = [w for w in E.path.effects[st["mark"]:] if w[0] == "dict_write" and w[1] is st["d"]]
        absolute = sym.startswith(a["relative_path"], "/")
        if out.kind == "raise":
            digs = [e for e in E.path.effects[st["mark"]:] if e[0] == "digest"]
            return {"refusal_changes_nothing": not writes,
                    "raises_ValueError_for_absolute_path_else_only_file_errors": Or(And(absolute, out.exc_cls is ValueError),
                                                                                    And(Not(absolute), Not(truthy(a["checksum_value"])),
                                                                                        out.exc_cls is IOError))}
        key = sym.mk_str(E.normpath_uf(sym.sstr(a["relative_path"])))
        given = truthy(a["checksum_value"])
        full = None
        digs = [e for e in E.path.effects[st["mark"]:] if e[0] == "digest"]
        ok_val = False
        if len(writes) == 1:
            newv = writes[0][5]
            if isinstance(newv, list) and len(newv) == 2:
                if digs:
                    # digest of join(root_dir, normpath(relative_path))
                    from pyvc.models import Models
                    want_path = E.models.call(os.path.join, [a["root_dir"], key], {})
                    dv = E.models.lower(effects.digest_uf(sym.sstr(a["checksum_type"]), effects.content_uf(sym.sstr(want_path))))
                    ok_val = And(Not(given), _veq(newv[0], a["checksum_type"]), _veq(newv[1], dv), _veq(digs[0][1], want_path))
                else:
                    ok_val = And(given, _veq(newv[0], a["checksum_type"]), _veq(newv[1], a["checksum_value"]))
        return {"accepts_only_relative_path": Not(absolute),
                "only_the_normalised_path_is_set": len(writes) == 1 and _veq(writes[0][2].key, key),
                "records_given_value_or_true_digest": ok_val}

    def concretise(self, model, st):
        return None

    def sample_inputs(self, rng):
        for rp in ("images/boot.iso", "./images//boot.iso", "a/../images/boot.iso", "/abs/boot.iso", "images/./x/../boot.iso"):
            for val in (None, "", "cafe"):
                for algo in ("sha256", "md5"):
                    yield {"relative_path": rp, "checksum_type": algo, "checksum_value": val}

    def native_eval(self, inputs):
        import tempfile
        import shutil
        root = tempfile.mkdtemp(prefix="c16_")
        try:
            os.makedirs(os.path.join(root, "images"))
            data = b"payload-%d" % len(inputs["relative_path"])
            with open(os.path.join(root, "images", "boot.iso"), "wb") as f:
                f.write(data)
            ti = self.src.mods["treeinfo"].TreeInfo()
            ti.checksums.checksums["other"] = ("md5", "x")
            before = dict(ti.checksums.checksums)
            nat = native_call(ti.checksums.add, inputs["relative_path"], inputs["checksum_type"], inputs["checksum_value"], root)
            absolute = inputs["relative_path"].startswith("/")
            if nat[0] == "raise":
                return nat, {"refusal_changes_nothing": ti.checksums.checksums == before,
                             "raises_ValueError_for_absolute_path_else_only_file_errors": absolute and nat[1] is ValueError}
            key = os.path.normpath(inputs["relative_path"])
            val = inputs["checksum_value"] or hashlib.new(inputs["checksum_type"], data).hexdigest().lower()
            exp = dict(before)
            exp[key] = [inputs["checksum_type"], val]
            got = dict((k, list(v)) for k, v in ti.checksums.checksums.items())
            return nat, {"accepts_only_relative_path": not absolute,
                         "only_the_normalised_path_is_set": set(got) == set(exp),
                         "records_given_value_or_true_digest": got.get(key) == exp[key]}
        finally:
            shutil.rmtree(root, ignore_errors=True)

    def describe(self, inputs):
        return "Checksums.add(%r, %r, %r, <root>)" % (inputs["relative_path"], inputs["checksum_type"], inputs["checksum_value"])


def contracts(src, T):
    return [ComputeChecksum(src, T), ImageAddChecksum(src, T), ChecksumsAdd(src, T)]


def spec_checksum(text):
    """C16: 'type:value' -> (type, value); a bare digest is typed by length 32/40/64; anything else must be rejected (None)"""
    if isinstance(text, str):
        if ":" in text:
            parts = text.split(":")
            return tuple(parts) if len(parts) == 2 else None
        return {32: ("md5", text), 40: ("sha1", text), 64: ("sha256", text)}.get(len(text))
    raise TypeError


class ChecksumsRead(Contract):
    """Checksums.deserialize on a [checksums] section with k entries (k = 1, 2; names and values symbolic): every path maps to the
    (type, value) of ITS OWN text -- 'type:value' split at the single colon, bare digests typed by length -- and any other text
    makes the load fail.  Bounded in the NUMBER of entries, unbounded in their content."""

    def __init__(self, src, T, k):
        self.src, self.T, self.k = src, T, k
        self.name = "productmd.treeinfo.Checksums.deserialize[%d entries]" % k
        self.key = "de:treeinfo.Checksums:%d" % k

    def setup(self, E):
        from .tisections import _new_parser
        ti = E.instantiate(("treeinfo", "TreeInfo"))
        ti.fields["header"].fields["version"] = "%d.%d" % tuple(E.mods["common"].VERSION)
        parser = _new_parser(E)
        secs = effects.parser_sections(E, parser)
        sec = SymDict("ini[checksums]", closed=True, origin="code")
        sec.json = False
        E.models.sd_set(secs, "checksums", sec)
        ents = []
        for i in range(self.k):
            n = SV(sym.Val.VStr(z3.Const("opt%d.name" % i, sym.S)))
            v = SV(sym.Val.VStr(z3.Const("opt%d.value" % i, sym.S)))
            E.assume(sym.in_lang(n, r"[A-Za-z0-9._-][A-Za-z0-9._/-]*"))      # relative path usable as an option name
            E.assume(Not(sym.contains(v, "\n")))
            for pn, pv in ents:
                E.assume(Not(eq(n, pn)))
            from pyvc.engine import Entry
            sec.entries.append(Entry(n, True, v))
            ents.append((n, v))
        return {"ck": ti.fields["checksums"], "parser": parser, "ents": ents}

    def call(self, E, st):
        return E.call(E.getattr_(st["ck"], "deserialize"), [st["parser"]])

    def _spec(self, v):
        """symbolic spec: (acceptable, type, value)"""
        s = sym.sstr(v)
        nocolon = z3.InRe(s, z3.Star(sym.not_chars(":")))
        onecolon = z3.InRe(s, z3.Concat(z3.Star(sym.not_chars(":")), z3.Re(":"), z3.Star(sym.not_chars(":"))))
        ln = z3.Length(s)
        bare_ok = z3.And(nocolon, z3.Or(ln == 32, ln == 40, ln == 64))
        return sym.as_bool(z3.Or(onecolon, bare_ok)), nocolon, onecolon, ln

    def post(self, E, st, out):
        oks = [self._spec(v)[0] for n, v in st["ents"]]
        if out.kind == "raise":
            return {"rejects_only_unrecognised_entries": Not(And(*oks))}
        d = st["ck"].fields["checksums"]
        cl = [And(*oks)]
        for n, v in st["ents"]:
            ok, nocolon, onecolon, ln = self._spec(v)
            e = E.models.sd_lookup(d, n, create=False) if isinstance(d, SymDict) else None
            if e is None or e.present is not True or not isinstance(e.value, tuple) or len(e.value) != 2:
                cl.append(False)
                continue
            t, val = e.value
            s = sym.sstr(v)
            cl.append(Implies(sym.as_bool(nocolon), And(_veq(val, v),
                                                        Implies(sym.as_bool(ln == 32), _veq(t, "md5")),
                                                        Implies(sym.as_bool(ln == 40), _veq(t, "sha1")),
                                                        Implies(sym.as_bool(ln == 64), _veq(t, "sha256")))))
            if isinstance(t, SV) and isinstance(val, SV):
                cl.append(Implies(sym.as_bool(onecolon), sym.as_bool(s == z3.Concat(sym.sstr(t), z3.StringVal(":"), sym.sstr(val)))))
            elif sym.as_bool(onecolon) is not False:
                cl.append(Implies(sym.as_bool(onecolon), eq(v, sym.concat(t, ":", val))))
        return {"accepts_only_recognised_entries": cl[0], "every_path_maps_to_its_own_type_and_value": And(*cl[1:])}

    def concretise(self, model, st):
        return {"entries": [(concretise.value_of(model, n), concretise.value_of(model, v)) for n, v in st["ents"]]}

    def sample_inputs(self, rng):
        vals = ["sha256:" + "a" * 64, "a" * 32, "b" * 40, "c" * 64, "zzzz", "d" * 33, "t:a:b", "md5:", ":x", ""]
        import itertools
        for combo in itertools.product(vals, repeat=self.k):
            yield {"entries": [("images/f%d" % i, v) for i, v in enumerate(combo)]}

    def native_eval(self, inputs):
        ti = self.src.mods["treeinfo"].TreeInfo()
        ti.header.set_current_version()
        parser = self.src.mods["common"].SortedConfigParser()
        parser.add_section("checksums")
        for n, v in inputs["entries"]:
            if not isinstance(n, str) or n == "" or n.strip() != n or any(c in n for c in "=:\n") or n[0] in "#;[":
                return ("skip", None), {}
            parser.set("checksums", n, v)
        nat = native_call(ti.checksums.deserialize, parser)
        specs = [spec_checksum(v) for n, v in inputs["entries"]]
        if nat[0] == "raise":
            return nat, {"rejects_only_unrecognised_entries": any(s is None for s in specs)}
        got = ti.checksums.checksums
        return nat, {"accepts_only_recognised_entries": all(s is not None for s in specs),
                     "every_path_maps_to_its_own_type_and_value": all(s is not None and tuple(got.get(n, ())) == s
                                                                      for (n, v), s in zip(inputs["entries"], specs))}

    def describe(self, inputs):
        return "[checksums] %s loaded" % "; ".join("%s = %s" % e for e in inputs["entries"])


class ChecksumsWrite(Contract):
    """Checksums.serialize with k entries: every path is written as 'type:value' of its own entry, nothing else."""

    def __init__(self, src, T, k):
        self.src, self.T, self.k = src, T, k
        self.name = "productmd.treeinfo.Checksums.serialize[%d entries]" % k
        self.key = "ser:treeinfo.Checksums:%d" % k

    def setup(self, E):
        from .tisections import _new_parser
        ti = E.instantiate(("treeinfo", "TreeInfo"))
        d = E.models.new_dict("checksums")
        ents = []
        for i in range(self.k):
            n = SV(sym.Val.VStr(z3.Const("e%d.path" % i, sym.S)))
            t = SV(sym.Val.VStr(z3.Const("e%d.type" % i, sym.S)))
            v = SV(sym.Val.VStr(z3.Const("e%d.value" % i, sym.S)))
            E.assume(Not(sym.startswith(n, "/")))
            for pn, _, _ in ents:
                E.assume(Not(eq(n, pn)))
            from pyvc.engine import Entry
            d.entries.append(Entry(n, True, (t, v)))
            ents.append((n, t, v))
        ti.fields["checksums"].fields["checksums"] = d
        return {"ck": ti.fields["checksums"], "parser": _new_parser(E), "ents": ents}

    def call(self, E, st):
        return E.call(E.getattr_(st["ck"], "serialize"), [st["parser"]])

    def post(self, E, st, out):
        from .tisections import _section
        if out.kind == "raise":
            return {"relative_paths_are_written": False}
        sec = _section(E, st["parser"], "checksums")
        if sec is None:
            return {"relative_paths_are_written": False}
        cl = []
        for n, t, v in st["ents"]:
            e = E.models.sd_lookup(sec, n, create=False)
            cl.append(_veq(e.value, sym.concat(t, ":", v)) if e is not None and e.present is True else False)
        n_written = len([e for e in sec.entries if e.present is True])
        return {"relative_paths_are_written": True, "each_path_written_with_its_own_type_and_value": And(*cl),
                "nothing_else_written": n_written == self.k}

    def concretise(self, model, st):
        return None

    def sample_inputs(self, rng):
        import itertools
        names = ["images/b.iso", "images/a.iso", "z/c.img"]
        for perm in itertools.permutations(names, self.k):
            yield {"entries": [(n, "sha256", "%064x" % (i + 1)) for i, n in enumerate(perm)]}

    def native_eval(self, inputs):
        ti = self.src.mods["treeinfo"].TreeInfo()
        for n, t, v in inputs["entries"]:
            ti.checksums.checksums[n] = (t, v)
        parser = self.src.mods["common"].SortedConfigParser()
        nat = native_call(ti.checksums.serialize, parser)
        if nat[0] == "raise":
            return nat, {"relative_paths_are_written": False}
        got = dict(parser.items("checksums"))
        return nat, {"relative_paths_are_written": True,
                     "each_path_written_with_its_own_type_and_value": all(got.get(n) == "%s:%s" % (t, v) for n, t, v in inputs["entries"]),
                     "nothing_else_written": len(got) == len(inputs["entries"])}

    def describe(self, inputs):
        return "Checksums(%r).serialize(parser)" % (inputs["entries"],)


def contracts(src, T):          # noqa: F811
    return [ComputeChecksum(src, T), ImageAddChecksum(src, T), ChecksumsAdd(src, T), ChecksumsRead(src, T, 1), ChecksumsRead(src, T, 2),
            ChecksumsWrite(src, T, 1), ChecksumsWrite(src, T, 2)]
