"""C11 contracts: composeinfo variant forest -- VariantBase.add (validation, cycle, duplicate id, refusal leaves the container
unchanged), __getitem__ (by id, by UID, by dashed path) on forests of depth <= 3 with symbolic ids."""
import copy

import z3

from pyvc import sym, concretise
from pyvc.sym import And, Or, Not, Implies, If, eq, SV, is_none, is_str, truthy
from pyvc.engine import SymDict, ExcVal, Obj, FuncRef, PyRaise, Entry
from pyvc.verify import Contract, Outcome, native_call
from pyvc.models import ListSet
from spec import fields as F
from .sections import _veq

ID = r"[a-zA-Z0-9]+"


def _variant(E, ci, tag, symbolic=("id", "uid", "name", "type"), arches=None):
    v = E.instantiate(("composeinfo", "Variant"), [ci])
    f = {}
    for a in ("id", "uid", "name", "type"):
        if a in symbolic:
            x = SV(z3.Const("%s.%s" % (tag, a), sym.Val))
            E.assume(concretise.wellformed(x))
        else:
            x = {"name": "N", "type": "variant"}.get(a)
        v.fields[a] = x
        f[a] = x
    if arches is None:
        a1 = SV(sym.Val.VStr(z3.Const("%s.arch" % tag, sym.S)))
        arches = ListSet([a1])
        f["arch"] = a1
    v.fields["arches"] = arches
    return v, f


def valid_variant(T, f, parent_f):
    """documented rules of a composeinfo variant (spec side): id pattern, uid alignment (dashed top-level rule), name, type, arches
    non-empty and within the parent's"""
    idok = sym.matches(F.VARIANT_ID, f["id"])
    name = And(is_str(f["name"]), truthy(f["name"]))
    typ = sym.isin(f["type"], T.VARIANT_TYPES)
    if parent_f is None:
        # top level: uid without dashes equals id
        uid = And(is_str(f["uid"]), _dashless_eq(f["uid"], f["id"]))
        par = True
    else:
        uid = And(is_str(f["uid"]), eq(f["uid"], sym.concat(_s(parent_f["uid"]), "-", _s(f["id"]))))
        par = eq(f["arch"], parent_f["arch"])         # single-arch sets: child arch must be the parent's
    return And(idok, uid, name, typ, par)


def _s(v):
    return SV(sym.Val.VStr(sym.Val.s(v.t))) if isinstance(v, SV) else v


def _dashless_eq(uid, vid):
    """uid.replace('-', '') == id, for id free of dashes: uid is id with dashes inserted"""
    if not isinstance(uid, SV):
        return uid.replace("-", "") == vid
    from pyvc.models import ReplaceAll
    return sym.as_bool(ReplaceAll(sym.sstr(uid), z3.StringVal("-"), z3.StringVal("")) == sym.sstr(vid))


class VariantAdd(Contract):
    """VariantBase.add on a container holding k children (k = 0, 1): accepted iff the new variant is valid (documented rules, with the
    parent link already set), is not an ancestor of the container and its id is not taken; then variants' == variants + {id: v} and, for a
    Variant container, v.parent is the container.  Every refusal (ValueError/TypeError) leaves the container's variants unchanged."""

    def __init__(self, src, T, container, k):
        self.src, self.T, self.container, self.k = src, T, container, k
        self.name = "productmd.composeinfo.%s.add[%d existing]" % (container, k)
        self.key = "meth:composeinfo.%s.add:%d" % (container, k)

    def setup(self, E):
        ci = E.instantiate(("composeinfo", "ComposeInfo"))
        if self.container == "Variants":
            cont = ci.fields["variants"]
            pf = None
        else:
            cont, pf = _variant(E, ci, "parent", symbolic=("id", "uid"))
            E.assume(sym.in_lang(pf["uid"], r"[A-Za-z0-9]+(-[A-Za-z0-9]+)*"))
        existing = []
        for i in range(self.k):
            ev, ef = _variant(E, ci, "old%d" % i, symbolic=("id", "uid"))
            E.assume(sym.in_lang(ef["id"], ID))
            if pf is not None:
                ev.fields["parent"] = cont
            cont.fields["variants"].entries.append(Entry(ef["id"], True, ev))
            existing.append((ev, ef))
        new, nf = _variant(E, ci, "new")
        return {"ci": ci, "cont": cont, "pf": pf, "existing": existing, "new": new, "nf": nf, "mark": len(E.path.effects)}

    def call(self, E, st):
        return E.call(E.getattr_(st["cont"], "add"), [st["new"]])

    def post(self, E, st, out):
        nf, pf = st["nf"], st["pf"]
        d = st["cont"].fields["variants"]
        writes = [w for w in E.path.effects[st["mark"]:] if w[0] == "dict_write" and w[1] is d]
        valid = valid_variant(self.T, nf, pf)
        taken = Or(*[eq(nf["id"], ef["id"]) for _, ef in st["existing"]]) if st["existing"] else False
        if out.kind == "raise":
            ents = [(e.key, e.value) for e in d.entries if e.present is True]
            same = len(ents) == len(st["existing"]) and all(v is ev for (k, v), (ev, ef) in zip(ents, st["existing"]))
            return {"refuses_with_ValueError_or_TypeError": out.exc_cls in (ValueError, TypeError),
                    "refuses_only_invalid_or_duplicate": Or(Not(valid), taken),
                    "refusal_leaves_container_unchanged": same}
        e = E.models.sd_lookup(d, nf["id"], create=False)
        ents = [(x.key, x.value) for x in d.entries if x.present is True]
        cl = {"accepts_only_valid_variant": valid, "accepts_only_unused_id": Not(taken),
              "variant_registered_under_its_id": e is not None and e.present is True and e.value is st["new"],
              "other_children_unchanged": len(ents) == len(st["existing"]) + 1 and all(any(v is ev for k, v in ents) for ev, ef in st["existing"])}
        if pf is not None:
            cl["parent_link_set"] = st["new"].fields.get("parent") is st["cont"]
        else:
            cl["top_level_has_no_parent"] = st["new"].fields.get("parent") is None
        return cl

    def concretise(self, model, st):
        return None

    def sample_inputs(self, rng):
        for vid, uid, name, typ, arch in [("A", "A", "n", "variant", "x86_64"), ("A", "P-A", "n", "addon", "x86_64"), ("A", "P-A", "n", "addon", "s390x"),
                                          ("A", "Q-A", "n", "addon", "x86_64"), ("a-b", "P-a-b", "n", "addon", "x86_64"), ("A", "P-A", "", "addon", "x86_64"),
                                          ("A", "P-A", "n", "bogus", "x86_64"), ("B", "P-B", "n", "optional", "x86_64"), ("A", None, "n", "addon", "x86_64"),
                                          ("A", "A", "n", "variant", "x86_64")]:
            for dup in (False, True):
                yield {"id": vid, "uid": uid, "name": name, "type": typ, "arch": arch, "dup": dup}

    def native_eval(self, inputs):
        CI = self.src.mods["composeinfo"]
        ci = CI.ComposeInfo()

        def mk(vid, uid, name, typ, arches):
            v = CI.Variant(ci)
            v.id, v.uid, v.name, v.type, v.arches = vid, uid, name, typ, set(arches)
            return v
        if self.container == "Variants":
            cont = ci.variants
            puid = None
        else:
            cont = mk("P", "P", "p", "variant", ["x86_64"])
            puid = "P"
        old = None
        if self.k or inputs["dup"]:
            oid = inputs["id"] if inputs["dup"] and isinstance(inputs["id"], str) else "Old"
            old = mk(oid, oid if puid is None else "%s-%s" % (puid, oid), "o", "variant", ["x86_64"])
            if puid is not None:
                old.parent = cont
            cont.variants[oid] = old
        before = dict(cont.variants)
        new = mk(inputs["id"], inputs["uid"], inputs["name"], inputs["type"], [inputs["arch"]])
        nat = native_call(cont.add, new)
        import re
        idok = isinstance(inputs["id"], str) and re.match(F.VARIANT_ID, inputs["id"]) is not None
        if puid is None:
            uidok = isinstance(inputs["uid"], str) and idok and inputs["uid"].replace("-", "") == inputs["id"]
            par = True
        else:
            uidok = isinstance(inputs["uid"], str) and idok and inputs["uid"] == "%s-%s" % (puid, inputs["id"])
            par = inputs["arch"] == "x86_64"
        valid = idok and uidok and bool(inputs["name"]) and inputs["type"] in self.T.VARIANT_TYPES and par
        taken = inputs["id"] in before
        if nat[0] == "raise":
            return nat, {"refuses_with_ValueError_or_TypeError": nat[1] in (ValueError, TypeError),
                         "refuses_only_invalid_or_duplicate": (not valid) or taken,
                         "refusal_leaves_container_unchanged": cont.variants == before and all(cont.variants[k] is before[k] for k in before)}
        exp = dict(before)
        exp[inputs["id"]] = new
        cl = {"accepts_only_valid_variant": valid, "accepts_only_unused_id": not taken,
              "variant_registered_under_its_id": cont.variants.get(inputs["id"]) is new,
              "other_children_unchanged": set(cont.variants) == set(exp) and all(cont.variants[k] is exp[k] for k in exp)}
        if puid is not None:
            cl["parent_link_set"] = new.parent is cont
        return nat, cl

    def describe(self, inputs):
        return "%s%s.add(Variant(id=%r, uid=%r, name=%r, type=%r, arches={%r}))" % (
            self.container, " P(x86_64)" if self.container == "Variant" else "", inputs["id"], inputs["uid"], inputs["name"], inputs["type"], inputs["arch"]) + \
            (" with that id already present" if inputs["dup"] else "")



class VariantAddAny(VariantAdd):
    """VariantBase.add on a container holding ANY number of children (the table of children is a dict of unbounded size, pyvc/anycoll.py):
    accepted iff the new variant is valid (parent link set) and its id is not taken by ANY child; then it is registered under its id and
    nothing else in the table is written; every refusal leaves the table unwritten."""

    def __init__(self, src, T, container):
        self.src, self.T, self.container, self.k = src, T, container, None
        self.name = "productmd.composeinfo.%s.add[any number of children]" % container
        self.key = "meth:composeinfo.%s.add:any" % container

    def setup(self, E):
        from pyvc.anycoll import AnyDict
        ci = E.instantiate(("composeinfo", "ComposeInfo"))
        if self.container == "Variants":
            cont, pf = ci.fields["variants"], None
        else:
            cont, pf = _variant(E, ci, "parent", symbolic=("id", "uid"))
            E.assume(sym.in_lang(pf["uid"], r"[A-Za-z0-9]+(-[A-Za-z0-9]+)*"))
        siblings = []

        def sibling(E_, key, tag):
            m0 = len(E_.path.effects)
            ev, ef = _variant(E_, ci, "sibling%d" % len(siblings))        # every attribute of a ghost sibling is symbolic
            if pf is not None:
                ev.fields["parent"] = cont
            del E_.path.effects[m0:]
            siblings.append(ev)
            return ev
        table = AnyDict("variants", sibling)
        cont.fields["variants"] = table
        new, nf = _variant(E, ci, "new")
        return {"ci": ci, "cont": cont, "pf": pf, "table": table, "new": new, "nf": nf, "mark": len(E.path.effects)}

    def post(self, E, st, out):
        nf, pf, d = st["nf"], st["pf"], st["table"]
        writes = [w for w in E.path.effects[st["mark"]:] if w[0] == "any_write" and w[1] is d]
        valid = valid_variant(self.T, nf, pf)
        looked = [ent for ent in d.known]
        # the id was looked up in the table exactly once; `taken` = it was present before the call wrote anything
        mine = [ent for ent in d.written]
        taken_ents = [ent for ent in looked if ent[1] is True and ent not in mine]
        if out.kind == "raise":
            return {"refuses_with_ValueError_or_TypeError": out.exc_cls in (ValueError, TypeError),
                    "refuses_only_invalid_or_duplicate": Or(Not(valid), bool(taken_ents)),
                    "refusal_leaves_container_unchanged": not writes}
        cl = {"accepts_only_valid_variant": valid, "accepts_only_unused_id": not taken_ents,
              "variant_registered_under_its_id": len(mine) == 1 and mine[0][2] is st["new"] and _veq(mine[0][0], nf["id"]),
              "other_children_unchanged": len(writes) == 1}
        if pf is not None:
            cl["parent_link_set"] = st["new"].fields.get("parent") is st["cont"]
        else:
            cl["top_level_has_no_parent"] = st["new"].fields.get("parent") is None
        return cl

    def sample_inputs(self, rng):
        return VariantAdd.sample_inputs(VariantAdd(self.src, self.T, self.container, 1), rng)

    def native_eval(self, inputs):
        nat, cl = VariantAdd.native_eval(VariantAdd(self.src, self.T, self.container, 1), inputs)
        return nat, cl


class VariantsWriteAny(Contract):
    """composeinfo Variants.serialize with ANY number of top-level variants (table of unbounded size; witness rule, the callees validate() and
    Variant.serialize are recorded -- their own contracts): the container is validated first, a fresh 'variants' section is created, and the
    ARBITRARY top-level variant is written through its own writer into exactly that section -- so no variant, however many there are and
    wherever it sorts, is skipped or written elsewhere (C01/C06: its writer validates it and its subtree)."""
    name = "productmd.composeinfo.Variants.serialize[any number of top-level variants]"
    key = "ser:composeinfo.Variants:any"

    def __init__(self, src, T):
        self.src, self.T = src, T

    def setup(self, E):
        from pyvc.anycoll import AnyDict
        ci = E.instantiate(("composeinfo", "ComposeInfo"))
        cont = ci.fields["variants"]
        made = []

        def top(E_, key, tag):
            m0 = len(E_.path.effects)
            v, f = _variant(E_, ci, "top%d" % len(made))          # id, uid, name and type symbolic
            del E_.path.effects[m0:]
            made.append(v)
            return v
        table = AnyDict("variants", top)
        cont.fields["variants"] = table
        calls = []

        def mk(n):
            def summ(E_, obj, args, kwargs):
                calls.append((n, obj, list(args)))
                return None
            return summ
        self._stubs = [(("composeinfo", "Variants"), "validate"), (("composeinfo", "Variant"), "serialize")]
        for k in self._stubs:
            E.summaries[k] = mk(k[1])
        return {"cont": cont, "table": table, "calls": calls, "data": E.models.new_dict("data"), "mark": len(E.path.effects)}

    def call(self, E, st):
        try:
            return E.call(E.getattr_(st["cont"], "serialize"), [st["data"]])
        finally:
            for k in self._stubs:
                E.summaries.pop(k, None)

    def post(self, E, st, out):
        if out.kind == "raise":
            return {"writer_does_not_fail_by_itself": False}
        wit = [(kind, x) for kind, c, x in getattr(E.path, "witnesses", []) if c is st["table"]]
        calls = st["calls"]
        sec = E.models.sd_lookup(st["data"], "variants", create=False)
        secd = sec.value if sec is not None and sec.present is True else None
        sers = [c for c in calls if c[0] == "serialize"]
        cl = {"writer_does_not_fail_by_itself": True,
              "container_validated_before_anything_is_written": bool(calls) and calls[0][0] == "validate" and calls[0][1] is st["cont"],
              "fresh_variants_section_created": isinstance(secd, SymDict)}
        if wit and wit[-1][0] == "all" and wit[-1][1] is not None:
            w = wit[-1][1]
            child = [e[2] for e in st["table"].known if e[0] is w and e[1] is True]
            cl["arbitrary_top_level_variant_written_into_the_section"] = len(sers) == 1 and bool(child) and sers[0][1] is child[0] and \
                len(sers[0][2]) == 1 and sers[0][2][0] is secd
        else:
            cl["arbitrary_top_level_variant_written_into_the_section"] = bool(wit) and wit[-1][0] == "all" and len(sers) == 0
        return cl

    def concretise(self, model, st):
        return None

    def native_eval(self, inputs):
        raise NotImplementedError

class GetItem(Contract):
    """ComposeInfo[uid] / Variant[id] on a well-formed forest top -> child -> grandchild with symbolic ids: every variant is found from the
    top by its UID and from its parent by its id."""
    name = "productmd.composeinfo.VariantBase.__getitem__"
    key = "meth:composeinfo.VariantBase.__getitem__"

    def __init__(self, src, T, exclude_known=False):
        self.src, self.T, self.exclude_known = src, T, exclude_known

    def setup(self, E):
        ci = E.instantiate(("composeinfo", "ComposeInfo"))
        ids = [SV(sym.Val.VStr(z3.Const("id%d" % i, sym.S))) for i in range(3)]
        for i in ids:
            E.assume(sym.in_lang(i, ID))
        if self.exclude_known:
            # complement of the known finding's witness class (known_findings.json): three nested variants sharing one id
            E.assume(Not(And(eq(ids[0], ids[1]), eq(ids[1], ids[2]))))
        other = SV(sym.Val.VStr(z3.Const("id.other", sym.S)))
        E.assume(And(sym.in_lang(other, ID), Not(eq(other, ids[0]))))
        vs = []
        parent = None
        cont = ci.fields["variants"]
        uid = None
        for i, vid in enumerate(ids):
            v = E.instantiate(("composeinfo", "Variant"), [ci])
            uid = vid if uid is None else sym.concat(uid, "-", vid)
            v.fields.update({"id": vid, "uid": uid, "name": "n", "type": "variant", "parent": parent})
            cont.fields["variants"].entries.append(Entry(vid, True, v))
            vs.append(v)
            parent, cont = v, v
        # a second top-level variant
        o = E.instantiate(("composeinfo", "Variant"), [ci])
        o.fields.update({"id": other, "uid": other, "name": "n", "type": "variant", "parent": None})
        ci.fields["variants"].fields["variants"].entries.append(Entry(other, True, o))
        return {"ci": ci, "vs": vs, "other": o}

    def call(self, E, st):
        ci, vs = st["ci"], st["vs"]
        get = lambda o, k: E.models.getitem(o, k)
        return [get(ci, vs[0].fields["uid"]), get(ci, vs[1].fields["uid"]), get(ci, vs[2].fields["uid"]),
                get(vs[0], vs[1].fields["id"]), get(vs[1], vs[2].fields["id"]), get(ci, st["other"].fields["uid"])]

    def post(self, E, st, out):
        if out.kind == "raise":
            return {"every_variant_is_findable": False}
        r, vs = out.value, st["vs"]
        return {"every_variant_is_findable": True,
                "found_from_top_by_uid": r[0] is vs[0] and r[1] is vs[1] and r[2] is vs[2] and r[5] is st["other"],
                "found_from_parent_by_id": r[3] is vs[1] and r[4] is vs[2]}

    def concretise(self, model, st):
        return None

    def native_eval(self, inputs):
        raise NotImplementedError


def contracts(src, T):
    return [VariantAddAny(src, T, "Variants"), VariantAddAny(src, T, "Variant"), VariantsWriteAny(src, T),
            VariantAdd(src, T, "Variants", 0), VariantAdd(src, T, "Variants", 1), VariantAdd(src, T, "Variant", 0), VariantAdd(src, T, "Variant", 1),
            GetItem(src, T)]


class ForestRoundTrip(Contract):
    """composeinfo Variants.serialize + Variants.deserialize on the forest  top(T) -> child(C)  [+ a second top-level variant U]:
    ids, names, types, arches and one path table symbolic.  Re-reading what was written reproduces every variant with its fields,
    paths, parent link and children.  Bounded in SHAPE (this forest), unbounded in values."""

    def __init__(self, src, T, layered=False):
        self.src, self.T, self.layered = src, T, layered
        self.name = "productmd.composeinfo.Variants.deserialize(serialize(forest))%s" % ("[layered-product child]" if layered else "")
        self.key = "rt:composeinfo.Variants:%d" % int(layered)

    def setup(self, E):
        ci = E.instantiate(("composeinfo", "ComposeInfo"))
        ci2 = E.instantiate(("composeinfo", "ComposeInfo"))
        vs = {}
        tid = SV(sym.Val.VStr(z3.Const("T.id", sym.S)))
        cid = SV(sym.Val.VStr(z3.Const("C.id", sym.S)))
        uidv = SV(sym.Val.VStr(z3.Const("U.id", sym.S)))
        for x in (tid, cid, uidv):
            E.assume(sym.in_lang(x, ID))
        E.assume(Not(eq(tid, uidv)))
        arch = SV(sym.Val.VStr(z3.Const("arch", sym.S)))
        E.assume(Not(eq(arch, "")))
        arch2 = SV(sym.Val.VStr(z3.Const("arch.foreign", sym.S)))
        E.assume(Not(eq(arch2, arch)))

        def mk(tag, vid, uid, parent, typ):
            v = E.instantiate(("composeinfo", "Variant"), [ci])
            name = SV(sym.Val.VStr(z3.Const("%s.name" % tag, sym.S)))
            E.assume(Not(eq(name, "")))
            v.fields.update({"id": vid, "uid": uid, "name": name, "type": typ, "arches": ListSet([arch]), "parent": parent})
            p = SV(sym.Val.VStr(z3.Const("%s.os_tree" % tag, sym.S)))
            E.assume(Not(eq(p, "")))
            d = E.models.new_dict("os_tree")
            d.entries.append(Entry(arch, True, p))
            # documented normalisation: a path filed under an arch outside the variant's arch set is not stored
            d.entries.append(Entry(arch2, True, "foreign/%s" % tag))
            v.fields["paths"].fields["os_tree"] = d
            # ... in EVERY category, also for the name 'src' under a source category (the foreign arch is any string but the variant's)
            d3 = E.models.new_dict("source_tree")
            d3.entries.append(Entry(arch2, True, "foreign-src/%s" % tag))
            v.fields["paths"].fields["source_tree"] = d3
            # ... and neither is an empty path
            d2 = E.models.new_dict("packages")
            d2.entries.append(Entry(arch, True, ""))
            v.fields["paths"].fields["packages"] = d2
            vs[tag] = (v, {"id": vid, "uid": uid, "name": name, "type": typ, "path": p})
            return v
        ttype = SV(sym.Val.VStr(z3.Const("T.type", sym.S)))
        E.assume(sym.isin(ttype, ["variant", "optional", "addon"]))
        top = mk("T", tid, tid, None, ttype)
        child = mk("C", cid, sym.concat(tid, "-", cid), top, "layered-product" if self.layered else "addon")
        if self.layered:
            from .sections import _sv_fields, SECTIONS
            f = _sv_fields(E, child.fields["release"], ["name", "version", "short", "type"], "C.rel")
            # the caller may have left is_layered at False: the writer normalises it (C08: the FIRST dump already shows it)
            il = SV(z3.Const("C.rel.is_layered", sym.Val))
            E.assume(sym.is_bool(il))
            child.fields["release"].fields["is_layered"] = il
            child.fields["release"].fields["internal"] = False
            E.assume(F.valid_release(self.T, child.fields["release"]))
            vs["C"][1]["is_layered_in"] = il
            vs["C"][1]["rel"] = f
        other = mk("U", uidv, uidv, None, "variant")
        top.fields["variants"].entries.append(Entry(cid, True, child))
        # either registration order of the two top-level variants
        tops = [(tid, top), (uidv, other)]
        if E.decide(E.fresh("tops_reversed", z3.BoolSort())):
            tops.reverse()
        for k, v in tops:
            ci.fields["variants"].fields["variants"].entries.append(Entry(k, True, v))
        return {"ci": ci, "ci2": ci2, "vs": vs, "arch": arch, "arch2": arch2, "data": E.models.new_dict("payload")}

    def call(self, E, st):
        E.call(E.getattr_(st["ci"].fields["variants"], "serialize"), [st["data"]])
        return E.call(E.getattr_(st["ci2"].fields["variants"], "deserialize"), [st["data"]])

    def post(self, E, st, out):
        if out.kind == "raise":
            return {"write_read_cycle_succeeds": False}
        vs = st["vs"]
        top2 = st["ci2"].fields["variants"].fields["variants"]
        tl = [(e.key, e.value) for e in top2.entries if e.present is True]

        def find(cont, vid):
            e = E.models.sd_lookup(cont, vid, create=False)
            return e.value if e is not None and e.present is True else None
        t2 = find(top2, vs["T"][1]["id"])
        u2 = find(top2, vs["U"][1]["id"])
        c2 = find(t2.fields["variants"], vs["C"][1]["id"]) if isinstance(t2, Obj) else None

        def same(v2, f, parent):
            if not isinstance(v2, Obj):
                return False
            arches = v2.fields["arches"]
            am = arches.items if isinstance(arches, ListSet) else None
            pt = v2.fields["paths"].fields["os_tree"]
            pe = E.models.sd_lookup(pt, st["arch"], create=False) if isinstance(pt, SymDict) else None
            norm = isinstance(pt, SymDict) and len([e for e in pt.entries if e.present is True]) == 1 and \
                not [e for e in v2.fields["paths"].fields["packages"].entries if e.present is True]
            return And(_veq(v2.fields["id"], f["id"]), _veq(v2.fields["uid"], f["uid"]), _veq(v2.fields["name"], f["name"]),
                       _veq(v2.fields["type"], f["type"]), am is not None and len(am) == 1 and _veq(am[0], st["arch"]),
                       _veq(pe.value, f["path"]) if pe is not None and pe.present is True else False,
                       norm, v2.fields["parent"] is parent)
        # what was WRITTEN (byte-identical second dump): only non-empty paths of the variant's own arches
        def written_paths_ok(uid):
            sec = E.models.sd_lookup(st["data"], "variants", create=False)
            ve = E.models.sd_lookup(sec.value, uid, create=False) if sec is not None and isinstance(sec.value, SymDict) else None
            if ve is None or not isinstance(ve.value, SymDict):
                return False
            pe = E.models.sd_lookup(ve.value, "paths", create=False)
            if pe is None or not isinstance(pe.value, SymDict):
                return False
            cats = dict((e.key, e.value) for e in pe.value.entries if e.present is True)
            if sorted(k for k in cats if isinstance(k, str)) != ["os_tree"]:
                return False
            ents = [e for e in cats["os_tree"].entries if e.present is True]
            return len(ents) == 1 and _veq(ents[0].key, st["arch"])
        cl = {"write_read_cycle_succeeds": True, "two_top_level_variants": len(tl) == 2,
              "only_nonempty_paths_of_own_arches_written": And(written_paths_ok(vs["T"][1]["uid"]), written_paths_ok(vs["C"][1]["uid"])),
              "top_level_variants_reproduced": And(same(t2, vs["T"][1], None), same(u2, vs["U"][1], None)),
              "child_reproduced_under_its_parent": same(c2, vs["C"][1], t2),
              "no_other_children": isinstance(t2, Obj) and len([e for e in t2.fields["variants"].entries if e.present is True]) == 1 and
              isinstance(u2, Obj) and not [e for e in u2.fields["variants"].entries if e.present is True]}
        if self.layered and isinstance(c2, Obj):
            rf = vs["C"][1]["rel"]
            cl["layered_product_release_reproduced"] = And(*[_veq(c2.fields["release"].fields[k], rf[k]) for k in ("name", "version", "short", "type")])
            sec = E.models.sd_lookup(st["data"], "variants", create=False)
            ve = E.models.sd_lookup(sec.value, vs["C"][1]["uid"], create=False) if sec is not None and isinstance(sec.value, SymDict) else None
            re_ = E.models.sd_lookup(ve.value, "release", create=False) if ve is not None and isinstance(ve.value, SymDict) else None
            il = E.models.sd_lookup(re_.value, "is_layered", create=False) if re_ is not None and isinstance(re_.value, SymDict) else None
            cl["layered_product_release_written_as_layered"] = And(_veq(il.value, True), _veq(c2.fields["release"].fields["is_layered"], True)) \
                if il is not None and il.present is True else False
        return cl

    def concretise(self, model, st):
        vs = st["vs"]
        inp = {"arch": concretise.value_of(model, st["arch"]), "foreign": concretise.value_of(model, st["arch2"])}
        for tag in ("T", "C", "U"):
            f = vs[tag][1]
            inp[tag] = dict((k, concretise.value_of(model, f[k])) for k in ("id", "name", "type", "path"))
        if self.layered:
            inp["rel"] = dict((k, concretise.value_of(model, v)) for k, v in vs["C"][1]["rel"].items())
            inp["is_layered_in"] = bool(concretise.value_of(model, vs["C"][1]["is_layered_in"]))
        return inp

    def sample_inputs(self, rng):
        for t in ("variant", "optional"):
            for ids in (("Server", "HA", "Client"), ("B", "A", "A1"), ("Z", "Z", "Y")):
                inp = {"arch": "x86_64", "T": {"id": ids[0], "name": "t", "type": t, "path": "T/os"},
                       "C": {"id": ids[1], "name": "c", "type": "layered-product" if self.layered else "addon", "path": "C/os"},
                       "U": {"id": ids[2], "name": "u", "type": "variant", "path": "U/os"}}
                if self.layered:
                    inp["rel"] = {"name": "LP", "version": "1.0", "short": "lp", "type": "ga"}
                    yield dict(inp, is_layered_in=False)
                    inp["is_layered_in"] = True
                yield inp
                yield dict(inp, foreign="src")

    def native_eval(self, inputs):
        CI = self.src.mods["composeinfo"]
        ci, ci2 = CI.ComposeInfo(), CI.ComposeInfo()
        arch = inputs["arch"]

        def mk(tag, uid):
            v = CI.Variant(ci)
            f = inputs[tag]
            v.id, v.uid, v.name, v.type, v.arches = f["id"], uid, f["name"], f["type"], set([arch])
            foreign = inputs.get("foreign", arch + "-foreign")
            if foreign == arch:
                foreign = arch + "-foreign"
            v.paths.os_tree = {arch: f["path"], foreign: "foreign/%s" % tag}
            v.paths.source_tree = {foreign: "foreign-src/%s" % tag}
            v.paths.packages = {arch: ""}
            return v
        T_ = mk("T", inputs["T"]["id"])
        U_ = mk("U", inputs["U"]["id"])
        C_ = mk("C", "%s-%s" % (inputs["T"]["id"], inputs["C"]["id"]))
        C_.parent = T_
        if self.layered:
            for k, v in inputs["rel"].items():
                setattr(C_.release, k, v)
            C_.release.is_layered = inputs.get("is_layered_in", True)
        T_.variants[C_.id] = C_
        ci.variants.variants[T_.id] = T_
        ci.variants.variants[U_.id] = U_
        data = {}

        def cyc():
            ci.variants.serialize(data)
            ci2.variants.deserialize(data)
        nat = native_call(cyc)
        if nat[0] == "raise":
            return nat, {"write_read_cycle_succeeds": False}
        from bounded import gen

        def view(v):
            return gen.view_variant(v)
        tops = ci2.variants.variants
        t2, u2 = tops.get(T_.id), tops.get(U_.id)
        c2 = t2.variants.get(C_.id) if t2 is not None else None
        wr = data.get("variants", {})
        wok = all(set(wr.get(u, {}).get("paths", {}).keys()) == {"os_tree"} and set(wr[u]["paths"]["os_tree"].keys()) == {arch}
                  for u in (T_.uid, C_.uid))
        cl = {"write_read_cycle_succeeds": True, "two_top_level_variants": len(tops) == 2,
              "only_nonempty_paths_of_own_arches_written": wok,
              "top_level_variants_reproduced": t2 is not None and u2 is not None and view(t2)[:7] == view(T_)[:7] and view(u2) == view(U_),
              "child_reproduced_under_its_parent": c2 is not None and view(c2) == view(C_) and c2.parent is t2,
              "no_other_children": t2 is not None and len(t2.variants) == 1 and u2 is not None and not u2.variants}
        if self.layered and c2 is not None:
            cl["layered_product_release_reproduced"] = all(getattr(c2.release, k) == v for k, v in inputs["rel"].items())
            wr = data.get("variants", {}).get("%s-%s" % (inputs["T"]["id"], inputs["C"]["id"]), {}).get("release", {})
            cl["layered_product_release_written_as_layered"] = wr.get("is_layered") is True and c2.release.is_layered is True
        return nat, cl

    def describe(self, inputs):
        return "forest %s -> %s, %s on arch %r written and re-read" % (inputs["T"], inputs["C"], inputs["U"], inputs["arch"])


VARIANT_RECORD_FIELDS = ("id", "uid", "name", "type", "arches")
LP_RELEASE_FIELDS = ("name", "version", "short", "type")


class VariantReaderValid(Contract):
    """composeinfo Variant.deserialize(variants, uid) on the record of a top-level variant that is valid except for ONE corruption:
    field k of the record (k in id, uid, name, type, arches) or -- for a 'layered-product' variant -- field k of its embedded release
    section replaced by an arbitrary JSON value.  A normal return means the loaded variant (and its embedded release) satisfies every
    documented rule (C07)."""

    def __init__(self, src, T, where, k):
        self.src, self.T, self.where, self.k = src, T, where, k
        self.name = "productmd.composeinfo.Variant.deserialize[%s.%s corrupted]" % (where, k)
        self.key = "de:composeinfo.Variant:%s:%s" % (where, k)

    def setup(self, E):
        from .sections import _sv_fields
        ci = E.instantiate(("composeinfo", "ComposeInfo"))
        ci.fields["header"].fields["version"] = "%d.%d" % self.T.VERSION
        v = E.instantiate(("composeinfo", "Variant"), [ci])
        vid = SV(sym.Val.VStr(z3.Const("rec.id", sym.S)))
        name = SV(sym.Val.VStr(z3.Const("rec.name", sym.S)))
        arch = SV(sym.Val.VStr(z3.Const("rec.arch", sym.S)))
        E.assume(And(sym.in_lang(vid, ID), Not(eq(name, "")), Not(eq(arch, ""))))
        layered = self.where == "release"
        typ = "layered-product" if layered else SV(sym.Val.VStr(z3.Const("rec.type", sym.S)))
        if not layered:
            E.assume(And(sym.isin(typ, self.T.VARIANT_TYPES), Not(eq(typ, "layered-product"))))
        good = {"id": vid, "uid": vid, "name": name, "type": typ, "arches": [arch]}
        bad = SV(z3.Const("corrupt.%s" % self.k, sym.Val))
        E.assume(concretise.json_value(bad))
        if self.k == "arches":
            # the empty list, or a JSON scalar other than a string (a string / object / list of arbitrary content in place of the
            # arch list is iterated by set(): bounded stand-in only)
            E.assume(And(Not(sym.is_ref(bad)), Not(is_str(bad))))
            if E.decide(E.fresh("arches_empty_list", z3.BoolSort())):
                bad = []
        rec = E.models.new_dict("record")
        for a in VARIANT_RECORD_FIELDS:
            rec.entries.append(Entry(a, True, bad if (self.where == "record" and a == self.k) else good[a]))
        rec.entries.append(Entry("paths", True, E.models.new_dict("paths")))
        rf = None
        if layered:
            gr = Obj(("composeinfo", "Release"), "good", 0)
            rf = _sv_fields(E, gr, list(LP_RELEASE_FIELDS), "rel")
            gr.fields["is_layered"] = True
            gr.fields["internal"] = False
            E.assume(F.valid_release(self.T, gr))
            E.assume(sym.isin(rf["type"], self.T.RELEASE_TYPES))       # canonical lower-case spelling in the uncorrupted record
            rs = E.models.new_dict("release")
            for a in LP_RELEASE_FIELDS:
                rs.entries.append(Entry(a, True, bad if a == self.k else rf[a]))
            rs.entries.append(Entry("is_layered", True, True))
            rec.entries.append(Entry("release", True, rs))
        doc = E.models.new_dict("variants")
        doc.entries.append(Entry(vid, True, rec))
        return {"v": v, "doc": doc, "uid": vid, "good": good, "bad": bad, "rf": rf}

    def call(self, E, st):
        return E.call(E.getattr_(st["v"], "deserialize"), [st["doc"], st["uid"]])

    def post(self, E, st, out):
        if out.kind == "raise":
            return {"loaded_variant_is_valid": True}
        v = st["v"]
        ar = v.fields["arches"]
        am = ar.items if isinstance(ar, ListSet) else (list(ar) if isinstance(ar, (set, frozenset, list)) else None)
        f = dict((a, v.fields[a]) for a in ("id", "uid", "name", "type"))
        ok = And(valid_variant(self.T, f, None), am is not None and len(am) > 0)
        cl = {"loaded_variant_is_valid": ok}
        if self.where == "release":
            cl["embedded_release_is_valid"] = F.valid_release(self.T, v.fields["release"])
        return cl

    def concretise(self, model, st):
        def val(x):
            return [val(y) for y in x] if isinstance(x, list) else concretise.value_of(model, x)
        rec = dict((a, val(x)) for a, x in st["good"].items())
        rec["paths"] = {}
        if self.where == "record":
            rec[self.k] = val(st["bad"])
        else:
            rec["release"] = dict((a, val(x)) for a, x in st["rf"].items())
            rec["release"]["is_layered"] = True
            rec["release"][self.k] = val(st["bad"])
        return {"uid": val(st["uid"]), "record": rec}

    def sample_inputs(self, rng):
        for bad in (None, "", 0, 1.5, [], {}, "a-b", "bogus", ["x86_64", 3], True, "A B"):
            rec = {"id": "Server", "uid": "Server", "name": "Server", "type": "variant", "arches": ["x86_64"], "paths": {}}
            if self.where == "record":
                rec[self.k] = bad
            else:
                rec["type"] = "layered-product"
                rec["release"] = {"name": "LP", "version": "1.0", "short": "lp", "type": "ga", "is_layered": True}
                rec["release"][self.k] = bad
            yield {"uid": "Server", "record": rec}

    def native_eval(self, inputs):
        CI = self.src.mods["composeinfo"]
        ci = CI.ComposeInfo()
        ci.header.set_current_version()
        v = CI.Variant(ci)
        uid = inputs["uid"]
        nat = native_call(v.deserialize, {uid: copy.deepcopy(inputs["record"])}, uid)
        if nat[0] == "raise":
            return nat, {"loaded_variant_is_valid": True}
        ok = True
        try:
            v.validate()
        except Exception:
            ok = False
        cl = {"loaded_variant_is_valid": ok}
        if self.where == "release":
            rok = True
            try:
                v.release.validate()
            except Exception:
                rok = False
            cl["embedded_release_is_valid"] = rok
        return nat, cl

    def describe(self, inputs):
        return "composeinfo Variant.deserialize({%r: %s}, %r)" % (inputs["uid"], concretise.py_repr(inputs["record"]), inputs["uid"])


class ForestWriteValidates(Contract):
    """composeinfo Variants.serialize on the forest  T -> C [-> G]: T (and C when G is the subject) valid, every field of the SUBJECT
    (the child C, or the grand-child G) arbitrary.  A normal return means the subject satisfies every documented rule: nothing invalid
    is written at any depth of the forest (C06)."""

    def __init__(self, src, T, depth):
        self.src, self.T, self.depth = src, T, depth
        self.name = "productmd.composeinfo.Variants.serialize[%s arbitrary]" % ("child" if depth == 1 else "grand-child")
        self.key = "ser:composeinfo.Variants:validates:%d" % depth

    def setup(self, E):
        ci = E.instantiate(("composeinfo", "ComposeInfo"))
        top, tf = _variant(E, ci, "T", symbolic=("id", "uid"))
        E.assume(And(sym.in_lang(tf["id"], ID), eq(tf["uid"], tf["id"]), Not(eq(tf["arch"], ""))))
        chain = [(top, tf)]
        if self.depth == 2:
            mid, mf = _variant(E, ci, "C", symbolic=("id", "uid"), arches=ListSet([tf["arch"]]))
            mf["arch"] = tf["arch"]
            E.assume(And(sym.in_lang(mf["id"], ID), eq(mf["uid"], sym.concat(_s(tf["uid"]), "-", _s(mf["id"])))))
            mid.fields["parent"] = top
            top.fields["variants"].entries.append(Entry(mf["id"], True, mid))
            chain.append((mid, mf))
        sub, sf = _variant(E, ci, "X")
        parent, pf = chain[-1]
        sub.fields["parent"] = parent
        # registered under its id when that is a string (the container is keyed by strings), under a fixed key otherwise
        key = sf["id"] if E.decide(is_str(sf["id"])) else "X"
        parent.fields["variants"].entries.append(Entry(key, True, sub))
        ci.fields["variants"].fields["variants"].entries.append(Entry(tf["id"], True, top))
        return {"ci": ci, "sf": sf, "pf": pf, "tf": tf, "data": E.models.new_dict("payload")}

    def call(self, E, st):
        return E.call(E.getattr_(st["ci"].fields["variants"], "serialize"), [st["data"]])

    def post(self, E, st, out):
        if out.kind == "raise":
            return {"raises_only_TypeError_ValueError": out.exc_cls in (TypeError, ValueError)}
        return {"writes_only_valid_object": valid_variant(self.T, st["sf"], st["pf"])}

    def concretise(self, model, st):
        inp = dict((k, concretise.value_of(model, st["sf"][k])) for k in ("id", "uid", "name", "type", "arch"))
        inp["T.id"] = concretise.value_of(model, st["tf"]["id"])
        inp["T.arch"] = concretise.value_of(model, st["tf"]["arch"])
        inp["parent_uid"] = concretise.value_of(model, st["pf"]["uid"])
        return inp

    def sample_inputs(self, rng):
        import itertools
        for vid, uid, name, typ, arch in itertools.product(["A", "a-b", "", None, 3], ["P-A", "P-C-A", "A", None], ["n", "", None],
                                                           ["addon", "bogus", None], ["x86_64", "s390x"]):
            yield {"id": vid, "uid": uid, "name": name, "type": typ, "arch": arch, "T.id": "P", "T.arch": "x86_64",
                   "parent_uid": "P" if self.depth == 1 else "P-C"}

    def native_eval(self, inputs):
        CI = self.src.mods["composeinfo"]
        ci = CI.ComposeInfo()

        def mk(vid, uid, name, typ, arch, parent):
            v = CI.Variant(ci)
            v.id, v.uid, v.name, v.type, v.arches, v.parent = vid, uid, name, typ, set([arch]), parent
            return v
        top = mk(inputs["T.id"], inputs["T.id"], "N", "variant", inputs["T.arch"], None)
        parent = top
        if self.depth == 2:
            if not isinstance(inputs["parent_uid"], str) or not inputs["parent_uid"].startswith(inputs["T.id"] + "-"):
                return ("skip", None), None
            mid = mk(inputs["parent_uid"][len(inputs["T.id"]) + 1:], inputs["parent_uid"], "N", "variant", inputs["T.arch"], top)
            top.variants[mid.id] = mid
            parent = mid
        sub = mk(inputs["id"], inputs["uid"], inputs["name"], inputs["type"], inputs["arch"], parent)
        parent.variants[inputs["id"] if isinstance(inputs["id"], str) else "X"] = sub
        ci.variants.variants[top.id] = top
        try:
            top.validate()
            if self.depth == 2:
                pass
        except Exception:
            return ("skip", None), None
        nat = native_call(ci.variants.serialize, {})
        if nat[0] == "raise":
            return nat, {"raises_only_TypeError_ValueError": nat[1] in (TypeError, ValueError)}
        ok = True
        try:
            sub.validate()
        except Exception:
            ok = False
        return nat, {"writes_only_valid_object": ok}

    def describe(self, inputs):
        return "composeinfo forest with %s %r under parent %r written" % ("child" if self.depth == 1 else "grand-child", inputs, inputs["parent_uid"])


class GetVariants(Contract):
    """VariantBase.get_variants called on the top variant T of the chain T -> C -> G (ids, types, arches symbolic; T has arches {a1, a2},
    C and G {a1}) for an arch filter (None or a symbolic arch), a type filter (none, [X], ['self'], ['self', X] with X symbolic) and both
    values of `recursive`: nothing is returned twice, the result is ordered by UID, everything returned (other than the receiver
    requested as 'self') has the requested arch ('src' matches all) and one of the requested types, and without filters the result is
    every child (every descendant when recursive)."""
    name = "productmd.composeinfo.VariantBase.get_variants"
    key = "meth:composeinfo.VariantBase.get_variants"

    def __init__(self, src, T):
        self.src, self.T = src, T

    def setup(self, E):
        ci = E.instantiate(("composeinfo", "ComposeInfo"))
        a1 = SV(sym.Val.VStr(z3.Const("a1", sym.S)))
        a2 = SV(sym.Val.VStr(z3.Const("a2", sym.S)))
        E.assume(And(Not(eq(a1, a2)), Not(eq(a1, "src")), Not(eq(a2, "src")), Not(eq(a1, "")), Not(eq(a2, ""))))
        vs = []
        parent = None
        for tag, arches in (("T", [a1, a2]), ("C", [a1]), ("G", [a1])):
            v = E.instantiate(("composeinfo", "Variant"), [ci])
            vid = SV(sym.Val.VStr(z3.Const("%s.id" % tag, sym.S)))
            typ = SV(sym.Val.VStr(z3.Const("%s.type" % tag, sym.S)))
            E.assume(And(sym.in_lang(vid, ID), sym.isin(typ, [t for t in self.T.VARIANT_TYPES])))
            uid = vid if parent is None else sym.concat(parent[1]["uid"], "-", vid)
            v.fields.update({"id": vid, "uid": uid, "name": "n", "type": typ, "arches": ListSet(list(arches)),
                             "parent": parent[0] if parent else None})
            f = {"id": vid, "uid": uid, "type": typ, "arches": arches}
            if parent:
                parent[0].fields["variants"].entries.append(Entry(vid, True, v))
            vs.append((v, f))
            parent = (v, f)
        X = SV(sym.Val.VStr(z3.Const("filter.type", sym.S)))
        E.assume(sym.isin(X, [t for t in self.T.VARIANT_TYPES]))
        tmode = 0
        for i in (1, 2, 3):
            if E.decide(E.fresh("types_mode_%d" % i, z3.BoolSort())):
                tmode = i
                break
        types = {0: None, 1: [X], 2: ["self"], 3: ["self", X]}[tmode]
        arch = None
        if E.decide(E.fresh("arch_filter_given", z3.BoolSort())):
            arch = SV(sym.Val.VStr(z3.Const("filter.arch", sym.S)))
            E.assume(Not(eq(arch, "")))
        rec = E.decide(E.fresh("recursive", z3.BoolSort()))
        return {"vs": vs, "X": X, "tmode": tmode, "types": types, "arch": arch, "rec": bool(rec)}

    def call(self, E, st):
        return E.call(E.getattr_(st["vs"][0][0], "get_variants"), [], {"arch": st["arch"], "types": st["types"], "recursive": st["rec"]})

    def post(self, E, st, out):
        if out.kind == "raise":
            return {"query_does_not_fail": False}
        res = out.value
        if not isinstance(res, list) or not all(isinstance(x, Obj) for x in res):
            return {"query_does_not_fail": True, "no_variant_returned_twice": False}
        vs = st["vs"]
        objs = [v for v, _ in vs]
        fs = dict((id(v), f) for v, f in vs)
        uniq = all(res[i] is not res[j] for i in range(len(res)) for j in range(i + 1, len(res)))
        known = all(any(x is o for o in objs) for x in res)
        order = True
        for a, b in zip(res, res[1:]):
            le = E.models.struct_str_lt(sym.sstr(fs[id(b)]["uid"]), sym.sstr(fs[id(a)]["uid"])) if known else None
            order = And(order, (le is False) if le is not None else sym.as_bool(sym.sstr(fs[id(a)]["uid"]) <= sym.sstr(fs[id(b)]["uid"]))) if known else False
        types = st["types"] or []
        want_self = "self" in types
        real_types = [t for t in types if not (isinstance(t, str) and t == "self")]
        match = []
        for x in res:
            if not known:
                match.append(False)
                continue
            if x is objs[0]:
                match.append(want_self)
                continue
            f = fs[id(x)]
            arch_ok = True if st["arch"] is None else Or(eq(st["arch"], "src"), *[eq(st["arch"], a) for a in f["arches"]])
            type_ok = True if not types else (Or(*[eq(f["type"], t) for t in real_types]) if real_types else False)
            match.append(And(arch_ok, type_ok))
        cl = {"query_does_not_fail": True, "no_variant_returned_twice": uniq and known, "ordered_by_uid": order,
              "everything_returned_matches_the_filters": And(*match) if match else True}
        if st["arch"] is None and not types:
            exp = objs[1:] if st["rec"] else objs[1:2]
            cl["no_filter_returns_every_variant_of_the_level_or_forest"] = len(res) == len(exp) and all(any(x is e for x in res) for e in exp)
        return cl

    def concretise(self, model, st):
        inp = {"rec": st["rec"], "tmode": st["tmode"], "X": concretise.value_of(model, st["X"]),
               "arch": None if st["arch"] is None else concretise.value_of(model, st["arch"])}
        for (v, f), tag in zip(st["vs"], "TCG"):
            inp[tag] = {"id": concretise.value_of(model, f["id"]), "type": concretise.value_of(model, f["type"]),
                        "arches": [concretise.value_of(model, a) for a in f["arches"]]}
        return inp

    def sample_inputs(self, rng):
        import itertools
        for rec, tmode, arch, X in itertools.product([False, True], [0, 1, 2, 3], [None, "x86_64", "s390x", "src", "ppc64le"], ["variant", "addon", "optional"]):
            yield {"rec": rec, "tmode": tmode, "arch": arch, "X": X, "T": {"id": "Server", "type": "variant", "arches": ["x86_64", "s390x"]},
                   "C": {"id": "HA", "type": "addon", "arches": ["x86_64"]}, "G": {"id": "Debug", "type": "optional", "arches": ["x86_64"]}}

    def native_eval(self, inputs):
        CI = self.src.mods["composeinfo"]
        ci = CI.ComposeInfo()
        objs = []
        parent = None
        for tag in "TCG":
            f = inputs[tag]
            v = CI.Variant(ci)
            v.id, v.name, v.type, v.arches = f["id"], "n", f["type"], set(f["arches"])
            v.uid = f["id"] if parent is None else "%s-%s" % (parent.uid, f["id"])
            v.parent = parent
            if parent is not None:
                parent.variants[v.id] = v
            objs.append(v)
            parent = v
        X = inputs["X"]
        types = {0: None, 1: [X], 2: ["self"], 3: ["self", X]}[inputs["tmode"]]
        nat = native_call(objs[0].get_variants, arch=inputs["arch"], types=types, recursive=inputs["rec"])
        if nat[0] == "raise":
            return nat, {"query_does_not_fail": False}
        res = nat[1]
        types = types or []
        real = [t for t in types if t != "self"]

        def ok(x):
            if x is objs[0]:
                return "self" in types
            a = inputs["arch"] is None or inputs["arch"] == "src" or inputs["arch"] in x.arches
            t = (not types) or x.type in real
            return a and t
        cl = {"query_does_not_fail": True,
              "no_variant_returned_twice": len(set(id(x) for x in res)) == len(res) and all(any(x is o for o in objs) for x in res),
              "ordered_by_uid": [x.uid for x in res] == sorted(x.uid for x in res),
              "everything_returned_matches_the_filters": all(ok(x) for x in res)}
        if inputs["arch"] is None and not types:
            exp = objs[1:] if inputs["rec"] else objs[1:2]
            cl["no_filter_returns_every_variant_of_the_level_or_forest"] = len(res) == len(exp) and all(any(x is e for x in res) for e in exp)
        return nat, cl

    def describe(self, inputs):
        X = inputs["X"]
        types = {0: None, 1: [X], 2: ["self"], 3: ["self", X]}[inputs["tmode"]]
        return "T.get_variants(arch=%r, types=%r, recursive=%r) on the chain T=%r -> C=%r -> G=%r" % (
            inputs["arch"], types, inputs["rec"], inputs["T"], inputs["C"], inputs["G"])


def contracts(src, T):          # noqa: F811
    return [VariantAddAny(src, T, "Variants"), VariantAddAny(src, T, "Variant"), VariantsWriteAny(src, T),
            VariantAdd(src, T, "Variants", 0), VariantAdd(src, T, "Variants", 1), VariantAdd(src, T, "Variant", 0), VariantAdd(src, T, "Variant", 1),
            GetItem(src, T), ForestRoundTrip(src, T, False), ForestRoundTrip(src, T, True)] + \
        [VariantReaderValid(src, T, "record", k) for k in VARIANT_RECORD_FIELDS] + \
        [VariantReaderValid(src, T, "release", k) for k in LP_RELEASE_FIELDS] + \
        [ForestWriteValidates(src, T, 1), ForestWriteValidates(src, T, 2), GetVariants(src, T)]
