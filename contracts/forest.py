"""C11 contracts: composeinfo variant forest -- VariantBase.add (validation, cycle, duplicate id, refusal leaves the container
unchanged), __getitem__ (by id, by UID, by dashed path) on forests of depth <= 3 with symbolic ids."""
import copy

import z3

from pyvc import sym, concretise
from pyvc.sym import And, Or, Not, Implies, If, eq, SV, is_none, is_str, truthy
from pyvc.engine import SymDict, ExcVal, Obj, FuncRef, PyRaise, Entry
from pyvc.verify import Contract, Outcome, native_call
from pyvc.models import ListSet
from spec import fields as F
from .sections import _veq

ID = r"[a-zA-Z0-9]+"


def _variant(E, ci, tag, symbolic=("id", "uid", "name", "type"), arches=None):
    v = E.instantiate(("composeinfo", "Variant"), [ci])
    f = {}
    for a in ("id", "uid", "name", "type"):
        if a in symbolic:
            x = SV(z3.Const("%s.%s" % (tag, a), sym.Val))
            E.assume(concretise.wellformed(x))
        else:
            x = {"name": "N", "type": "variant"}.get(a)
        v.fields[a] = x
        f[a] = x
    if arches is None:
        a1 = SV(sym.Val.VStr(z3.Const("%s.arch" % tag, sym.S)))
        arches = ListSet([a1])
        f["arch"] = a1
    v.fields["arches"] = arches
    return v, f


def valid_variant(T, f, parent_f):
    """documented rules of a composeinfo variant (spec side): id pattern, uid alignment (dashed top-level rule), name, type, arches
    non-empty and within the parent's"""
    idok = sym.matches(F.VARIANT_ID, f["id"])
    name = And(is_str(f["name"]), truthy(f["name"]))
    typ = sym.isin(f["type"], T.VARIANT_TYPES)
    if parent_f is None:
        # top level: uid without dashes equals id
        uid = And(is_str(f["uid"]), _dashless_eq(f["uid"], f["id"]))
        par = True
    else:
        uid = And(is_str(f["uid"]), eq(f["uid"], sym.concat(_s(parent_f["uid"]), "-", _s(f["id"]))))
        par = eq(f["arch"], parent_f["arch"])         # single-arch sets: child arch must be the parent's
    return And(idok, uid, name, typ, par)


def _s(v):
    return SV(sym.Val.VStr(sym.Val.s(v.t))) if isinstance(v, SV) else v


def _dashless_eq(uid, vid):
    """uid.replace('-', '') == id, for id free of dashes: uid is id with dashes inserted"""
    if not isinstance(uid, SV):
        return uid.replace("-", "") == vid
    from pyvc.models import ReplaceAll
    return sym.as_bool(ReplaceAll(sym.sstr(uid), z3.StringVal("-"), z3.StringVal("")) == sym.sstr(vid))


class VariantAdd(Contract):
    """VariantBase.add on a container holding k children (k = 0, 1): accepted iff the new variant is valid (documented rules, with the
    parent link already set), is not an ancestor of the container and its id is not taken; then variants' == variants + {id: v} and, for a
    Variant container, v.parent is the container.  Every refusal (ValueError/TypeError) leaves the container's variants unchanged."""

    def __init__(self, src, T, container, k):
        self.src, self.T, self.container, self.k = src, T, container, k
        self.name = "productmd.composeinfo.%s.add[%d existing]" % (container, k)
        self.key = "meth:composeinfo.%s.add:%d" % (container, k)

    def setup(self, E):
        ci = E.instantiate(("composeinfo", "ComposeInfo"))
        if self.container == "Variants":
            cont = ci.fields["variants"]
            pf = None
        else:
            cont, pf = _variant(E, ci, "parent", symbolic=("id", "uid"))
            E.assume(sym.in_lang(pf["uid"], r"[A-Za-z0-9]+(-[A-Za-z0-9]+)*"))
        existing = []
        for i in range(self.k):
            ev, ef = _variant(E, ci, "old%d" % i, symbolic=("id", "uid"))
            E.assume(sym.in_lang(ef["id"], ID))
            if pf is not None:
                ev.fields["parent"] = cont
            cont.fields["variants"].entries.append(Entry(ef["id"], True, ev))
            existing.append((ev, ef))
        new, nf = _variant(E, ci, "new")
        return {"ci": ci, "cont": cont, "pf": pf, "existing": existing, "new": new, "nf": nf, "mark": len(E.path.effects)}

    def call(self, E, st):
        return E.call(E.getattr_(st["cont"], "add"), [st["new"]])

    def post(self, E, st, out):
        nf, pf = st["nf"], st["pf"]
        d = st["cont"].fields["variants"]
        writes = [w for w in E.path.effects[st["mark"]:] if w[0] == "dict_write" and w[1] is d]
        valid = valid_variant(self.T, nf, pf)
        taken = Or(*[eq(nf["id"], ef["id"]) for _, ef in st["existing"]]) if st["existing"] else False
        if out.kind == "raise":
            ents = [(e.key, e.value) for e in d.entries if e.present is True]
            same = len(ents) == len(st["existing"]) and all(v is ev for (k, v), (ev, ef) in zip(ents, st["existing"]))
            return {"refuses_with_ValueError_or_TypeError": out.exc_cls in (ValueError, TypeError),
                    "refuses_only_invalid_or_duplicate": Or(Not(valid), taken),
                    "refusal_leaves_container_unchanged": same}
        e = E.models.sd_lookup(d, nf["id"], create=False)
        ents = [(x.key, x.value) for x in d.entries if x.present is True]
        cl = {"accepts_only_valid_variant": valid, "accepts_only_unused_id": Not(taken),
              "variant_registered_under_its_id": e is not None and e.present is True and e.value is st["new"],
              "other_children_unchanged": len(ents) == len(st["existing"]) + 1 and all(any(v is ev for k, v in ents) for ev, ef in st["existing"])}
        if pf is not None:
            cl["parent_link_set"] = st["new"].fields.get("parent") is st["cont"]
        else:
            cl["top_level_has_no_parent"] = st["new"].fields.get("parent") is None
        return cl

    def concretise(self, model, st):
        return None

    def sample_inputs(self, rng):
        for vid, uid, name, typ, arch in [("A", "A", "n", "variant", "x86_64"), ("A", "P-A", "n", "addon", "x86_64"), ("A", "P-A", "n", "addon", "s390x"),
                                          ("A", "Q-A", "n", "addon", "x86_64"), ("a-b", "P-a-b", "n", "addon", "x86_64"), ("A", "P-A", "", "addon", "x86_64"),
                                          ("A", "P-A", "n", "bogus", "x86_64"), ("B", "P-B", "n", "optional", "x86_64"), ("A", None, "n", "addon", "x86_64"),
                                          ("A", "A", "n", "variant", "x86_64")]:
            for dup in (False, True):
                yield {"id": vid, "uid": uid, "name": name, "type": typ, "arch": arch, "dup": dup}

    def native_eval(self, inputs):
        CI = self.src.mods["composeinfo"]
        ci = CI.ComposeInfo()

        def mk(vid, uid, name, typ, arches):
            v = CI.Variant(ci)
            v.id, v.uid, v.name, v.type, v.arches = vid, uid, name, typ, set(arches)
            return v
        if self.container == "Variants":
            cont = ci.variants
            puid = None
        else:
            cont = mk("P", "P", "p", "variant", ["x86_64"])
            puid = "P"
        old = None
        if self.k or inputs["dup"]:
            oid = inputs["id"] if inputs["dup"] and isinstance(inputs["id"], str) else "Old"
            old = mk(oid, oid if puid is None else "%s-%s" % (puid, oid), "o", "variant", ["x86_64"])
            if puid is not None:
                old.parent = cont
            cont.variants[oid] = old
        before = dict(cont.variants)
        new = mk(inputs["id"], inputs["uid"], inputs["name"], inputs["type"], [inputs["arch"]])
        nat = native_call(cont.add, new)
        import re
        idok = isinstance(inputs["id"], str) and re.match(F.VARIANT_ID, inputs["id"]) is not None
        if puid is None:
            uidok = isinstance(inputs["uid"], str) and idok and inputs["uid"].replace("-", "") == inputs["id"]
            par = True
        else:
            uidok = isinstance(inputs["uid"], str) and idok and inputs["uid"] == "%s-%s" % (puid, inputs["id"])
            par = inputs["arch"] == "x86_64"
        valid = idok and uidok and bool(inputs["name"]) and inputs["type"] in self.T.VARIANT_TYPES and par
        taken = inputs["id"] in before
        if nat[0] == "raise":
            return nat, {"refuses_with_ValueError_or_TypeError": nat[1] in (ValueError, TypeError),
                         "refuses_only_invalid_or_duplicate": (not valid) or taken,
                         "refusal_leaves_container_unchanged": cont.variants == before and all(cont.variants[k] is before[k] for k in before)}
        exp = dict(before)
        exp[inputs["id"]] = new
        cl = {"accepts_only_valid_variant": valid, "accepts_only_unused_id": not taken,
              "variant_registered_under_its_id": cont.variants.get(inputs["id"]) is new,
              "other_children_unchanged": set(cont.variants) == set(exp) and all(cont.variants[k] is exp[k] for k in exp)}
        if puid is not None:
            cl["parent_link_set"] = new.parent is cont
        return nat, cl

    def describe(self, inputs):
        return "%s%s.add(Variant(id=%r, uid=%r, name=%r, type=%r, arches={%r}))" % (
            self.container, " P(x86_64)" if self.container == "Variant" else "", inputs["id"], inputs["uid"], inputs["name"], inputs["type"], inputs["arch"]) + \
            (" with that id already present" if inputs["dup"] else "")


class GetItem(Contract):
    """ComposeInfo[uid] / Variant[id] on a well-formed forest top -> child -> grandchild with symbolic ids: every variant is found from the
    top by its UID and from its parent by its id."""
    name = "productmd.composeinfo.VariantBase.__getitem__"
    key = "meth:composeinfo.VariantBase.__getitem__"

    def __init__(self, src, T, exclude_known=False):
        self.src, self.T, self.exclude_known = src, T, exclude_known

    def setup(self, E):
        ci = E.instantiate(("composeinfo", "ComposeInfo"))
        ids = [SV(sym.Val.VStr(z3.Const("id%d" % i, sym.S))) for i in range(3)]
        for i in ids:
            E.assume(sym.in_lang(i, ID))
        if self.exclude_known:
            # complement of the known finding's witness class (known_findings.json): three nested variants sharing one id
            E.assume(Not(And(eq(ids[0], ids[1]), eq(ids[1], ids[2]))))
        other = SV(sym.Val.VStr(z3.Const("id.other", sym.S)))
        E.assume(And(sym.in_lang(other, ID), Not(eq(other, ids[0]))))
        vs = []
        parent = None
        cont = ci.fields["variants"]
        uid = None
        for i, vid in enumerate(ids):
            v = E.instantiate(("composeinfo", "Variant"), [ci])
            uid = vid if uid is None else sym.concat(uid, "-", vid)
            v.fields.update({"id": vid, "uid": uid, "name": "n", "type": "variant", "parent": parent})
            cont.fields["variants"].entries.append(Entry(vid, True, v))
            vs.append(v)
            parent, cont = v, v
        # a second top-level variant
        o = E.instantiate(("composeinfo", "Variant"), [ci])
        o.fields.update({"id": other, "uid": other, "name": "n", "type": "variant", "parent": None})
        ci.fields["variants"].fields["variants"].entries.append(Entry(other, True, o))
        return {"ci": ci, "vs": vs, "other": o}

    def call(self, E, st):
        ci, vs = st["ci"], st["vs"]
        get = lambda o, k: E.models.getitem(o, k)
        return [get(ci, vs[0].fields["uid"]), get(ci, vs[1].fields["uid"]), get(ci, vs[2].fields["uid"]),
                get(vs[0], vs[1].fields["id"]), get(vs[1], vs[2].fields["id"]), get(ci, st["other"].fields["uid"])]

    def post(self, E, st, out):
        if out.kind == "raise":
            return {"every_variant_is_findable": False}
        r, vs = out.value, st["vs"]
        return {"every_variant_is_findable": True,
                "found_from_top_by_uid": r[0] is vs[0] and r[1] is vs[1] and r[2] is vs[2] and r[5] is st["other"],
                "found_from_parent_by_id": r[3] is vs[1] and r[4] is vs[2]}

    def concretise(self, model, st):
        return None

    def native_eval(self, inputs):
        raise NotImplementedError


def contracts(src, T):
    return [VariantAdd(src, T, "Variants", 0), VariantAdd(src, T, "Variants", 1), VariantAdd(src, T, "Variant", 0), VariantAdd(src, T, "Variant", 1),
            GetItem(src, T)]
