"""C08 contracts: writers produce sorted lists whatever the iteration order of the sets/dicts they read (collections of two
symbolic elements, every iteration order explored as nondeterminism): bounded in SIZE (2), unbounded in the values."""
import z3

from pyvc import sym, concretise, effects
from pyvc.sym import And, Or, Not, Implies, If, eq, SV, is_str
from pyvc.engine import SymDict, ExcVal, Obj, PyRaise, Entry
from pyvc.verify import Contract, native_call, Outcome
from pyvc.models import ListSet
from .sections import _veq


def _lt(a, b):
    return sym.as_bool(sym.sstr(a) < sym.sstr(b))


def _sorted_pair(lst, a, b):
    """lst == sorted([a, b]) for distinct strings a, b"""
    if not isinstance(lst, list) or len(lst) != 2:
        return False
    return And(Implies(_lt(a, b), And(_veq(lst[0], a), _veq(lst[1], b))), Implies(Not(_lt(a, b)), And(_veq(lst[0], b), _veq(lst[1], a))))


class CanonComposeVariant(Contract):
    """composeinfo Variant.serialize: 'arches' is the sorted arch list and 'variants' the sorted child-id list, for a variant with two
    arches (set iteration order arbitrary) and two children registered in either order; paths are written per sorted arch."""
    name = "productmd.composeinfo.Variant.serialize[canonical lists]"
    key = "canon:composeinfo.Variant"

    def __init__(self, src, T):
        self.src, self.T = src, T

    def setup(self, E):
        ci = E.instantiate(("composeinfo", "ComposeInfo"))
        a = SV(sym.Val.VStr(z3.Const("arch.a", sym.S)))
        b = SV(sym.Val.VStr(z3.Const("arch.b", sym.S)))
        E.assume(Not(eq(a, b)))
        top = E.instantiate(("composeinfo", "Variant"), [ci])
        top.fields.update({"id": "T", "uid": "T", "name": "n", "type": "variant", "arches": ListSet([a, b])})
        pa = SV(sym.Val.VStr(z3.Const("path.a", sym.S)))
        pb = SV(sym.Val.VStr(z3.Const("path.b", sym.S)))
        E.assume(And(Not(eq(pa, "")), Not(eq(pb, ""))))
        d = E.models.new_dict("os_tree")
        # insertion order of the path table is either way round
        order = E.decide(E.fresh("paths_inserted_b_first", z3.BoolSort()))
        for k, v in ([(b, pb), (a, pa)] if order else [(a, pa), (b, pb)]):
            d.entries.append(Entry(k, True, v))
        top.fields["paths"].fields["os_tree"] = d
        kids = []
        for cid in ("Bb", "Aa"):
            c = E.instantiate(("composeinfo", "Variant"), [ci])
            c.fields.update({"id": cid, "uid": "T-" + cid, "name": "n", "type": "addon", "arches": ListSet([a]), "parent": top})
            kids.append(c)
        if E.decide(E.fresh("children_inserted_reversed", z3.BoolSort())):
            kids.reverse()
        for c in kids:
            top.fields["variants"].entries.append(Entry(c.fields["id"], True, c))
        return {"top": top, "a": a, "b": b, "pa": pa, "pb": pb, "data": E.models.new_dict("data")}

    def call(self, E, st):
        return E.call(E.getattr_(st["top"], "serialize"), [st["data"]])

    def post(self, E, st, out):
        if out.kind == "raise":
            return {"valid_variant_is_written": False}
        e = E.models.sd_lookup(st["data"], "T", create=False)
        d = dict((x.key, x.value) for x in e.value.entries if x.present is True) if e is not None and isinstance(e.value, SymDict) else {}
        paths = d.get("paths")
        ost = None
        if isinstance(paths, SymDict):
            pe = E.models.sd_lookup(paths, "os_tree", create=False)
            ost = pe.value if pe is not None else None
        pa_ok = False
        if isinstance(ost, SymDict):
            ea = E.models.sd_lookup(ost, st["a"], create=False)
            eb = E.models.sd_lookup(ost, st["b"], create=False)
            pa_ok = And(_veq(ea.value, st["pa"]), _veq(eb.value, st["pb"])) if ea is not None and eb is not None else False
        keys = sorted(k for k in [x.key for x in st["data"].entries if x.present is True] if isinstance(k, str))
        return {"valid_variant_is_written": True, "arches_sorted": _sorted_pair(d.get("arches"), st["a"], st["b"]),
                "child_ids_sorted": d.get("variants") == ["Aa", "Bb"],
                "paths_of_every_arch_written": pa_ok,
                "children_serialised_too": keys == ["T", "T-Aa", "T-Bb"]}

    def concretise(self, model, st):
        return None

    def native_eval(self, inputs):
        raise NotImplementedError


class CanonImagesCell(Contract):
    """Images.serialize: the images of a (variant, arch) cell are written sorted by path, for a cell of two images with distinct
    symbolic paths in either set iteration order; no cell is lost or invented."""
    name = "productmd.images.Images.serialize[cell sorted by path]"
    key = "canon:images.Images"

    def __init__(self, src, T):
        self.src, self.T = src, T

    def setup(self, E):
        from .sections import _sv_fields, SECTIONS
        from spec import fields as F
        m = E.instantiate(("images", "Images"))
        _sv_fields(E, m.fields["compose"], SECTIONS["composeinfo.Compose"].fields, "c")
        E.assume(F.valid_compose(self.T, m.fields["compose"]))
        ims = []
        for tag in ("p", "q"):
            im = E.instantiate(("images", "Image"), [m])
            f = _sv_fields(E, im, SECTIONS["images.Image"].fields, tag)
            E.assume(F.valid_image(self.T, im))
            ims.append((im, f))
        E.assume(Not(eq(ims[0][1]["path"], ims[1][1]["path"])))
        v = SV(sym.Val.VStr(z3.Const("cell.variant", sym.S)))
        a = SV(sym.Val.VStr(z3.Const("cell.arch", sym.S)))
        images = E.models.new_dict("images")
        arches = E.models.new_dict("arches")
        arches.entries.append(Entry(a, True, set([ims[0][0], ims[1][0]])))
        images.entries.append(Entry(v, True, arches))
        m.fields["images"] = images
        return {"m": m, "ims": ims, "v": v, "a": a, "data": E.models.new_dict("data")}

    def call(self, E, st):
        return E.call(E.getattr_(st["m"], "serialize"), [st["data"]])

    def post(self, E, st, out):
        if out.kind == "raise":
            return {"valid_manifest_is_written": False}
        pay = E.models.sd_lookup(st["data"], "payload", create=False)
        imgs = E.models.sd_lookup(pay.value, "images", create=False).value if pay is not None else None
        cells = [(x.key, x.value) for x in imgs.entries if x.present is True] if isinstance(imgs, SymDict) else []
        ok_shape = len(cells) == 1 and cells[0][0] is st["v"] or (len(cells) == 1 and _veq(cells[0][0], st["v"]) is True)
        lst = None
        if len(cells) == 1 and isinstance(cells[0][1], SymDict):
            ar = [(x.key, x.value) for x in cells[0][1].entries if x.present is True]
            if len(ar) == 1:
                lst = ar[0][1]
        p, q = st["ims"][0][1]["path"], st["ims"][1][1]["path"]
        got = None
        if isinstance(lst, list) and len(lst) == 2 and all(isinstance(x, SymDict) for x in lst):
            got = [dict((e.key, e.value) for e in x.entries if e.present is True).get("path") for x in lst]
        return {"valid_manifest_is_written": True, "one_cell_written_for_the_one_cell": len(cells) == 1,
                "cell_sorted_by_path": _sorted_pair(got, p, q) if got is not None else False}

    def concretise(self, model, st):
        return None

    # native side: paths that are distinct as strings but tie (or swap) under every "smarter" ordering one may substitute for the plain
    # string comparison -- zero padding, letter case, numeric runs, trailing separators
    def sample_inputs(self, rng):
        for pq in (("a-disc1.iso", "a-disc01.iso"), ("A.iso", "a.iso"), ("x/10.iso", "x/9.iso"), ("d/disc2.iso", "d/disc10.iso"),
                   ("a.iso", "a.iso/"), ("a b.iso", "a  b.iso"), ("b.iso", "a.iso"), ("a/001", "a/1"), ("i-1.0.iso", "i-1.00.iso")):
            yield {"paths": list(pq)}

    def native_eval(self, inputs):
        mod = self.src.mods["images"]
        outs = set()
        nat = None
        for attempt in range(24):
            m = mod.Images()
            m.compose.id, m.compose.type, m.compose.date, m.compose.respin = "F-21-20141201.0", "production", "20141201", 0
            ims = []
            keep = [object() for _ in range(attempt % 5)]       # shifts allocation addresses, i.e. the set's iteration order
            order = list(inputs["paths"]) if attempt % 2 == 0 else list(reversed(inputs["paths"]))
            for k, pth in enumerate(order):
                im = mod.Image(m)
                for a, v in {"path": pth, "mtime": 1, "size": 2, "volume_id": None, "type": "dvd", "format": "iso", "arch": "x86_64",
                             "disc_number": 1 + inputs["paths"].index(pth), "disc_count": 2, "checksums": {"sha256": "a" * 64},
                             "implant_md5": None, "bootable": False, "subvariant": "S", "unified": False, "additional_variants": []}.items():
                    setattr(im, a, v)
                ims.append(im)
            m.images = {"Server": {"x86_64": set(ims)}}
            data = {}
            nat = native_call(m.serialize, data)
            del keep
            if nat[0] == "raise":
                return nat, {"valid_manifest_is_written": False}
            cell = data["payload"]["images"].get("Server", {}).get("x86_64")
            outs.add(tuple(r["path"] for r in cell) if isinstance(cell, list) else None)
        return nat, {"valid_manifest_is_written": True, "one_cell_written_for_the_one_cell": None not in outs,
                     "cell_sorted_by_path": outs == set([tuple(sorted(inputs["paths"]))])}

    def describe(self, inputs):
        return "Images cell holding two images with paths %r and %r, built 24 times in varying construction order" % tuple(inputs["paths"])


class CanonTreeVariant(Contract):
    """treeinfo Variant.serialize: 'addons' lists the child UIDs sorted, for two children registered in either order."""
    name = "productmd.treeinfo.Variant.serialize[addons sorted]"
    key = "canon:treeinfo.Variant"

    def __init__(self, src, T):
        self.src, self.T = src, T

    def setup(self, E):
        from .tisections import _new_parser
        ti = E.instantiate(("treeinfo", "TreeInfo"))
        top = E.instantiate(("treeinfo", "Variant"), [ti])
        top.fields.update({"id": "T", "uid": "T", "name": "n", "type": "variant"})
        x = SV(sym.Val.VStr(z3.Const("child.x", sym.S)))
        y = SV(sym.Val.VStr(z3.Const("child.y", sym.S)))
        E.assume(And(sym.in_lang(x, r"[A-Za-z0-9]+"), sym.in_lang(y, r"[A-Za-z0-9]+"), Not(eq(x, y))))
        for cid in (x, y):
            c = E.instantiate(("treeinfo", "Variant"), [ti])
            c.fields.update({"id": cid, "uid": sym.concat("T-", cid), "name": "n", "type": "addon", "parent": top})
            top.fields["variants"].entries.append(Entry(cid, True, c))
        return {"top": top, "x": x, "y": y, "parser": _new_parser(E)}

    def call(self, E, st):
        return E.call(E.getattr_(st["top"], "serialize"), [st["parser"]])

    def post(self, E, st, out):
        from .tisections import _section
        if out.kind == "raise":
            return {"valid_variant_is_written": False}
        sec = _section(E, st["parser"], "variant-T")
        e = E.models.sd_lookup(sec, "addons", create=False) if sec is not None else None
        ux, uy = sym.concat("T-", st["x"]), sym.concat("T-", st["y"])
        lt = _lt(ux, uy)
        return {"valid_variant_is_written": True,
                "addons_sorted": And(Implies(lt, _veq(e.value, sym.concat(ux, ",", uy))), Implies(Not(lt), _veq(e.value, sym.concat(uy, ",", ux))))
                if e is not None and e.present is True else False}

    def concretise(self, model, st):
        return None

    def native_eval(self, inputs):
        raise NotImplementedError


def contracts(src, T):
    return [CanonComposeVariant(src, T), CanonImagesCell(src, T), CanonTreeVariant(src, T)]
