"""Sidecar contracts (keyed by the qualified name of the real function; /repo is never annotated)."""
_cache = {}


def all_contracts(src):
    k = id(src)
    if k in _cache:
        return _cache[k]
    from spec import fields as F
    from . import validators, strings, composeid, sections, manifests, io, tisections, checksums, imagesadd, composedir, forest, gates, canon, containers, discinfo
    T = F.Tables(src.mods or src.import_native())
    reg = {}
    for c in validators.flat_contracts(src, T) + strings.contracts(src, T) + composeid.contracts(src, T) + sections.contracts(src, T) + manifests.contracts(src, T) + io.contracts(src, T) + tisections.contracts(src, T) + checksums.contracts(src, T) + imagesadd.contracts(src, T) + composedir.contracts(src, T) + forest.contracts(src, T) + gates.contracts(src, T) + canon.contracts(src, T) + containers.contracts(src, T) + discinfo.contracts(src, T):
        if c.key:
            reg[c.key] = c
    _cache[k] = reg
    return reg


def get(key, src):
    return all_contracts(src)[key]


def all_summaries(src):
    """summaries = proved contracts used modularly at call sites (each is justified by the obligations of its contract)"""
    from spec import fields as F
    from . import composeid, strings, manifests
    T = F.Tables(src.mods or src.import_native())
    out = {}
    out.update(composeid.summaries(src, T))
    out.update(strings.summaries(src, T))
    out.update(manifests.summaries(src, T))
    return out
