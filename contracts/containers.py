"""F-valid for the container-shaped classes (C06/C07/C11/C16): validators that look at collections or at other objects.
Collections hold a stated small number of symbolic elements (bounded in NUMBER, unbounded in values)."""
import copy

import z3

from pyvc import sym, concretise
from pyvc.sym import And, Or, Not, Implies, If, eq, SV, is_none, is_str, truthy
from pyvc.engine import SymDict, ExcVal, Obj, PyRaise, Entry
from pyvc.verify import Contract, Outcome, native_call
from pyvc.models import ListSet
from spec import fields as F
from .sections import _veq
from .forest import _variant, valid_variant


class ValidateBase(Contract):
    def clauses(self, valid, out, unchanged=True):
        if out.kind == "return":
            return {"returns_only_if_valid": valid, "frame": unchanged}
        return {"raises_only_if_invalid": Not(valid), "raises_only_TypeError_ValueError": out.exc_cls in (TypeError, ValueError),
                "frame": unchanged}

    def concretise(self, model, st):
        return None

    def native_eval(self, inputs):
        raise NotImplementedError


class ComposeVariantValid(ValidateBase):
    """composeinfo Variant.validate() with and without a parent: id pattern, UID alignment (dash-less top-level rule / parent uid-id),
    non-blank name, known type, non-empty arches, arches within the parent's (single-arch sets), children keyed by their ids."""

    def __init__(self, src, T, with_parent):
        self.src, self.T, self.wp = src, T, with_parent
        self.name = "productmd.composeinfo.Variant.validate[%s]" % ("child" if with_parent else "top level")
        self.key = "valid:composeinfo.Variant:%d" % int(with_parent)

    def setup(self, E):
        ci = E.instantiate(("composeinfo", "ComposeInfo"))
        pf = None
        v, f = _variant(E, ci, "x")
        if self.wp:
            parent, pf = _variant(E, ci, "parent", symbolic=("id", "uid"))
            E.assume(sym.in_lang(pf["uid"], r"[A-Za-z0-9]+(-[A-Za-z0-9]+)*"))
            v.fields["parent"] = parent
            parent.fields["variants"].entries.append(Entry(f["id"], True, v))
        # arches may also be empty
        if E.decide(E.fresh("arches_empty", z3.BoolSort())):
            v.fields["arches"] = ListSet([])
            f["empty"] = True
        return {"v": v, "f": f, "pf": pf, "before": dict(v.fields)}

    def call(self, E, st):
        return E.call(E.getattr_(st["v"], "validate"), [])

    def post(self, E, st, out):
        f = st["f"]
        valid = And(valid_variant(self.T, f, st["pf"]), not f.get("empty", False))
        unchanged = all(st["v"].fields.get(k) is x for k, x in st["before"].items())
        return self.clauses(valid, out, unchanged)

    def concretise(self, model, st):
        f = st["f"]
        inp = dict((k, concretise.value_of(model, f[k])) for k in ("id", "uid", "name", "type"))
        inp["arches"] = [] if f.get("empty") else [concretise.value_of(model, f["arch"])]
        if st["pf"] is not None:
            inp["parent_uid"] = concretise.value_of(model, st["pf"]["uid"])
            inp["parent_arch"] = concretise.value_of(model, st["pf"]["arch"])
        return inp

    def sample_inputs(self, rng):
        import itertools
        for vid, uid, name, typ, arches in itertools.product(["A", "a-b", "", None], ["A", "P-A", "A-", "Q-A", None], ["n", "", None],
                                                             ["variant", "bogus"], [["x86_64"], ["s390x"], []]):
            yield {"id": vid, "uid": uid, "name": name, "type": typ, "arches": arches, "parent_uid": "P", "parent_arch": "x86_64"}

    def native_eval(self, inputs):
        import re
        CI = self.src.mods["composeinfo"]
        ci = CI.ComposeInfo()
        v = CI.Variant(ci)
        v.id, v.uid, v.name, v.type, v.arches = inputs["id"], inputs["uid"], inputs["name"], inputs["type"], set(inputs["arches"])
        puid = None
        if self.wp:
            p = CI.Variant(ci)
            puid = inputs["parent_uid"]
            p.id, p.uid, p.name, p.type, p.arches = "P", puid, "p", "variant", set([inputs["parent_arch"]])
            v.parent = p
            p.variants[inputs["id"] if isinstance(inputs["id"], str) else "X"] = v
        nat = native_call(v.validate)
        idok = isinstance(inputs["id"], str) and re.match(F.VARIANT_ID, inputs["id"]) is not None
        if puid is None:
            uidok = isinstance(inputs["uid"], str) and idok and inputs["uid"].replace("-", "") == inputs["id"]
            par = True
        else:
            uidok = isinstance(inputs["uid"], str) and idok and inputs["uid"] == "%s-%s" % (puid, inputs["id"])
            par = set(inputs["arches"]) <= set([inputs["parent_arch"]])
        valid = bool(idok and uidok and isinstance(inputs["name"], str) and inputs["name"] and inputs["type"] in self.T.VARIANT_TYPES and
                     par and inputs["arches"])
        if nat[0] == "return":
            return nat, {"returns_only_if_valid": valid}
        return nat, {"raises_only_if_invalid": not valid, "raises_only_TypeError_ValueError": nat[1] in (TypeError, ValueError)}

    def describe(self, inputs):
        return "composeinfo Variant(%s)%s.validate()" % (", ".join("%s=%r" % (k, inputs[k]) for k in ("id", "uid", "name", "type", "arches")),
                                                         (" under parent %r with arches {%r}" % (inputs["parent_uid"], inputs["parent_arch"])) if self.wp else "")


class TreeImagesValid(ValidateBase):
    """treeinfo Images.validate(): every image path relative, every platform with images referenced in tree.platforms
    (one platform with two images; platform set {p} or {})."""
    name = "productmd.treeinfo.Images.validate"
    key = "valid:treeinfo.Images"

    def __init__(self, src, T):
        self.src, self.T = src, T

    def setup(self, E):
        ti = E.instantiate(("treeinfo", "TreeInfo"))
        pl = SV(sym.Val.VStr(z3.Const("img.platform", sym.S)))
        tp = SV(sym.Val.VStr(z3.Const("tree.platform", sym.S)))
        ti.fields["tree"].fields["platforms"] = ListSet([tp])
        paths = [SV(sym.Val.VStr(z3.Const("img.path%d" % i, sym.S))) for i in range(2)]
        tbl = E.models.new_dict("images[p]")
        tbl.entries.append(Entry("kernel", True, paths[0]))
        tbl.entries.append(Entry("initrd", True, paths[1]))
        d = E.models.new_dict("images")
        d.entries.append(Entry(pl, True, tbl))
        ti.fields["images"].fields["images"] = d
        return {"o": ti.fields["images"], "pl": pl, "tp": tp, "paths": paths}

    def call(self, E, st):
        return E.call(E.getattr_(st["o"], "validate"), [])

    def post(self, E, st, out):
        valid = And(eq(st["pl"], st["tp"]), *[Not(sym.startswith(p, "/")) for p in st["paths"]])
        return self.clauses(valid, out)

    def concretise(self, model, st):
        return {"platform": concretise.value_of(model, st["pl"]), "tree_platform": concretise.value_of(model, st["tp"]),
                "paths": [concretise.value_of(model, p) for p in st["paths"]]}

    def sample_inputs(self, rng):
        for pl, tp in (("x86_64", "x86_64"), ("xen", "x86_64")):
            for paths in (["a", "b"], ["/a", "b"], ["a", "/b"]):
                yield {"platform": pl, "tree_platform": tp, "paths": paths}

    def native_eval(self, inputs):
        ti = self.src.mods["treeinfo"].TreeInfo()
        ti.tree.platforms = set([inputs["tree_platform"]])
        ti.images.images = {inputs["platform"]: {"kernel": inputs["paths"][0], "initrd": inputs["paths"][1]}}
        nat = native_call(ti.images.validate)
        valid = inputs["platform"] == inputs["tree_platform"] and not any(p.startswith("/") for p in inputs["paths"])
        if nat[0] == "return":
            return nat, {"returns_only_if_valid": valid}
        return nat, {"raises_only_if_invalid": not valid, "raises_only_TypeError_ValueError": nat[1] in (TypeError, ValueError)}

    def describe(self, inputs):
        return "treeinfo Images({%r: {kernel: %r, initrd: %r}}) with tree.platforms {%r}" % (inputs["platform"], inputs["paths"][0],
                                                                                           inputs["paths"][1], inputs["tree_platform"])


class TreeChecksumsValid(ValidateBase):
    """treeinfo Checksums.validate(): every checksum path is relative (two entries)."""
    name = "productmd.treeinfo.Checksums.validate"
    key = "valid:treeinfo.Checksums"

    def __init__(self, src, T):
        self.src, self.T = src, T

    def setup(self, E):
        ti = E.instantiate(("treeinfo", "TreeInfo"))
        ps = [SV(sym.Val.VStr(z3.Const("ck.path%d" % i, sym.S))) for i in range(2)]
        E.assume(Not(eq(ps[0], ps[1])))
        d = E.models.new_dict("checksums")
        for p in ps:
            d.entries.append(Entry(p, True, ("sha256", "0" * 64)))
        ti.fields["checksums"].fields["checksums"] = d
        return {"o": ti.fields["checksums"], "ps": ps}

    def call(self, E, st):
        return E.call(E.getattr_(st["o"], "validate"), [])

    def post(self, E, st, out):
        return self.clauses(And(*[Not(sym.startswith(p, "/")) for p in st["ps"]]), out)

    def concretise(self, model, st):
        return {"paths": [concretise.value_of(model, p) for p in st["ps"]]}

    def sample_inputs(self, rng):
        for paths in (["a", "b"], ["/a", "b"], ["a", "/b"]):
            yield {"paths": paths}

    def native_eval(self, inputs):
        ti = self.src.mods["treeinfo"].TreeInfo()
        for p in inputs["paths"]:
            ti.checksums.checksums[p] = ("sha256", "0" * 64)
        nat = native_call(ti.checksums.validate)
        valid = not any(p.startswith("/") for p in inputs["paths"])
        if nat[0] == "return":
            return nat, {"returns_only_if_valid": valid}
        return nat, {"raises_only_if_invalid": not valid, "raises_only_TypeError_ValueError": nat[1] in (TypeError, ValueError)}

    def describe(self, inputs):
        return "treeinfo Checksums(paths %r).validate()" % (inputs["paths"],)


class TreeVariantValid(ValidateBase):
    """treeinfo Variant.validate(): id is a str without '-', uid aligned with the parent's (child) , type in the table."""

    def __init__(self, src, T, with_parent):
        self.src, self.T, self.wp = src, T, with_parent
        self.name = "productmd.treeinfo.Variant.validate[%s]" % ("child" if with_parent else "top level")
        self.key = "valid:treeinfo.Variant:%d" % int(with_parent)

    def setup(self, E):
        ti = E.instantiate(("treeinfo", "TreeInfo"))
        v = E.instantiate(("treeinfo", "Variant"), [ti])
        f = {}
        for a in ("id", "uid", "type"):
            x = SV(z3.Const("x.%s" % a, sym.Val))
            E.assume(concretise.wellformed(x))
            v.fields[a] = x
            f[a] = x
        v.fields["name"] = "n"
        E.assume(is_str(f["uid"]))
        puid = None
        if self.wp:
            parent = E.instantiate(("treeinfo", "Variant"), [ti])
            puid = SV(sym.Val.VStr(z3.Const("parent.uid", sym.S)))
            parent.fields.update({"id": "P", "uid": puid, "name": "p", "type": "variant"})
            v.fields["parent"] = parent
        return {"v": v, "f": f, "puid": puid}

    def call(self, E, st):
        return E.call(E.getattr_(st["v"], "validate"), [])

    def post(self, E, st, out):
        f = st["f"]
        idok = And(is_str(f["id"]), Not(sym.contains(f["id"], "-")))
        typ = sym.isin(f["type"], self.T.TREE_VARIANT_TYPES)
        if st["puid"] is not None:
            ids = SV(sym.Val.VStr(sym.Val.s(f["id"].t)))
            uid = Implies(is_str(f["id"]), eq(f["uid"], sym.concat(st["puid"], "-", ids)))
        else:
            uid = True
        return self.clauses(And(idok, uid, typ), out)

    def concretise(self, model, st):
        inp = dict((k, concretise.value_of(model, st["f"][k])) for k in ("id", "uid", "type"))
        if st["puid"] is not None:
            inp["parent_uid"] = concretise.value_of(model, st["puid"])
        return inp

    def sample_inputs(self, rng):
        import itertools
        for vid, uid, typ in itertools.product(["A", "a-b", "-a", None, 5], ["A", "P-A", "Q-A"], ["variant", "addon", "bogus"]):
            yield {"id": vid, "uid": uid, "type": typ, "parent_uid": "P"}

    def native_eval(self, inputs):
        TI = self.src.mods["treeinfo"]
        ti = TI.TreeInfo()
        v = TI.Variant(ti)
        v.id, v.uid, v.name, v.type = inputs["id"], inputs["uid"], "n", inputs["type"]
        if self.wp:
            p = TI.Variant(ti)
            p.id, p.uid, p.name, p.type = "P", inputs["parent_uid"], "p", "variant"
            v.parent = p
        nat = native_call(v.validate)
        idok = isinstance(inputs["id"], str) and "-" not in inputs["id"]
        uid = (not self.wp) or (not isinstance(inputs["id"], str)) or inputs["uid"] == "%s-%s" % (inputs["parent_uid"], inputs["id"])
        valid = idok and uid and inputs["type"] in self.T.TREE_VARIANT_TYPES
        if nat[0] == "return":
            return nat, {"returns_only_if_valid": valid}
        return nat, {"raises_only_if_invalid": not valid, "raises_only_TypeError_ValueError": nat[1] in (TypeError, ValueError)}

    def describe(self, inputs):
        return "treeinfo Variant(id=%r, uid=%r, type=%r)%s.validate()" % (inputs["id"], inputs["uid"], inputs["type"],
                                                                       (" under parent %r" % inputs["parent_uid"]) if self.wp else "")



class ScanValidatorAny(Contract):
    """validators that SCAN a table of unbounded size (pyvc/anycoll.py, witness rule): treeinfo Images._validate_image_paths over
    {platform: {image: path}}, Images._validate_platforms over the platform keys against [tree] platforms, Checksums._validate_checksum_paths
    over {path: checksum} -- any number of platforms / images / checksum entries, every iteration order.  Return means EVERY entry satisfies
    the rule (stated over the arbitrary witness entry), refusal is a ValueError at SOME offending entry, nothing is changed."""
    SPECS = {
        "image_paths": (("treeinfo", "Images"), "_validate_image_paths", "images", 2),
        "platforms": (("treeinfo", "Images"), "_validate_platforms", "images", 1),
        "checksum_paths": (("treeinfo", "Checksums"), "_validate_checksum_paths", "checksums", 1),
        # composeinfo: every arch of a child variant is an arch of its parent (sets of arbitrary size)
        "parent_arch": (("composeinfo", "Variant"), "_validate_parent_arch", "arches", 1),
    }

    def __init__(self, src, T, which):
        self.src, self.T, self.which = src, T, which
        cls, meth, attr, depth = self.SPECS[which]
        self.name = "productmd.%s.%s.%s[table of arbitrary size]" % (cls[0], cls[1], meth)
        self.key = "scan:%s.%s.%s" % (cls[0], cls[1], meth)

    def setup(self, E):
        from pyvc.anycoll import AnyDict, AnySet
        cls, meth, attr, depth = self.SPECS[self.which]
        if self.which == "parent_arch":
            ci = E.instantiate(("composeinfo", "ComposeInfo"))
            parent = E.instantiate(("composeinfo", "Variant"), [ci])
            o = E.instantiate(("composeinfo", "Variant"), [ci])
            o.fields["parent"] = parent
            listed = AnySet("parent.arches", None)
            parent.fields["arches"] = listed
            table = AnySet("arches", lambda E_, tag: SV(sym.Val.VStr(E_.fresh("arch.%s" % tag, sym.S))))
            o.fields["arches"] = table
            return {"o": o, "table": table, "mark": len(E.path.effects), "listed": listed}
        ti = E.instantiate(("treeinfo", "TreeInfo"))
        o = ti.fields["images"] if cls[1] == "Images" else ti.fields["checksums"]

        def text(E_, key, tag):
            return SV(sym.Val.VStr(E_.fresh("value.%s" % tag, sym.S)))
        if depth == 2:
            table = AnyDict("table", lambda E_, key, tag: AnyDict("inner", text))
        else:
            table = AnyDict("table", text)
        o.fields[attr] = table
        st = {"o": o, "table": table, "mark": len(E.path.effects), "ti": ti}
        if self.which == "platforms":
            listed = AnySet("tree.platforms", None)
            ti.fields["tree"].fields["platforms"] = listed
            st["listed"] = listed
        return st

    def call(self, E, st):
        return E.call(E.getattr_(st["o"], self.SPECS[self.which][1]), [])

    def post(self, E, st, out):
        from pyvc.anycoll import AnyDict, AnySet, AnyItems
        wit = getattr(E.path, "witnesses", [])
        writes = [w for w in E.path.effects[st["mark"]:] if w[0] in ("any_write", "attr_write", "dict_write", "set_write", "list_write")
                  and (w[0] == "any_write" or w[1] is st["o"])]
        depth = self.SPECS[self.which][3]

        def bad(entry):
            if self.which in ("platforms", "parent_arch"):
                from pyvc.anycoll import member_key
                bit = st["listed"].member_bits.get(member_key(entry))
                return Not(bit) if bit is not None else True
            path = entry[1] if self.which == "image_paths" else entry
            return sym.startswith(path, "/")
        if out.kind == "raise":
            ex = [x for kind, c, x in wit if kind == "exit"]
            return {"raises_ValueError": out.exc_cls is ValueError, "raises_only_at_an_offending_entry": bad(ex[-1]) if ex else False,
                    "nothing_changed": not writes}
        # whole-table witness chain
        coll = st["table"]
        entry, ok = None, True
        for lvl in range(depth):
            ws = [x for kind, c, x in wit if kind == "all" and (c is coll or (isinstance(c, AnyItems) and c.d is coll))]
            if not ws:
                ok = False
                break
            x = ws[-1]
            if x is None:
                break
            if lvl == depth - 1:
                entry = x
            else:
                coll = [e[2] for e in coll.known if e[0] is x][0]
        return {"returns_only_if_every_entry_satisfies_the_rule": And(ok, Not(bad(entry)) if entry is not None else True),
                "nothing_changed": not writes}

    def concretise(self, model, st):
        return None

    def sample_inputs(self, rng):
        for n in (0, 1, 3):
            for badpos in (None, 0, n - 1):
                if badpos is not None and (n == 0 or badpos < 0):
                    continue
                yield {"n": n, "bad": badpos}

    def native_eval(self, inputs):
        TI = self.src.mods["treeinfo"]
        ti = TI.TreeInfo()
        n, badpos = inputs["n"], inputs["bad"]
        names = ["e%d" % i for i in range(n)]
        if self.which == "image_paths":
            plats = ["xen", "x86_64", "aarch64", "ppc64le"]
            ti.images.images = dict((plats[i], {"kernel": ("/abs/k%d" % i) if i == badpos else "rel/k%d" % i, "initrd": "rel/i"}) for i in range(n))
            o = ti.images
        elif self.which == "platforms":
            ti.images.images = dict(("plat%d" % i, {"kernel": "k"}) for i in range(n))
            ti.tree.platforms = set("plat%d" % i for i in range(n) if i != badpos)
            o = ti.images
        elif self.which == "parent_arch":
            CI = self.src.mods["composeinfo"]
            ci = CI.ComposeInfo()
            parent, o = CI.Variant(ci), CI.Variant(ci)
            arches = ["src", "x86_64", "s390x", "aarch64"][:n]
            o.parent, o.arches, o.uid = parent, set(arches), "P-C"
            parent.arches = set(a for i, a in enumerate(arches) if i != badpos) | set(["i386"])
        else:
            ti.checksums.checksums = dict((("/abs/%s" % x) if i == badpos else "rel/%s" % x, ("sha256", "0" * 64)) for i, x in enumerate(names))
            o = ti.checksums
        nat = native_call(getattr(o, self.SPECS[self.which][1]))
        if nat[0] == "raise":
            return nat, {"raises_ValueError": nat[1] is ValueError, "raises_only_at_an_offending_entry": badpos is not None}
        return nat, {"returns_only_if_every_entry_satisfies_the_rule": badpos is None}

    def describe(self, inputs):
        return "%s on a table of %d entries%s" % (self.name, inputs["n"], "" if inputs["bad"] is None else ", entry #%d offending" % inputs["bad"])

def contracts(src, T):
    return [ComposeVariantValid(src, T, False), ComposeVariantValid(src, T, True), TreeImagesValid(src, T), TreeChecksumsValid(src, T),
            TreeVariantValid(src, T, False), TreeVariantValid(src, T, True)] + [ScanValidatorAny(src, T, w) for w in ScanValidatorAny.SPECS]
